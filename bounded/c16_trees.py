"""Tree families shared by the bounded checks C16 and C17.

Only ``DerivationTree(value, children, id=None)`` and the oracles of
:mod:`bounded.reftree` are used to build trees; nothing here calls an ISLa tree
method.  Every family member is addressed by a JSON-able *spec* so that a case
can be rebuilt for replay:

``["ref", gname, allow_open, max_nodes, index]``
    the ``index``-th tree of ``ref_trees(G, start, max_nodes, allow_open)``
``["rand", gname, depth, rng_key]``
    ``random_tree(G, start, Random(rng_key), depth)``
``["wide", n_children, variant]``
    tree of the ``wide`` grammar whose ``<row30>``/``<row40>`` node has 30/40
    children (variant 0: all ``x``; 1: alternating, 2: some children left open)
``["fan", k, variant]``
    hand-built node ``<n>`` with ``k`` children of the synthetic grammar
    ``fan_grammar(k)`` (variant 0: closed, 1: every third child open,
    2: children have grandchildren ``<c> -> <c><c>``)
"""
from __future__ import annotations

import random
from typing import Dict, List, Tuple

from isla.derivation_tree import DerivationTree

from bounded.grammars import GRAMMARS, START_SYMBOLS
from bounded.reftree import from_struct, random_tree, ref_tree_structs

Grammar = Dict[str, List[str]]


def fan_grammar(k: int) -> Grammar:
    return {
        "<start>": ["<n>"],
        "<n>": ["<c>" * k],
        "<c>": ["x", "y", "<c><c>"],
    }


_STRUCT_CACHE: Dict[Tuple, list] = {}


def ref_structs(gname: str, allow_open: bool, max_nodes: int) -> list:
    key = (gname, allow_open, max_nodes)
    if key not in _STRUCT_CACHE:
        _STRUCT_CACHE[key] = list(
            ref_tree_structs(GRAMMARS[gname], START_SYMBOLS[gname], max_nodes, allow_open)
        )
    return _STRUCT_CACHE[key]


def _leaf(sym: str, rng_bit: int) -> tuple:
    return ("<c>", ((("x", "y")[rng_bit % 2], ()),))


def build(spec) -> Tuple[DerivationTree, Grammar, str]:
    """-> (fresh tree, grammar, root symbol)"""
    kind = spec[0]
    if kind == "ref":
        _, gname, allow_open, max_nodes, index = spec
        structs = ref_structs(gname, bool(allow_open), int(max_nodes))
        return from_struct(structs[index % len(structs)]), GRAMMARS[gname], START_SYMBOLS[gname]
    if kind == "rand":
        _, gname, depth, rng_key = spec
        g = GRAMMARS[gname]
        return random_tree(g, START_SYMBOLS[gname], random.Random(rng_key), int(depth)), g, START_SYMBOLS[gname]
    if kind == "wide":
        _, n, variant = spec
        g = GRAMMARS["wide"]
        kids = []
        for i in range(n):
            if variant == 2 and i % 7 == 3:
                kids.append(("<c>", None))
            else:
                kids.append(("<c>", ((("x" if (variant == 0 or i % 2 == 0) else "y"), ()),)))
        struct = ("<start>", ((f"<row{n}>", tuple(kids)),))
        return from_struct(struct), g, "<start>"
    if kind == "fan":
        _, k, variant = spec
        g = fan_grammar(k)
        kids = []
        for i in range(k):
            if variant == 1 and i % 3 == 0:
                kids.append(("<c>", None))
            elif variant == 2 and i % 4 == 1:
                kids.append(("<c>", (("<c>", (("x", ()),)), ("<c>", (("y", ()),)))))
            else:
                kids.append(("<c>", ((("x", "y")[i % 2], ()),)))
        struct = ("<start>", (("<n>", tuple(kids)),))
        return from_struct(struct), g, "<start>"
    raise ValueError(f"unknown tree spec {spec!r}")


def max_branching(t: DerivationTree) -> int:
    best = 0
    stack = [t]
    while stack:
        n = stack.pop()
        kids = n.children or ()
        best = max(best, len(kids))
        stack.extend(kids)
    return best
