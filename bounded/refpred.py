"""Reference definitions of ISLa's nine structural predicates.

Written from islaspec.rst, section "Structural Predicates" (the table of
"intuitive meanings" and the formal definition of ``isBefore``), as
set-theoretic statements about paths.  A path is a tuple of child indices
("the empty path () points to the tree itself, the path (n) to the n-th child
of t's root ... Counting starts from 0").  For ``level`` the specification only
says "node_1 and node_2 are related relatively to each other as specified by
PRED and NONTERMINAL"; the single normative text is the comment block at the
top of ``level_check`` in ``isla/isla_predicates.py``, which is quoted at
:func:`level`.

All functions take the reference tree first (even where it is not needed) and
the remaining predicate arguments in the order of the ISLa predicate, paths as
tuples.  None of them calls into ISLa.

Vocabulary used below, for paths p, q:

* ``q <= p``  ("q is a prefix of p"): ``p[:len(q)] == q`` - the node at q is an
  ancestor of, or equal to, the node at p;
* ``fork(p, q)``: the least index k with ``p[k] != q[k]``; it exists iff neither
  path is a prefix of the other.
"""

from __future__ import annotations

from typing import List, Optional, Sequence, Tuple, Union

from bounded.reftree import ref_get, ref_paths

Path = Tuple[int, ...]


def _is_prefix(q: Sequence[int], p: Sequence[int]) -> bool:
    return len(q) <= len(p) and tuple(p[: len(q)]) == tuple(q)


def _fork(p: Sequence[int], q: Sequence[int]) -> Optional[int]:
    for k in range(min(len(p), len(q))):
        if p[k] != q[k]:
            return k
    return None


def before(tree, p1: Path, p2: Path) -> bool:
    """``before(node_1, node_2)``: "node_1 occurs before node_2 (not below) in
    the parse tree."

    Spec definition ``isBefore``: false if either path is exhausted, false if
    ``p2[0] < p1[0]``, true if ``p1[0] < p2[0]``, otherwise recurse on the
    tails.  Closed form: the paths fork (neither is a prefix of the other, so
    neither node is below the other and they are different) and at the fork
    p1 takes the smaller child index.
    """
    k = _fork(p1, p2)
    return k is not None and p1[k] < p2[k]


def after(tree, p1: Path, p2: Path) -> bool:
    """``after(node_1, node_2)``: "node_1 occurs after node_2 (not below) in
    the parse tree."  The converse of :func:`before`: the paths fork and at
    the fork p1 takes the LARGER index.  In particular false whenever one node
    is below (or equal to) the other."""
    k = _fork(p1, p2)
    return k is not None and p1[k] > p2[k]


def inside(tree, p1: Path, p2: Path) -> bool:
    """``inside(node_1, node_2)``: "node_1 is a subtree of node_2."  p2 is a
    prefix of p1; reflexive, because a tree is a subtree of itself (the spec's
    path listing names the whole tree, path (), among "each subtree")."""
    return _is_prefix(p2, p1)


def direct_child(tree, p1: Path, p2: Path) -> bool:
    """``direct_child(node_1, node_2)``: "node_1 is a direct child of node_2":
    p1 = p2 + (i,) for some i."""
    return len(p1) == len(p2) + 1 and _is_prefix(p2, p1)


def same_position(tree, p1: Path, p2: Path) -> bool:
    """"node_1 and node_2 occur at the same position (have to be the same
    node)."""
    return tuple(p1) == tuple(p2)


def different_position(tree, p1: Path, p2: Path) -> bool:
    """"node_1 and node_2 occur at different positions (cannot be the same
    node)."""
    return tuple(p1) != tuple(p2)


def nth(tree, n: Union[int, str], p1: Path, p2: Path) -> bool:
    """``nth(N, node_1, node_2)``: "node_1 is the N-th occurrence of a node
    with its nonterminal symbol within node_2.  N is a numeric String."

    Reading: node_1 lies in the subtree rooted at node_2 (that root included:
    it is an "occurrence ... within node_2" like every other node of that
    tree), and among the nodes of this subtree that carry node_1's label,
    taken in pre-order (document order), node_1 is number N, counting from 1
    (the spec counts positions from 1 wherever it counts occurrences, cf.
    the XPath ``[pos]`` description).
    """
    try:
        number = int(n)
    except (TypeError, ValueError):
        return False
    p1, p2 = tuple(p1), tuple(p2)
    if not _is_prefix(p2, p1):
        return False
    scope = ref_get(tree, p2)
    target = ref_get(tree, p1)
    if scope is None or target is None:
        return False
    same_label = [p2 + rel for rel, node in ref_paths(scope) if node.value == target.value]
    return 1 <= number <= len(same_label) and same_label[number - 1] == p1


def consecutive(
    tree, p1: Path, p2: Path, symmetric: bool = False, leaves_only: bool = True
) -> bool:
    """``consecutive(node_1, node_2)``: "node_1 and node_2 are consecutive
    leaves in the parse tree."

    Literal reading (default): both nodes are leaves of the reference tree
    (nodes without children) and node_2 is the immediate successor of node_1
    in the left-to-right sequence of all leaves.

    ``symmetric=True`` ignores the order of the two arguments (the sentence
    can be read either way; the ordered reading is the default because every
    other positional predicate of the table is ordered "node_1 ... node_2").

    ``leaves_only=False`` is the generalisation to arbitrary nodes that
    coincides with the literal reading on leaves: the paths fork with node_1
    first (``before``) and NO leaf of the reference tree lies strictly between
    the two subtrees, i.e. there is no leaf l with ``before(node_1, l)`` and
    ``before(l, node_2)``.  Note that variables of a formula always have
    nonterminal types, so on CLOSED trees (where every nonterminal node has
    children, at least the ``""`` child in epsilon style B) the literal
    reading is false for every pair of variable instantiations; it is
    meaningful for open trees, whose open leaves are nonterminals.
    """
    p1, p2 = tuple(p1), tuple(p2)
    if symmetric:
        return _consecutive_ordered(tree, p1, p2, leaves_only) or _consecutive_ordered(
            tree, p2, p1, leaves_only
        )
    return _consecutive_ordered(tree, p1, p2, leaves_only)


def _consecutive_ordered(tree, p1: Path, p2: Path, leaves_only: bool) -> bool:
    leaves: List[Path] = [p for p, node in ref_paths(tree) if not node.children]
    if leaves_only:
        if p1 not in leaves or p2 not in leaves:
            return False
        return leaves.index(p2) == leaves.index(p1) + 1
    if ref_get(tree, p1) is None or ref_get(tree, p2) is None:
        return False
    if not before(tree, p1, p2):
        return False
    return not any(before(tree, p1, leaf) and before(tree, leaf, p2) for leaf in leaves)


LEVEL_PREDS = ("EQ", "GE", "LE", "GT", "LT")


def level(
    tree, pred: str, nonterminal: str, p1: Path, p2: Path, include_self: bool = True
) -> bool:
    """``level(PRED, NONTERMINAL, node_1, node_2)``.

    Normative comment (``level_check``, both paragraphs): "There has to be a
    common prefix of both paths pointing to a `nonterminal` node, such that
    EQ: the remaining path fragments do not point to any `nonterminal` node.
    GE: the remaining path fragment for `arg_1` does not point to any
    `nonterminal` nodes.
    LE: the remaining path fragment for `arg_2` does not point to any
    `nonterminal` nodes.
    GT: the remaining path fragment for `arg_1` does not point to any
    `nonterminal` nodes, and the remaining path fragment for `arg_2` points to
    at least one `nonterminal` node.
    LT: the remaining path fragment for `arg_2` does not point to any
    `nonterminal` nodes, and the remaining path fragment for `arg_1` points to
    at least one `nonterminal` node.

    It is also possible to be outside of any `nonterminal` scope; then, the
    arguments may still be at the same of different levels. So, we also
    consider the empty prefix."

    Reading: the candidate prefixes q are the empty path () - ALWAYS, whatever
    the root's label ("we also consider the empty prefix") - and every
    non-empty common prefix of p1 and p2 whose node is labelled
    ``nonterminal``.  The "remaining path fragment" of p_i visits the nodes at
    ``p_i[:k]`` for ``len(q) < k <= len(p_i)`` (everything strictly below q on
    the way to node_i; node_i itself is included iff ``include_self``).
    ``c_i(q)`` is the number of those nodes labelled ``nonterminal``.  The
    predicate holds iff SOME candidate q satisfies the condition for ``pred``.
    (This matches the spec's example: in ``{int x; {int y = x;}}`` the outer
    block is such a q for ``level("GE", "<block>", decl, expr)``; in
    ``{{int x;} int y = x;}`` every candidate has the inner block on decl's
    fragment.)

    AMBIGUITY: the text does not say whether node_i itself belongs to its
    "remaining path fragment".  ``include_self=True`` (default) counts it - the
    fragment as a whole points to node_i; ``include_self=False`` only counts
    the nodes strictly between q and node_i.  The two readings differ only
    when node_1 or node_2 is itself labelled ``nonterminal``.
    :func:`level_readings` returns both verdicts.
    """
    if pred not in LEVEL_PREDS:
        raise ValueError(f"unknown level predicate {pred!r}")
    p1, p2 = tuple(p1), tuple(p2)
    if ref_get(tree, p1) is None or ref_get(tree, p2) is None:
        return False

    def labelled(path: Path) -> bool:
        node = ref_get(tree, path)
        return node is not None and node.value == nonterminal

    def fragment_count(q: Path, p: Path) -> int:
        last = len(p) if include_self else len(p) - 1
        return sum(1 for k in range(len(q) + 1, last + 1) if labelled(p[:k]))

    common = 0
    while common < min(len(p1), len(p2)) and p1[common] == p2[common]:
        common += 1
    for length in range(0, common + 1):
        q = p1[:length]
        if length > 0 and not labelled(q):
            continue
        c1, c2 = fragment_count(q, p1), fragment_count(q, p2)
        holds = {
            "EQ": c1 == 0 and c2 == 0,
            "GE": c1 == 0,
            "LE": c2 == 0,
            "GT": c1 == 0 and c2 > 0,
            "LT": c2 == 0 and c1 > 0,
        }[pred]
        if holds:
            return True
    return False


def level_readings(tree, pred: str, nonterminal: str, p1: Path, p2: Path) -> Tuple[bool, bool]:
    """``(verdict with include_self=True, verdict with include_self=False)``."""
    return (
        level(tree, pred, nonterminal, p1, p2, include_self=True),
        level(tree, pred, nonterminal, p1, p2, include_self=False),
    )


#: name -> (function, number of leading non-path (string) arguments)
PREDICATES = {
    "before": (before, 0),
    "after": (after, 0),
    "inside": (inside, 0),
    "direct_child": (direct_child, 0),
    "same_position": (same_position, 0),
    "different_position": (different_position, 0),
    "nth": (nth, 1),
    "consecutive": (consecutive, 0),
    "level": (level, 2),
}
