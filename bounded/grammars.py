"""Fixed and random reference grammars for the bounded oracle checks.

All grammars are in the ISLa / Fuzzing-Book dictionary format: a ``dict`` that
maps every nonterminal (``"<name>"``) to a list of expansion alternatives, each
alternative being ONE string in which nonterminals occur inline
(``"<assgn> ; <stmt>"``).  The empty string ``""`` is the epsilon alternative.
How an alternative string is cut into symbols is defined by ISLa's input format
(``isla.helpers.RE_NONTERMINAL = (<[^<> ]*>)``); the same reading is
re-implemented in :func:`bounded.reftree.split_expansion`.  Consequences worth
remembering when writing grammars by hand:

* ``"<"`` followed by ``<``, ``>``-less text or a blank is terminal text, so
  ``"<<id>>"`` reads as ``"<"  <id>  ">"`` and ``"</<id>>"`` as ``"</" <id> ">"``.
* Adjacent terminals of one alternative are ONE terminal symbol (``"a" "b"``
  cannot be distinguished from ``"ab"`` in this format).

Nothing in this module imports ISLa.
"""

from __future__ import annotations

import random
import re
from typing import Dict, List

Grammar = Dict[str, List[str]]

_RE_NT = re.compile(r"(<[^<> ]*>)")


def _split(expansion: str) -> List[str]:
    return [tok for tok in _RE_NT.split(expansion) if tok]


def _is_nt(sym: str) -> bool:
    return _RE_NT.fullmatch(sym) is not None


# --------------------------------------------------------------------------- #
# Fixed grammars
# --------------------------------------------------------------------------- #

GRAMMARS: Dict[str, Grammar] = {
    # (a) the assignment language of islaspec.rst (section "Grammars"), with
    #     three variables and three digits.
    "assgn": {
        "<start>": ["<stmt>"],
        "<stmt>": ["<assgn>", "<assgn> ; <stmt>"],
        "<assgn>": ["<var> := <rhs>"],
        "<rhs>": ["<var>", "<digit>"],
        "<var>": ["a", "b", "c"],
        "<digit>": ["0", "1", "2"],
    },
    # (b) left-recursive list
    "leftrec": {
        "<start>": ["<list>"],
        "<list>": ["<list>,<item>", "<item>"],
        "<item>": ["a", "b"],
    },
    # (c) right-recursive list
    "rightrec": {
        "<start>": ["<list>"],
        "<list>": ["<item>", "<item>,<list>"],
        "<item>": ["a", "b"],
    },
    # (d) epsilon alternatives and optional parts.  <tail> derives the empty
    #     word in two ways ("" and <ws> -> ""), i.e. finitely ambiguous.
    "nullable": {
        "<start>": ["<sign><body><tail>"],
        "<sign>": ["", "-"],
        "<body>": ["n", "n<body>"],
        "<tail>": ["", ".<body>", "<ws>"],
        "<ws>": ["", " <ws>"],
    },
    # (e) ambiguous expression grammar
    "ambig": {
        "<start>": ["<e>"],
        "<e>": ["<e>+<e>", "x"],
    },
    # (f) signed / zero-padded numerals
    "num": {
        "<start>": ["<int>"],
        "<int>": ["<sign><digits>"],
        "<sign>": ["", "-", "+"],
        "<digits>": ["<digit>", "<digit><digits>"],
        "<digit>": ["0", "1", "2", "9"],
    },
    # (g) multi-character terminals and keywords ("ba" is a prefix of "bar")
    "multichar": {
        "<start>": ["<stmt>"],
        "<stmt>": [
            "skip",
            "<id> := <cond>",
            "if <cond> then <stmt> else <stmt>",
        ],
        "<cond>": ["true", "false", "not <cond>"],
        "<id>": ["foo", "ba", "bar"],
    },
    # (h) very wide nodes: 30 and 40 children below one node
    "wide": {
        "<start>": ["<c>", "<row30>", "<row40>"],
        "<row30>": ["<c>" * 30],
        "<row40>": ["<c>" * 40],
        "<c>": ["x", "y"],
    },
    # (i) nested tags; terminals "<", ">" and "</" contain angle brackets
    "xmlish": {
        "<start>": ["<xml>"],
        "<xml>": ["<<id>><inner></<id>>"],
        "<inner>": ["", "<text>", "<xml><inner>"],
        "<text>": ["t", "t<text>"],
        "<id>": ["a", "b"],
    },
    # (j) rows and (possibly empty) fields
    "csvish": {
        "<start>": ["<csv>"],
        "<csv>": ["<row>", "<row>\n<csv>"],
        "<row>": ["<field>", "<field>,<row>"],
        "<field>": ["", "<char><field>"],
        "<char>": ["a", "1"],
    },
    # (k) the interesting root is <doc>, which is only reachable below <start>
    "altstart": {
        "<start>": ["[<doc>]"],
        "<doc>": ["<pair>", "<pair>;<doc>"],
        "<pair>": ["<key>=<val>"],
        "<key>": ["k", "j"],
        "<val>": ["0", "1"],
    },
}

#: The root symbol bounded checks should use per grammar ("<start>" unless the
#: grammar was designed around another one).
START_SYMBOLS: Dict[str, str] = {
    name: ("<doc>" if name == "altstart" else "<start>") for name in GRAMMARS
}

#: Node budgets for ``ref_trees`` that yield a useful number (tens to a few
#: hundred) of closed trees below ``<start>`` per grammar.  The assignment
#: language needs 9 nodes for ONE assignment and 18 for two.
ENUM_NODES: Dict[str, int] = {
    "assgn": 18,
    "leftrec": 12,
    "rightrec": 12,
    "nullable": 13,
    "ambig": 15,
    "num": 12,
    "multichar": 12,
    "wide": 8,
    "xmlish": 16,
    "csvish": 13,
    "altstart": 18,
}


# --------------------------------------------------------------------------- #
# Grammar analyses (also used to validate random grammars)
# --------------------------------------------------------------------------- #


def nonterminals_of(grammar: Grammar) -> List[str]:
    """Nonterminals in definition order."""
    return list(grammar.keys())


def terminals_chars(grammar: Grammar) -> List[str]:
    """Sorted list of all characters that occur in terminal symbols."""
    chars = set()
    for alts in grammar.values():
        for alt in alts:
            for sym in _split(alt):
                if not _is_nt(sym):
                    chars.update(sym)
    return sorted(chars)


def nullable_nonterminals(grammar: Grammar) -> List[str]:
    """Nonterminals that derive the empty word (least fixed point)."""
    nullable: List[str] = []
    changed = True
    while changed:
        changed = False
        for nt, alts in grammar.items():
            if nt in nullable:
                continue
            for alt in alts:
                if all(_is_nt(s) and s in nullable for s in _split(alt)):
                    nullable.append(nt)
                    changed = True
                    break
    return nullable


def productive_nonterminals(grammar: Grammar) -> List[str]:
    """Nonterminals that derive at least one terminal word."""
    prod: List[str] = []
    changed = True
    while changed:
        changed = False
        for nt, alts in grammar.items():
            if nt in prod:
                continue
            for alt in alts:
                if all((not _is_nt(s)) or s in prod for s in _split(alt)):
                    prod.append(nt)
                    changed = True
                    break
    return prod


def reachable_nonterminals(grammar: Grammar, start: str = "<start>") -> List[str]:
    seen = [start]
    todo = [start]
    while todo:
        nt = todo.pop(0)
        for alt in grammar.get(nt, []):
            for sym in _split(alt):
                if _is_nt(sym) and sym not in seen:
                    seen.append(sym)
                    todo.append(sym)
    return seen


def has_cyclic_derivation(grammar: Grammar) -> bool:
    """True iff some nonterminal A has a derivation A =>+ A.

    That is exactly the case in which some word has infinitely many derivation
    trees.  ``A -> B`` is an edge iff an alternative of ``A`` contains ``B`` and
    every OTHER symbol of that alternative is nullable; the grammar is
    infinitely ambiguous iff this edge relation has a cycle.
    """
    nullable = nullable_nonterminals(grammar)
    edges: Dict[str, List[str]] = {nt: [] for nt in grammar}
    for nt, alts in grammar.items():
        for alt in alts:
            syms = _split(alt)
            for i, sym in enumerate(syms):
                if not _is_nt(sym):
                    continue
                rest = syms[:i] + syms[i + 1 :]
                if all(_is_nt(r) and r in nullable for r in rest):
                    if sym not in edges[nt]:
                        edges[nt].append(sym)
    # cycle detection by iterated removal of sinks
    remaining = {nt: list(succ) for nt, succ in edges.items()}
    changed = True
    while changed:
        changed = False
        for nt in list(remaining.keys()):
            if all(s not in remaining for s in remaining[nt]):
                del remaining[nt]
                changed = True
    return bool(remaining)


def derives_nonempty_word(grammar: Grammar, start: str = "<start>") -> bool:
    """True iff ``start`` derives at least one non-empty word (assumes that
    all nonterminals are productive)."""
    nonempty: List[str] = []
    changed = True
    while changed:
        changed = False
        for nt, alts in grammar.items():
            if nt in nonempty:
                continue
            for alt in alts:
                if any((not _is_nt(s)) or s in nonempty for s in _split(alt)):
                    nonempty.append(nt)
                    changed = True
                    break
    return start in nonempty


def is_well_formed(grammar: Grammar, start: str = "<start>") -> bool:
    """All used nonterminals defined, all reachable and productive, no A =>+ A,
    every nonterminal has >= 1 alternative, and every alternative string splits
    into nonterminals of the grammar plus terminals free of '<' and '>'-formed
    pseudo nonterminals."""
    if start not in grammar:
        return False
    for nt, alts in grammar.items():
        if not _is_nt(nt) or not alts:
            return False
        if len(set(alts)) != len(alts):
            return False
        for alt in alts:
            for sym in _split(alt):
                if _is_nt(sym) and sym not in grammar:
                    return False
    if set(reachable_nonterminals(grammar, start)) != set(grammar):
        return False
    if set(productive_nonterminals(grammar)) != set(grammar):
        return False
    return not has_cyclic_derivation(grammar)


# --------------------------------------------------------------------------- #
# Random grammars
# --------------------------------------------------------------------------- #

_RANDOM_NT_NAMES = ["<start>", "<A>", "<B>", "<C>", "<D>"]
_RANDOM_ALT_LENGTHS = [0, 1, 1, 1, 1, 2, 2, 2, 2, 3, 3, 3, 4, 4]
_RANDOM_TERMINALS = ["a", "b", "0", "1", " ", "ab", "-", "(", ")", ","]


def _fallback_grammar() -> Grammar:
    return {"<start>": ["<A>", "<A>,<start>"], "<A>": ["a", "b"]}


def random_grammar(rng: random.Random) -> Grammar:
    """Seeded generator of well-formed grammars.

    Guarantees (checked by :func:`is_well_formed`; candidates that violate them
    are rejected and regenerated from the same ``rng`` stream, so the result is
    a deterministic function of the generator state):

    * at most 5 nonterminals, at most 3 alternatives each, at most 4 symbols per
      alternative, alternatives of one nonterminal pairwise distinct;
    * every nonterminal is defined, reachable from ``<start>`` and productive;
    * there is no cyclic derivation ``A =>+ A`` (no unit / nullable cycles), so
      every word has finitely many derivation trees;
    * terminals never contain ``<`` or ``>``;
    * the language of ``<start>`` contains a non-empty word.

    Epsilon alternatives, nullable nonterminals, left / right / middle
    recursion and ambiguity all occur.
    """
    for _ in range(200):
        n_nts = rng.randint(1, 5)
        nts = _RANDOM_NT_NAMES[:n_nts]
        grammar: Grammar = {}
        for idx, nt in enumerate(nts):
            n_alts = rng.randint(1, 3)
            alts: List[str] = []
            for _a in range(n_alts):
                n_syms = rng.choice(_RANDOM_ALT_LENGTHS)
                syms: List[str] = []
                for _s in range(n_syms):
                    # Later nonterminals are favoured to keep grammars
                    # productive; back references give recursion.
                    if rng.random() < 0.45:
                        if rng.random() < 0.7 and idx + 1 < n_nts:
                            syms.append(nts[rng.randint(idx + 1, n_nts - 1)])
                        else:
                            syms.append(nts[rng.randint(0, n_nts - 1)])
                    else:
                        syms.append(rng.choice(_RANDOM_TERMINALS))
                alt = "".join(syms)
                if alt not in alts:
                    alts.append(alt)
            grammar[nt] = alts
        if is_well_formed(grammar) and derives_nonempty_word(grammar):
            return grammar
    return _fallback_grammar()
