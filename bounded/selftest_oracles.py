"""Self-test of the reference oracles (run: ``cd /verif && /venv/bin/python -m
bounded.selftest_oracles``).

Part 1 - internal consistency (decides the exit status).  For every fixed
grammar the closed trees up to ``max(8, ENUM_NODES[name])`` nodes (at most 300)
plus seeded random trees are checked: ``ref_valid``, ``ref_member(ref_str)``,
parse round trip, agreement of the enumeration with the parser, open prefixes,
both epsilon styles; the path predicates are checked against a literal
transcription of the spec's recursive ``isBefore`` and against the partition
"before / after / above / below / same"; random grammars are exercised too.

Part 2 - report only.  ``ref_eval`` is compared with ``isla.evaluator.evaluate``
on constraint texts over the assignment grammar (and a few over other
grammars).  This is the ONLY place where ISLa's evaluator is called.  Every
disagreement is printed with the constraint and the tree string; the oracle is
NOT adjusted to ISLa, see the notes printed next to each constraint for the
specification sentence behind the oracle's reading.
"""

from __future__ import annotations

import itertools
import random
import sys
import time
from typing import Dict, List, Optional, Tuple

from bounded import refpred
from bounded.grammars import (
    ENUM_NODES,
    GRAMMARS,
    START_SYMBOLS,
    is_well_formed,
    random_grammar,
    terminals_chars,
)
from bounded.reftree import (
    EPS_CHILD,
    EPS_EMPTY,
    all_trees_from_string,
    from_struct,
    ref_count_parses,
    ref_get,
    ref_leaves,
    ref_member,
    ref_open,
    ref_paths,
    ref_prefixes,
    ref_size,
    ref_str,
    ref_tree_structs,
    ref_trees,
    ref_valid,
    random_tree,
    to_struct,
    tree_from_string,
)
from bounded.refeval import (
    OracleUndecided,
    OracleUnsupported,
    parse_formula,
    ref_eval_ex,
)

TREE_CAP = 300
FAILURES: List[str] = []


def check(cond: bool, message: str) -> None:
    if not cond:
        FAILURES.append(message)
        if len(FAILURES) <= 40:
            print("  FAIL:", message)


# --------------------------------------------------------------------------- #
# Part 1
# --------------------------------------------------------------------------- #


def spec_is_before(p1: tuple, p2: tuple) -> bool:
    """Literal transcription of the spec's recursive isBefore."""
    if p1 == () or p2 == ():
        return False
    if p2[0] < p1[0]:
        return False
    if p1[0] < p2[0]:
        return True
    return spec_is_before(p1[1:], p2[1:])


def check_tree(name: str, grammar, root: str, tree, max_nodes: Optional[int], struct_set) -> None:
    s = ref_str(tree)
    tag = f"{name}: tree {s!r}"
    check(ref_valid(grammar, tree, root), f"{tag}: not ref_valid")
    check(not ref_open(tree), f"{tag}: closed tree reported open")
    check(ref_str(tree, show_open=False) == s, f"{tag}: show_open changes a closed tree")
    check(ref_member(grammar, s, root), f"{tag}: own string not ref_member")
    parsed = tree_from_string(grammar, s, root)
    check(parsed is not None, f"{tag}: tree_from_string returned None")
    if parsed is not None:
        check(ref_str(parsed) == s, f"{tag}: round trip string differs: {ref_str(parsed)!r}")
        check(ref_valid(grammar, parsed, root), f"{tag}: reparsed tree invalid")
    n_parses = ref_count_parses(grammar, s, root, limit=3)
    check(n_parses >= 1, f"{tag}: ref_count_parses = 0")
    if n_parses == 1 and parsed is not None:
        check(to_struct(parsed) == to_struct(tree), f"{tag}: unambiguous string, different tree")
    alternatives = all_trees_from_string(grammar, s, root, limit=8)
    check(
        to_struct(tree) in [to_struct(a) for a in alternatives] or len(alternatives) == 8,
        f"{tag}: the tree is not among the parses of its string",
    )
    if max_nodes is not None:
        for alt in alternatives:
            if ref_size(alt) <= max_nodes:
                check(to_struct(alt) in struct_set, f"{tag}: parse missing from enumeration")
    parsed_a = tree_from_string(grammar, s, root, eps_style=EPS_EMPTY)
    check(
        parsed_a is not None and ref_valid(grammar, parsed_a, root) and ref_str(parsed_a) == s,
        f"{tag}: epsilon style A parse inconsistent",
    )
    # ids are unique within one tree
    ids = [node.id for _, node in ref_paths(tree)]
    check(len(set(ids)) == len(ids), f"{tag}: duplicate node ids")
    # strings near s: recogniser and parser agree
    for mutant in (s[:-1], s + s[-1:] if s else "x", s[1:]):
        member = ref_member(grammar, mutant, root)
        reparsed = tree_from_string(grammar, mutant, root)
        check(member == (reparsed is not None), f"{tag}: member/parse disagree on {mutant!r}")
        if reparsed is not None:
            check(ref_str(reparsed) == mutant and ref_valid(grammar, reparsed, root),
                  f"{tag}: parse of mutant {mutant!r} inconsistent")


def check_prefixes(name: str, grammar, root: str, tree) -> None:
    s = ref_str(tree)
    id_at = {path: node.id for path, node in ref_paths(tree)}
    prefixes = ref_prefixes(tree, limit=24)
    seen = []
    for prefix in prefixes:
        check(ref_open(prefix), f"{name}: prefix of {s!r} is not open")
        check(ref_valid(grammar, prefix, root), f"{name}: prefix {ref_str(prefix)!r} invalid")
        for path, node in ref_paths(prefix):
            check(id_at.get(path) == node.id, f"{name}: prefix of {s!r} changed id at {path}")
            original = ref_get(tree, path)
            check(original is not None and original.value == node.value,
                  f"{name}: prefix of {s!r} changed label at {path}")
        struct = to_struct(prefix)
        check(struct not in seen, f"{name}: duplicate prefix {ref_str(prefix)!r}")
        seen.append(struct)
    if ref_size(tree) > 1:
        check(len(prefixes) >= 1, f"{name}: no prefix for {s!r}")


def check_predicates(name: str, tree) -> None:
    paths = [p for p, _ in ref_paths(tree)][:40]
    order = {p: i for i, p in enumerate(paths)}
    for p1, p2 in itertools.product(paths, repeat=2):
        b = refpred.before(tree, p1, p2)
        a = refpred.after(tree, p1, p2)
        below = refpred.inside(tree, p1, p2) and p1 != p2
        above = refpred.inside(tree, p2, p1) and p1 != p2
        same = refpred.same_position(tree, p1, p2)
        tag = f"{name}: {ref_str(tree)!r} {p1} {p2}"
        check(b == spec_is_before(p1, p2), f"{tag}: before differs from the spec's isBefore")
        check(a == spec_is_before(p2, p1), f"{tag}: after is not the converse of isBefore")
        check([b, a, below, above, same].count(True) == 1, f"{tag}: relations do not partition")
        check(same != refpred.different_position(tree, p1, p2), f"{tag}: same/different")
        if b:
            check(order[p1] < order[p2], f"{tag}: before contradicts document order")
        check(
            refpred.direct_child(tree, p1, p2) == (below and len(p1) == len(p2) + 1),
            f"{tag}: direct_child",
        )
    # nth: within any scope, every node is the k-th of its label for exactly one k
    for scope in paths[:6]:
        inner = [scope + rel for rel, _ in ref_paths(ref_get(tree, scope))][:25]
        for p in inner:
            hits = [k for k in range(1, len(inner) + 2) if refpred.nth(tree, str(k), p, scope)]
            check(len(hits) == 1, f"{name}: nth not functional for {p} in {scope}: {hits}")
    leaves = [p for p, _ in ref_leaves(tree)]
    for i, p in enumerate(leaves):
        for j, q in enumerate(leaves):
            check(refpred.consecutive(tree, p, q) == (j == i + 1), f"{name}: consecutive {p} {q}")
            check(refpred.consecutive(tree, p, q, symmetric=True) == (abs(i - j) == 1),
                  f"{name}: symmetric consecutive {p} {q}")


def check_input_format(name: str, grammar) -> None:
    """Our reading of the grammar TEXT equals ISLa's (input format only)."""
    from isla.helpers import canonical, is_nonterminal

    from bounded.reftree import is_nt, rules_of

    theirs = canonical(grammar)
    ours = rules_of(grammar)
    for nt in grammar:
        check(tuple(tuple(alt) for alt in theirs[nt]) == ours[nt],
              f"{name}: {nt} is split differently by isla.helpers.canonical")
        for alt in ours[nt]:
            for sym in alt:
                check(bool(is_nonterminal(sym)) == is_nt(sym), f"{name}: nonterminal-ness of {sym!r}")
                check(not is_nt(sym) or sym in grammar, f"{name}: undefined nonterminal {sym!r}")


def part1() -> None:
    print("== Part 1: internal consistency ==")
    for name, grammar in GRAMMARS.items():
        t0 = time.time()
        check(is_well_formed(grammar), f"{name}: grammar not well formed")
        check_input_format(name, grammar)
        roots = ["<start>"]
        if START_SYMBOLS[name] != "<start>":
            roots.append(START_SYMBOLS[name])
        n_closed = n_open = n_random = 0
        for root in roots:
            max_nodes = max(8, ENUM_NODES[name])
            structs = list(itertools.islice(ref_tree_structs(grammar, root, max_nodes), 5000))
            complete = len(structs) < 5000
            check(len(set(structs)) == len(structs), f"{name}: duplicate trees enumerated")
            sizes = [ref_size(from_struct(s)) for s in structs[:TREE_CAP]]
            check(sizes == sorted(sizes) and all(sz <= max_nodes for sz in sizes),
                  f"{name}: enumeration not ordered by size / exceeds the budget")
            struct_set = set(structs)
            trees = [from_struct(s) for s in structs[:TREE_CAP]]
            for tree in trees:
                check_tree(name, grammar, root, tree, max_nodes if complete else None, struct_set)
            n_closed += len(trees)
            for tree in trees[:60]:
                check_prefixes(name, grammar, root, tree)
            for tree in trees[:25]:
                check_predicates(name, tree)
            # open enumeration: closed ones are a subset, all valid
            open_structs = list(itertools.islice(
                ref_tree_structs(grammar, root, min(max_nodes, 9), allow_open=True), TREE_CAP))
            for struct in open_structs:
                tree = from_struct(struct)
                check(ref_valid(grammar, tree, root), f"{name}: open-enumerated tree invalid")
                has_open = any(n.children is None for _, n in ref_paths(tree))
                check(ref_open(tree) == has_open, f"{name}: ref_open wrong")
                if not has_open:
                    check(struct in struct_set, f"{name}: closed tree missing without allow_open")
            check((root, None) in open_structs, f"{name}: t_0 (open root) not enumerated")
            n_open += len(open_structs)
            rng = random.Random(20260921)
            for _ in range(20):
                tree = random_tree(grammar, root, rng, max_depth=5)
                check_tree(name, grammar, root, tree, None, struct_set)
                n_random += 1
            for style in (EPS_CHILD, EPS_EMPTY):
                tree = random_tree(grammar, root, rng, max_depth=4, eps_style=style)
                check(ref_valid(grammar, tree, root), f"{name}: random tree ({style}) invalid")
        # non-members
        chars = terminals_chars(grammar)
        some_string = ref_str(random_tree(grammar, "<start>", random.Random(1), 3))
        for ch in chars[:6]:
            for candidate in (ch, ch + some_string, some_string + ch):
                member = ref_member(grammar, candidate)
                check(member == (tree_from_string(grammar, candidate, "<start>") is not None),
                      f"{name}: member/parse disagree on {candidate!r}")
        print(f"  {name:10s} closed={n_closed:4d} open={n_open:4d} random={n_random:3d} "
              f"chars={len(chars):2d}  {time.time() - t0:5.2f}s")

    # hand-picked facts
    g = GRAMMARS["ambig"]
    check(ref_count_parses(g, "x+x+x", "<start>", limit=10) == 2, "ambig: x+x+x should have 2 trees")
    check(ref_count_parses(g, "x+x+x+x", "<start>", limit=10) == 5, "ambig: x+x+x+x should have 5 trees")
    check(ref_count_parses(GRAMMARS["nullable"], "n", "<start>", limit=10) == 2,
          "nullable: 'n' should have 2 trees (<tail> -> '' | <ws> -> '')")
    check(ref_member(GRAMMARS["leftrec"], "a,b,a") and not ref_member(GRAMMARS["leftrec"], "a,b,"),
          "leftrec membership")
    check(ref_member(GRAMMARS["xmlish"], "<a><b>tt</b></a>") and not ref_member(GRAMMARS["xmlish"], "<a>"),
          "xmlish membership")
    check(ref_member(GRAMMARS["xmlish"], "<a></b>"), "xmlish: tag names are context free")
    check(ref_member(GRAMMARS["multichar"], "bar := not true"), "multichar: 'bar' vs 'ba'")
    check(ref_member(GRAMMARS["csvish"], ",a1,\n,"), "csvish: empty fields")
    check(ref_member(GRAMMARS["num"], "-0012") and not ref_member(GRAMMARS["num"], "--1"), "num")
    wide = tree_from_string(GRAMMARS["wide"], "xy" * 20, "<start>")
    check(wide is not None and len(wide.children[0].children) == 40, "wide: 40 children")

    t0 = time.time()
    rng = random.Random(4711)
    for i in range(150):
        grammar = random_grammar(rng)
        check(is_well_formed(grammar), f"random grammar {i} not well formed: {grammar}")
        check_input_format(f"random#{i}", grammar)
        for _ in range(3):
            tree = random_tree(grammar, "<start>", rng, max_depth=4)
            check_tree(f"random#{i}", grammar, "<start>", tree, None, set())
        small = list(itertools.islice(ref_trees(grammar, "<start>", 7), 40))
        for tree in small:
            check(ref_valid(grammar, tree, "<start>") and ref_member(grammar, ref_str(tree)),
                  f"random#{i}: enumerated tree inconsistent: {grammar}")
    check(random_grammar(random.Random(5)) == random_grammar(random.Random(5)), "random_grammar not deterministic")
    print(f"  random grammars: 150 grammars checked  {time.time() - t0:5.2f}s")


# --------------------------------------------------------------------------- #
# Part 2
# --------------------------------------------------------------------------- #

# (constraint text, note = why the oracle reads it the way it does)
ASSGN_CONSTRAINTS: List[Tuple[str, str]] = [
    ('forall <assgn> a: exists <var> v in a: v = "a"',
     "plain nested tree quantifiers"),
    ('forall <assgn> assgn="<var> := {<var> rhs}" in start: '
     'exists <assgn> decl="{<var> lhs} := <rhs>" in start: (before(decl, assgn) and (= lhs rhs))',
     "core-ISLa def-use constraint of the spec (match expressions)"),
    ('exists <assgn> decl: (before(decl, <assgn>) and <assgn>.<rhs>.<var> = decl.<var>)',
     "same with free nonterminal + XPath sugar; for a universal over an empty set of matches "
     "(no <assgn> with a <var> rhs) the spec gives TRUE"),
    ('exists <assgn> a: a = "a := 1"', "existential, SMT equation on the subtree string"),
    ('forall <var> v: not v = "c"', "negation"),
    ('forall <stmt> s="{<assgn> a}[ ; <stmt>]": nth("1", a, s)',
     "optional part: both variants of the match expression"),
    ('exists <stmt> s="{<assgn> a1} ; {<assgn> a2}": before(a1, a2)',
     "'match expressions can also go deeper': a2 sits below the nested <stmt>"),
    ('forall <rhs> r: forall <var> v in r: inside(v, r)', "quantifier over a bound variable's tree"),
    ('forall <stmt> s: exists <stmt> s2 in s: same_position(s, s2)',
     "subtrees(N, t) contains t itself (spec path listing: the tree itself is the subtree at "
     "path ()): oracle says TRUE for every tree"),
    ('forall <stmt> s: exists <stmt> s2 in s: different_position(s, s2)',
     "dual of the previous line: false exactly for the innermost <stmt>"),
    ('count(start, "<assgn>", "2")', "count with literal"),
    ('exists int n: (count(start, "<var>", n) and str.to.int(n) >= 3)', "exists int + count"),
    ('forall int n: (not count(start, "<digit>", n) or str.to.int(n) <= 1)',
     "forall int (oracle verdict TRUE is relative to the finite domain)"),
    ('forall <digit> d: str.to.int(d) < 2', "str.to.int atom"),
    ('forall <assgn> a: str.len(a) = 6', "str.len atom"),
    ('forall <assgn> a1: forall <assgn> a2: (same_position(a1, a2) or before(a1, a2) or after(a1, a2))',
     "before/after/same on siblings-or-cousins"),
    ('exists <assgn> a="{<var> l} := {<var> r}": l = r', "two bound elements"),
    ('exists <stmt> s: exists <assgn> a in s: after(a, s)',
     "after(node_1, node_2): 'occurs after node_2 (not below)'; a is always below s, so "
     "FALSE for every tree (an is_after that is 'not before and not same' would say TRUE)"),
    ('exists <stmt> s: exists <assgn> a in s: before(s, a)',
     "isBefore: bottom if one path is exhausted, so a node is never before its descendants"),
    ('forall <stmt> s="{<stmt> x}": same_position(s, x)',
     "the open root alone is a derivation tree (=>* is reflexive)"),
    ('forall <var> v: forall <digit> d: level("GE", "<stmt>", v, d)', "level"),
    ('forall <rhs> r: exists <assgn> a: direct_child(r, a)', "direct_child"),
    ('exists <var> v: exists <digit> d: consecutive(v, d)',
     "'consecutive LEAVES': <var>/<digit> nodes are inner nodes, so FALSE under the literal "
     "reading; even under the generalised reading (no leaf in between, "
     "refpred.consecutive(leaves_only=False)) it is FALSE, because the leaf ' := ' separates "
     "every <var> from the following <digit>"),
    ('forall <stmt> s: count(s, "<stmt>", "1")',
     "count: occurrences IN in_tree, root included - true iff there is one statement"),
]

EXTRA_STRINGS: Dict[str, List[str]] = {
    "wide": ["x" * 29 + "y", "x" * 29 + "y" * 11, "x" * 30, "x" * 40, "y" + "x" * 39],
}

OTHER_CONSTRAINTS: List[Tuple[str, str, str]] = [
    ("wide", 'forall <c> c in start: c = "x"',
     "nodes with 30/40 children (defect F2: SubtreesTrie drops children beyond the 29th)"),
    ("leftrec", 'forall <list> l: exists <item> i in l: i = "a"', "left recursion"),
    ("leftrec", 'exists <list> l="{<list> rest},{<item> last}": (last = "b" and str.len(rest) > 1)',
     "match expression on a left-recursive rule"),
    ("nullable", 'forall <sign> s: s = ""', "epsilon expansion has the empty string"),
    ("nullable", 'exists <start> x="{<sign> s}{<body> b}": b = "nn"',
     "match expression whose frontier passes over an epsilon-expanded <tail>: text-free "
     "frontier <sign><body> requires <tail> to be expanded to the empty word"),
    ("nullable", 'exists <start> x="{<sign> s}nn": s = "-"',
     "same situation with terminal text: '-nn' is the abstract word <sign> n n with <tail> => ''"),
    ("xmlish", 'forall <xml> x="<{<id> o}><inner></{<id> c}>": o = c', "terminals with angle brackets"),
    ("num", 'forall <digits> d: str.to.int(d) >= 0', "numerals with leading zeros"),
    ("altstart", 'const doc: <doc>; forall <pair> p in doc: exists <val> v in p: v = "1"',
     "explicit constant declaration exactly as in the spec's parser grammar "
     "(const_decl = 'const', ID, ':', VAR_TYPE, ';')"),
    ("altstart", 'forall <doc> d: forall <pair> p in d: exists <val> v in p: v = "1"',
     "same property without the constant declaration, on trees rooted in <start>"),
]


def oracle_verdict(formula, tree, grammar) -> str:
    try:
        verdict, exact = ref_eval_ex(formula, tree, grammar)
        return ("T" if verdict else "F") + ("" if exact else "~")
    except OracleUnsupported as exc:
        return f"unsupported({exc})"
    except OracleUndecided as exc:
        return f"undecided({exc})"


def isla_verdict(formula, tree, grammar) -> str:
    from isla.evaluator import evaluate  # the only use of ISLa's evaluator

    try:
        result = evaluate(formula, tree, grammar)
    except BaseException as exc:  # noqa: BLE001 - report whatever ISLa raises
        if isinstance(exc, KeyboardInterrupt):
            raise
        return f"raises {type(exc).__name__}"
    if result.is_true():
        return "T"
    if result.is_false():
        return "F"
    return "?"


def compare(name: str, grammar, root: str, text: str, note: str, trees) -> None:
    print(f"\n  [{name}] {text}\n      note: {note}")
    try:
        formula = parse_formula(text, grammar)
    except BaseException as exc:  # noqa: BLE001
        print(f"      parse_isla raises {type(exc).__name__}: {str(exc)[:200]}")
        return
    agree = 0
    n_true = 0
    disagreements: List[Tuple[str, str, str]] = []
    t0 = time.time()
    for tree in trees:
        ours = oracle_verdict(formula, tree, grammar)
        theirs = isla_verdict(formula, tree, grammar)
        if ours.rstrip("~") == theirs:
            agree += 1
            n_true += ours.startswith("T")
        else:
            disagreements.append((ref_str(tree), ours, theirs))
    print(f"      trees={len(trees)} agree={agree} (true: {n_true}) "
          f"disagree={len(disagreements)}  [{time.time() - t0:.1f}s]")
    kinds: Dict[Tuple[str, str], List[str]] = {}
    for s, ours, theirs in disagreements:
        kinds.setdefault((ours, theirs), []).append(s)
    for (ours, theirs), strings in kinds.items():
        shown = ", ".join(repr(s) for s in strings[:3])
        print(f"      DISAGREE oracle={ours} isla={theirs} on {len(strings)} trees, e.g. {shown}")


def sample(trees: list, n: int) -> list:
    if len(trees) <= n:
        return trees
    step = len(trees) / n
    return [trees[int(i * step)] for i in range(n)]


def part2() -> None:
    print("\n== Part 2: ref_eval vs isla.evaluator.evaluate (report only) ==")
    print("   verdicts: T / F; '~' = oracle verdict relative to the finite numeric domain; "
          "'?' = ISLa unknown")
    grammar = GRAMMARS["assgn"]
    trees = list(itertools.islice(ref_trees(grammar, "<start>", 18), 400))
    rng = random.Random(99)
    three = [t for t in (random_tree(grammar, "<start>", rng, 4) for _ in range(200))
             if ref_str(t).count(";") >= 2][:20]
    chosen = sample(trees, 90) + three
    print(f"   assgn trees: {len(chosen)} (all 1-statement, sampled 2-statement, 20 random >= 3)")
    for text, note in ASSGN_CONSTRAINTS:
        compare("assgn", grammar, "<start>", text, note, chosen)
    for name, text, note in OTHER_CONSTRAINTS:
        grammar = GRAMMARS[name]
        root = START_SYMBOLS[name] if text.startswith("const") else "<start>"
        trees = list(itertools.islice(ref_trees(grammar, root, max(8, ENUM_NODES[name])), 200))
        rng = random.Random(5)
        trees = sample(trees, 40) + [random_tree(grammar, root, rng, 4) for _ in range(10)]
        trees += [tree_from_string(grammar, s, root) for s in EXTRA_STRINGS.get(name, [])]
        compare(name, grammar, root, text, note, trees)


def main() -> int:
    t0 = time.time()
    part1()
    print(f"\nPart 1: {'PASS' if not FAILURES else 'FAIL'} ({len(FAILURES)} failures)")
    ok = not FAILURES
    try:
        part2()
    except BaseException as exc:  # noqa: BLE001 - part 2 never decides the exit status
        if isinstance(exc, KeyboardInterrupt):
            raise
        print(f"Part 2 aborted: {type(exc).__name__}: {exc}")
    print(f"\ntotal {time.time() - t0:.1f}s; internal consistency: {'PASS' if ok else 'FAIL'}")
    return 0 if ok else 1


if __name__ == "__main__":
    sys.exit(main())
