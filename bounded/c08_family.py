"""C08: template family of sugared constraints (ASTs of ``bounded.c08_desugar``).

``family(name, tier, seed)`` returns a list of ``{"g", "fam", "feat", "ast",
"min_parens"}``.  Templates are instantiated over the grammar profile (own
analysis of the grammar and of the enumerated trees; no ISLa).
"""

from __future__ import annotations

import random
from typing import List

from bounded.c07_helpers import Profile, profile
from bounded.c08_desugar import (
    And, App, B, I, Iff, Implies, Not, NT, Or, Pred, Q, QI, S, Smt, V, XP, Xor,
)

_BAD = set('"\\{}[]\n\t\r')


def _ok_lit(s: str) -> bool:
    return all((32 <= ord(ch) < 127) and ch not in _BAD for ch in s)


def eq(t, lit, style="infix"):
    return Smt(App("=", (t, S(lit)), style))


def eqt(t1, t2, style="infix"):
    return Smt(App("=", (t1, t2), style))


def len_cmp(t, op, k, style="infix"):
    return Smt(App(op, (App("str.len", (t,), "prefix" if style != "sexpr" else "sexpr"), I(k)), style))


def xp(head, *segs):
    return XP(head, tuple(tuple(seg) for seg in segs))


def rename_bound(ast, suffix: str):
    """Alpha-rename every name bound inside ``ast`` (tree / numeric quantifiers, match
    expression variables) by appending ``suffix``; used to keep the operands of
    the seeded combinations free of accidental name sharing."""
    from bounded.c08_desugar import BIN

    def term(t, env):
        if isinstance(t, V):
            return V(env.get(t.name, t.name))
        if isinstance(t, XP):
            head = term(t.head, env) if isinstance(t.head, V) else t.head
            return XP(head, t.segs)
        if isinstance(t, App):
            return App(t.op, tuple(term(x, env) for x in t.args), t.style)
        return t

    def go(g, env):
        if isinstance(g, Smt):
            return Smt(term(g.term, env))
        if isinstance(g, Pred):
            return Pred(g.name, tuple(term(x, env) for x in g.args))
        if isinstance(g, Not):
            return Not(go(g.arg, env))
        if isinstance(g, BIN):
            return type(g)(go(g.left, env), go(g.right, env))
        if isinstance(g, Q):
            inn = g.inn if g.inn is None else term(g.inn, env)
            env2 = dict(env)
            name = g.name
            if name is not None:
                env2[name] = name + suffix
                name = name + suffix
            mexpr = g.mexpr
            if mexpr is not None:
                elems = []
                for e in mexpr:
                    if not isinstance(e, str) and e[0] == "bind":
                        env2[e[2]] = e[2] + suffix
                        elems.append(("bind", e[1], e[2] + suffix))
                    else:
                        elems.append(e)
                mexpr = tuple(elems)
            return Q(g.kind, g.type, name, inn, go(g.body, env2), mexpr)
        if isinstance(g, QI):
            env2 = dict(env)
            env2[g.name] = g.name + suffix
            return QI(g.kind, g.name + suffix, go(g.body, env2))
        raise TypeError(g)

    return go(ast, {})


def family(name: str, tier: str = "quick", seed: int = 0) -> List[dict]:
    prof = profile(name, tier)
    occ = prof.occurring()
    out: List[dict] = []
    if not occ:
        return out

    def lit(nt, k=0):
        vals = [v for v in prof.lits.get(nt, []) if _ok_lit(v)]
        if not vals:
            return "zz"
        return vals[min(k, len(vals) - 1)]

    def add(fam, feat, ast, min_parens=False, cls=None, combo=True):
        """cls: cause-oriented input class for violation signatures (default fam:feat);
        combo: may this template be an operand of the seeded combinations?"""
        out.append({"g": name, "fam": fam, "feat": feat, "ast": ast, "min_parens": min_parens,
                    "cls": cls or f"{fam}:{feat}", "combo": combo and cls is None})

    T = occ[-1]
    U = occ[0]
    M = occ[len(occ) // 2]
    a, b = lit(T, 0), lit(T, 1)
    A = lambda t: eq(t, a)
    Bq = lambda t: eq(t, b)
    L = lambda t: len_cmp(t, ">", 3)

    # ---- 1. omitted `in start` ----------------------------------------------------
    for kind in ("forall", "exists"):
        add("in-start", f"{kind}", Q(kind, T, "x", None, A(V("x")), None))
        add("in-start", f"{kind}-explicit", Q(kind, T, "x", V("start"), A(V("x")), None))
        add("in-start", f"{kind}-nested-in", Q("forall", U, "u", None, Q(kind, T, "x", V("u"), A(V("x")), None), None))
        add("in-start", f"{kind}-nested-omitted", Q("exists", U, "u", None, Q(kind, T, "x", None, And(A(V("x")), Pred("inside", (V("x"), V("u")))), None), None))
    for p in prof.nts:
        if not prof.lits[p]:
            continue
        for alt in prof.rules[p][:3]:
            nts = [i for i, s in enumerate(alt) if s in prof.rules]
            if not nts or any(ch in _BAD for s in alt if s not in prof.rules for ch in s):
                continue
            i0 = nts[0]
            mexpr = tuple(("bind", s, "e1") if i == i0 else (("nt", s) if s in prof.rules else s) for i, s in enumerate(alt))
            add("in-start", "mexpr", Q("forall", p, "m", None, eq(V("e1"), lit(alt[i0])), mexpr))
            add("in-start", "mexpr-exists", Q("exists", p, "m", None, eq(V("e1"), lit(alt[i0])), mexpr))
            break

    # ---- 2. omitted names -----------------------------------------------------------
    for kind in ("forall", "exists"):
        add("nameless", kind, Q(kind, T, None, None, A(NT(T)), None))
        add("nameless", f"{kind}-twice-in-body", Q(kind, T, None, None, Or(A(NT(T)), Bq(NT(T))), None))
        add("nameless", f"{kind}-in-named", Q("forall", U, "u", None, Q(kind, T, None, V("u"), A(NT(T)), None), None))
        if T != U:
            add("nameless", f"{kind}-in-nameless", Q("forall", U, None, None, Q(kind, T, None, NT(U), A(NT(T)), None), None))
            add("nameless", f"{kind}-predicate", Q(kind, U, None, None, Q("exists", T, None, None, Pred("inside", (NT(T), NT(U))), None), None))
    add("nameless", "explicit-in-start", Q("exists", T, None, V("start"), A(NT(T)), None))
    add("nameless", "two-nameless-quantifiers-of-one-type", And(Q("exists", T, None, None, A(NT(T)), None), Q("exists", T, None, None, Bq(NT(T)), None)),
        cls="nameless:two-nameless-quantifiers-of-one-type")
    add("nameless", "two-nameless-quantifiers-of-one-type-or", Or(Q("forall", T, None, None, A(NT(T)), None), Q("forall", T, None, None, Bq(NT(T)), None)),
        cls="nameless:two-nameless-quantifiers-of-one-type")

    # ---- 3. free nonterminals -------------------------------------------------------
    add("free", "atom", A(NT(T)))
    add("free", "atom-sexpr", eq(NT(T), a, "sexpr"))
    add("free", "negated", Not(A(NT(T))))
    add("free", "same-type-twice", Or(A(NT(T)), Bq(NT(T))))
    add("free", "conjunction-one-type", And(A(NT(T)), Not(Bq(NT(T)))))
    if T != U:
        add("free", "two-types-or", Or(A(NT(T)), L(NT(U))))
        add("free", "two-types-and", And(A(NT(T)), L(NT(U))), cls="free:conjunction-over-several-closed-types")
        add("free", "two-types-one-atom", Smt(App("str.contains", (NT(U), NT(T)), "prefix")))
        add("free", "two-types-predicate", Pred("inside", (NT(T), NT(U))))
        add("free", "in-position", Q("forall", T, "x", NT(U), A(V("x")), None))
        add("free", "in-position-exists", Q("exists", T, "x", NT(U), A(V("x")), None))
        add("free", "under-exists", Q("exists", U, "u", None, Pred("inside", (NT(T), V("u"))), None))
        add("free", "under-exists-negated", Not(Q("exists", U, "u", None, Pred("inside", (NT(T), V("u"))), None)))
        add("free", "count", Pred("count", (NT(U), S(T), S("1"))))
        add("free", "count-int", QI("exists", "n", And(Pred("count", (NT(U), S(T), V("n"))), Smt(App(">", (App("str.to.int", (V("n"),), "prefix"), I(1)), "infix")))))
    add("free", "spec-example-shape", Q("exists", T, "y", None, And(Pred("before", (V("y"), NT(T))), A(V("y"))), None))
    add("free", "under-forall", Q("forall", T, "y", None, Or(Pred("same_position", (V("y"), NT(T))), Not(eqt(V("y"), NT(T)))), None))
    add("free", "start", eq(NT("<start>"), lit("<start>")))
    add("free", "start-len", len_cmp(NT("<start>"), ">", 3))
    add("free", "start-and-other", And(len_cmp(NT("<start>"), ">", 3), A(NT(T))), cls="free:conjunction-over-several-closed-types")
    add("free", "start-in-predicate", Pred("inside", (NT(T), NT("<start>"))))
    add("free", "start-in-position", Q("exists", T, "x", NT("<start>"), A(V("x")), None))
    if T != U:
        add("free", "mixed-with-nameless", And(A(NT(T)), Q("exists", U, None, None, L(NT(U)), None)), cls="free:conjunction-with-closed-formula")
    add("free", "mixed-with-nameless-same-type", And(A(NT(T)), Q("exists", T, None, None, Bq(NT(T)), None)), cls="free:free-and-nameless-quantifier-of-one-type")

    # ---- 4./5. XPath ------------------------------------------------------------------
    heads = [p for p in prof.nts if p != "<start>" and prof.lits[p]]
    n_children, n_desc = (2, 1) if tier == "quick" else (3, 3)
    if tier == "quick":
        heads = heads[:3]
    for p in heads:
        for c, k in prof.children[p][:n_children]:
            lc = lit(c)
            add("xpath-child", "free", eq(xp(NT(p), [(c, None)]), lc))
            add("xpath-child", "free-negated", Not(eq(xp(NT(p), [(c, None)]), lc)))
            add("xpath-child", "forall", Q("forall", p, "v", None, eq(xp(V("v"), [(c, None)]), lc), None))
            add("xpath-child", "exists", Q("exists", p, "v", None, eq(xp(V("v"), [(c, None)]), lc), None))
            add("xpath-child", "exists-negated-atom", Q("exists", p, "v", None, Not(eq(xp(V("v"), [(c, None)]), lc)), None))
            add("xpath-child", "index-1", eq(xp(NT(p), [(c, 1)]), lc))
            add("xpath-child", "nameless", Q("exists", p, None, None, eq(xp(NT(p), [(c, None)]), lc), None))
            add("xpath-child", "nameless-and-free-same-type", And(Q("exists", p, None, None, eq(xp(NT(p), [(c, None)]), lc), None), len_cmp(NT(p), ">", 0)),
                cls="xpath-child:nameless-quantifier-and-free-nonterminal-of-one-type", combo=False)
            add("xpath-child", "two-nameless-quantifiers", And(Q("exists", p, None, None, len_cmp(NT(p), ">", 0), None), Q("exists", p, None, None, eq(xp(NT(p), [(c, None)]), lc), None)),
                cls="xpath-child:two-nameless-quantifiers-of-one-type", combo=False)
            add("xpath-child", "in-predicate", Q("forall", p, "v", None, Pred("inside", (xp(V("v"), [(c, None)]), V("v"))), None))
            add("xpath-child", "free-in-predicate", Pred("direct_child", (xp(NT(p), [(c, None)]), NT(p))), cls="xpath:free-head-also-used-alone", combo=False)
            add("xpath-child", "and-whole", Q("exists", p, "v", None, And(eq(xp(V("v"), [(c, None)]), lc), len_cmp(V("v"), ">", 2)), None))
            add("xpath-child", "vs-free-same-type", Q("exists", p, "v", None, eqt(xp(V("v"), [(c, None)]), NT(c)), None), cls="xpath-child:compared-with-free-nonterminal-of-the-child-type", combo=False)
            add("xpath-child", "vs-free-same-type-forall", Q("forall", p, "v", None, eqt(xp(V("v"), [(c, None)]), NT(c)), None), cls="xpath-child:compared-with-free-nonterminal-of-the-child-type", combo=False)
            add("xpath-child", "nested-outer-head", Q("forall", p, "v", None, Q("exists", c, "w", None, eqt(V("w"), xp(V("v"), [(c, None)])), None), None))
            if k >= 2:
                add("xpath-child", "index-2", eq(xp(NT(p), [(c, 2)]), lc))
                add("xpath-child", "index-2-exists", Q("exists", p, "v", None, eq(xp(V("v"), [(c, 2)]), lc), None))
                add("xpath-child", "index-1-vs-2", Q("forall", p, "v", None, eqt(xp(V("v"), [(c, 1)]), xp(V("v"), [(c, 2)])), None))
                add("xpath-child", "index-1-vs-2-exists", Q("exists", p, "v", None, Not(eqt(xp(V("v"), [(c, 1)]), xp(V("v"), [(c, 2)]))), None))
            others = [c2 for c2, _ in prof.children[p] if c2 != c]
            if others:
                c2 = others[0]
                add("xpath-child", "two-children", Q("forall", p, "v", None, Or(eq(xp(V("v"), [(c, None)]), lc), eq(xp(V("v"), [(c2, None)]), lit(c2))), None))
                add("xpath-child", "two-children-exists", Q("exists", p, "v", None, Pred("before", (xp(V("v"), [(c, None)]), xp(V("v"), [(c2, None)]))), None))
            for d, _ in ([] if name == "ambig" else prof.children[c][:2]):
                ld = lit(d)
                add("xpath-child", "child-child", eq(xp(NT(p), [(c, None), (d, None)]), ld))
                add("xpath-child", "child-child-exists", Q("exists", p, "v", None, eq(xp(V("v"), [(c, None), (d, None)]), ld), None))
                add("xpath-desc", "child-then-descendant", eq(xp(NT(p), [(c, None)], [(d, None)]), ld))
                add("xpath-desc", "child-then-descendant-exists", Q("exists", p, "v", None, eq(xp(V("v"), [(c, None)], [(d, None)]), ld), None), cls="xpath-desc:under-existential-quantifier", combo=False)
                # two XPath expressions on DIFFERENT nested base variables with the same multi-element first segment:
                # their generated intermediate variables must not be identified
                add("xpath-desc", "child-then-descendant-two-nested-bases",
                    Q("forall", p, "va", None, Q("forall", p, "vb", None,
                      Or(eq(xp(V("va"), [(c, None)], [(d, None)]), ld), Not(eq(xp(V("vb"), [(c, None)], [(d, None)]), ld))), None), None),
                    cls="xpath-desc:two-nested-bases", combo=False)
        for d in prof.desc[p][-n_desc:]:
            ld = lit(d)
            add("xpath-desc", "free", eq(xp(NT(p), [], [(d, None)]), ld))
            add("xpath-desc", "free-negated", Not(eq(xp(NT(p), [], [(d, None)]), ld)))
            add("xpath-desc", "named-forall", Q("forall", p, "v", None, eq(xp(V("v"), [], [(d, None)]), ld), None))
            add("xpath-desc", "named-exists", Q("exists", p, "v", None, eq(xp(V("v"), [], [(d, None)]), ld), None), cls="xpath-desc:under-existential-quantifier", combo=False)
            # `..` on the variable of an OUTER universal quantifier, used below an inner existential one: the generated
            # universal quantifier belongs directly below the binder of the base variable, above the existential
            add("xpath-desc", "outer-forall-base-under-inner-exists",
                Q("forall", p, "v", None, Q("exists", d, "w", None, eqt(xp(V("v"), [], [(d, None)]), V("w")), None), None),
                cls="xpath-desc:outer-base-under-inner-exists", combo=False)
            add("xpath-desc", "nameless-exists", Q("exists", p, None, None, eq(xp(NT(p), [], [(d, None)]), ld), None), cls="xpath-desc:under-existential-quantifier", combo=False)
            add("xpath-desc", "predicate", Pred("inside", (xp(NT(p), [], [(d, None)]), NT(p))), cls="xpath:free-head-also-used-alone", combo=False)
            for e, _ in prof.children[d][:1]:
                add("xpath-desc", "descendant-then-child", eq(xp(NT(p), [], [(d, None), (e, None)]), lit(e)), cls="xpath-desc:descendant-then-child", combo=False)
                add("xpath-desc", "descendant-then-child-forall", Q("forall", p, "v", None, eq(xp(V("v"), [], [(d, None), (e, None)]), lit(e)), None), cls="xpath-desc:descendant-then-child", combo=False)
    if prof.children.get("<start>"):
        c0 = prof.children["<start>"][0][0]
        add("xpath-child", "head-start-nonterminal", eq(xp(NT("<start>"), [(c0, None)]), lit(c0)), cls="xpath:head-is-start-nonterminal", combo=False)
        add("xpath-child", "head-start-and-free-start", And(len_cmp(NT("<start>"), ">", 0), eq(xp(NT("<start>"), [(c0, None)]), lit(c0))), cls="xpath:head-is-start-nonterminal", combo=False)
        add("xpath-desc", "head-start-nonterminal", eq(xp(NT("<start>"), [], [(T, None)]), a), cls="xpath:head-is-start-nonterminal", combo=False)

    # ---- 6. SMT notation, 7. negative literals (small-tree grammars only) ---------------
    if name in ("rightrec", "num", "nullable", "multichar") or tier == "thorough":
        x = V("x")
        wrapq = lambda atom: Q("forall", T, "x", None, atom, None)
        # str.to.int only where every value of the variable is a numeral (the property
        # excludes str.to.int on non-numerals); elsewhere str.len takes its place
        numeral = bool(prof.lits[T]) and all(v.isascii() and v.isdigit() for v in prof.lits[T])
        to_int = "str.to.int" if numeral else "str.len"
        slen = lambda st: App("str.len", (x,), st)
        atoms = []
        for op in ("=", ">=", "<=", ">", "<"):
            atoms.append((f"{op}:infix", Smt(App(op, (slen("prefix"), I(1)), "infix"))))
            atoms.append((f"{op}:sexpr-over-prefix", Smt(App(op, (slen("prefix"), I(1)), "sexpr"))))
        for op in ("+", "-", "*", "div", "mod"):
            atoms.append((f"{op}:infix-under-comparison", Smt(App("=", (App(op, (slen("prefix"), I(2)), "infix"), I(3)), "infix"))))
            atoms.append((f"{op}:infix-right-operand", Smt(App("<", (I(1), App(op, (slen("prefix"), I(2)), "infix")), "infix"))))
        atoms.append(("spec-example", Smt(App("=", (App("+", (I(17), App("str.len", (x,), "prefix")), "infix"), App("str.len", (App("str.++", (x, S("0123456789abcdefg")), "infix"),), "prefix")), "infix"))))
        atoms.append(("str.++:infix", Smt(App("=", (App("str.++", (x, S(b)), "infix"), S(a + b)), "infix"))))
        atoms.append(("str.<=:infix", Smt(App("str.<=", (x, S(a)), "infix"))))
        atoms.append(("re.++:infix", Smt(App("str.in_re", (x, App("re.++", (App("str.to_re", (S(a[:1]),), "prefix"), App("re.all", (), "sexpr")), "infix")), "prefix"))))
        for op, args in [
            ("str.prefixof", (S(a[:1]), x)), ("str.suffixof", (S(a[-1:]), x)), ("str.contains", (x, S(a[:1]))),
            ("str.is_digit", (x,)),
        ]:
            atoms.append((f"{op}:prefix", Smt(App(op, args, "prefix"))))
        for op, args, res in [
            ("str.at", (x, I(0)), S(a[:1])), ("str.substr", (x, I(0), I(1)), S(a[:1])), ("str.replace", (x, S(a[:1]), S("Z")), S("Z" + a[1:])),
            ("str.indexof", (x, S(a[:1]), I(0)), I(0)), ("str.to_code", (x,), I(ord(a[:1] or "a"))), (to_int, (x,), I(1)),
            ("abs", (App("-", (App("str.len", (x,), "prefix"), I(3)), "infix"),), I(2)),
            ("str.len", (App("str.replace_all", (x, S(a[:1]), S("")), "prefix"),), I(0)),
        ]:
            atoms.append((f"{op}:prefix", Smt(App("=", (App(op, args, "prefix"), res), "infix"))))
        for op, args in [("re.+", None), ("re.*", None), ("re.opt", None), ("re.comp", None)]:
            atoms.append((f"{op}:prefix", Smt(App("str.in_re", (x, App(op, (App("str.to_re", (S(a[:1]),), "prefix"),), "prefix")), "prefix"))))
        for op in ("re.union", "re.inter", "re.diff"):
            atoms.append((f"{op}:prefix", Smt(App("str.in_re", (x, App(op, (App("str.to_re", (S(a),), "prefix"), App("str.to_re", (S(b),), "prefix")), "prefix")), "prefix"))))
        atoms.append(("re.range:prefix", Smt(App("str.in_re", (x, App("re.range", (S("a"), S("m")), "prefix")), "prefix"))))
        atoms.append(("negative:right", Smt(App(">", (App(to_int, (x,), "prefix"), I(-1)), "infix"))))
        atoms.append(("negative:left", Smt(App("<", (I(-1), App(to_int, (x,), "prefix")), "infix"))))
        atoms.append(("negative:changelog-example", Smt(App("<", (App(to_int, (x,), "prefix"), I(-1)), "infix"))))
        atoms.append(("negative:plus", Smt(App("=", (App("+", (App("str.len", (x,), "prefix"), I(-1)), "infix"), I(0)), "infix"))))
        atoms.append(("negative:prefix-arg", Smt(App("=", (App("abs", (I(-3),), "prefix"), App("+", (App("str.len", (x,), "prefix"), I(2)), "infix")), "infix"))))
        atoms.append(("negative:sexpr-arg", Smt(App("=", (App("+", (App("str.len", (x,), "sexpr"), I(-1)), "sexpr"), I(0)), "sexpr"))))
        atoms.append(("negative:str.at", Smt(App("=", (App("str.at", (x, I(-1)), "prefix"), S("")), "infix"))))
        for feat, atom in atoms:
            fam = "negative-literal" if feat.startswith("negative") else "smt-notation"
            add(fam, feat, wrapq(atom))
        add("smt-notation", "free-nonterminal-operand", Smt(App("=", (App("str.len", (NT(T),), "prefix"), I(1)), "infix")))
        add("negative-literal", "free-nonterminal-operand", Smt(App(">", (App("str.len", (NT(T),), "prefix"), I(-1)), "infix")))

    # ---- 8. implies / iff / xor ---------------------------------------------------------
    P1, P2, P3 = A(NT(T)), L(NT(U)), Bq(NT(T))
    x, y = V("x"), V("y")
    qa = Q("exists", T, "x", None, A(x), None)
    qb = Q("forall", T, "y", None, Or(A(y), Bq(y)), None)
    connective_nodes = (("implies", Implies), ("iff", Iff), ("xor", Xor))
    if tier == "quick" and name not in ("assgn", "rightrec", "nullable", "multichar", "csvish"):
        connective_nodes = ()
    for cls, node in connective_nodes:
        add("connective", f"{cls}:closed-operands", node(qa, qb))
        add("connective", f"{cls}:closed-operands-swapped", node(qb, qa))
        add("connective", f"{cls}:under-quantifier", Q("forall", T, "x", None, node(A(x), len_cmp(x, "<", 2)), None))
        add("connective", f"{cls}:under-exists", Q("exists", T, "x", None, node(A(x), Pred("inside", (x, x))), None))
        add("connective", f"{cls}:free-nonterminals", node(P1, P2))
        add("connective", f"{cls}:free-same-type", node(P1, P3))
        add("connective", f"{cls}:negated", Not(node(qa, qb)))
        add("connective", f"{cls}:nested-left", node(node(qa, qb), Q("exists", U, "u", None, L(V("u")), None)))
    qc = Q("exists", U, "u", None, L(V("u")), None)
    if connective_nodes:
        add("connective", "precedence:and-not-or", Or(And(qa, Not(qb)), And(qb, Not(qa))), True)
        add("connective", "precedence:and-or-xor", Xor(Or(And(qa, qb), qc), qa), True)
        add("connective", "precedence:xor-implies", Implies(Xor(qa, qb), qc), True)
        add("connective", "precedence:implies-iff", Iff(Implies(qa, qb), qc), True)
        add("connective", "precedence:iff-right", Iff(qc, Implies(qa, Xor(qb, Or(qc, And(qa, qb))))), True)
        add("connective", "precedence:or-and", Or(qa, And(qb, qc)), True)
        add("connective", "precedence:not-and", And(Not(qa), qb), True)

    # ---- 8b. XPath expressions below connectives ------------------------------------------
    pc = [(p, c) for p in heads for c, _ in prof.children[p][:1]]
    if len(pc) >= 2:
        (p1, c1_), (p2, c2_) = pc[0], pc[-1]
        e1 = Q("exists", p1, "v", None, eq(xp(V("v"), [(c1_, None)]), lit(c1_)), None)
        e2 = Q("exists", p2, "w", None, eq(xp(V("w"), [(c2_, None)]), lit(c2_)), None)
        e2v = Q("forall", p2, "v", None, eq(xp(V("v"), [(c2_, None)]), lit(c2_)), None)
        f1 = eq(xp(NT(p1), [(c1_, None)]), lit(c1_))
        f2 = eq(xp(NT(p2), [(c2_, None)]), lit(c2_, 1))
        add("xpath-connective", "and-two-bound", And(e1, e2), combo=False)
        add("xpath-connective", "or-two-bound", Or(e1, e2), combo=False)
        add("xpath-connective", "same-name-in-sibling-scopes", Or(e1, e2v), cls="xpath:same-variable-name-in-sibling-scopes", combo=False)
        add("xpath-connective", "and-two-free", And(f1, f2), cls="xpath-connective:conjunction-of-free-heads", combo=False)
        add("xpath-connective", "or-two-free", Or(f1, f2), combo=False)
        add("xpath-connective", "not-or-two-free", Not(Or(f1, f2)), cls="xpath-connective:conjunction-of-free-heads", combo=False)
        for cls_, node in (("implies", Implies), ("iff", Iff), ("xor", Xor)):
            add("xpath-connective", f"{cls_}-two-bound", node(e1, e2), cls=f"xpath-connective:{cls_}-of-bound-heads", combo=False)
            add("xpath-connective", f"{cls_}-two-free", node(f1, f2), cls=f"xpath-connective:{cls_}-of-free-heads", combo=False)
            add("xpath-connective", f"{cls_}-under-quantifier", Q("forall", p1, "v", None, node(eq(xp(V("v"), [(c1_, None)]), lit(c1_)), len_cmp(V("v"), ">", 2)), None),
                cls=f"xpath-connective:{cls_}-under-quantifier", combo=False)

    # ---- 9. seeded combinations -----------------------------------------------------------
    # Operands come from the families above.  Interactions that the dedicated
    # templates already cover as input classes of their own are not generated
    # again in random mixtures (the signature of a mixture would not name them):
    #   * a conjunction (and / not-or / not-implies) with an operand that needs a
    #     top-level closure           -> free:conjunction-*, xpath-connective:conjunction-*
    #   * iff / xor (operands are duplicated) over XPath operands or two operands
    #     with free nonterminals      -> xpath-connective:iff-*, xor-*
    #   * a negated operand with a descendant axis -> xpath-desc:under-existential-quantifier
    #   * a free nonterminal of one operand whose type is quantified namelessly or is
    #     an XPath step / head in the other -> free:free-and-nameless-*, xpath-child:compared-with-*
    #   * nameless quantifiers over one type in both operands -> nameless:two-nameless-*, xpath-child:two-nameless-*
    from bounded.c08_desugar import Fresh, all_terms, name_quantifiers, names_used

    def type_sets(ast):
        named = name_quantifiers(ast, Fresh(names_used(ast)))
        free_t, other_t, nameless_t = set(), set(), set()
        for t in all_terms(named):
            if isinstance(t, NT):
                free_t.add(t.type)
            elif isinstance(t, XP):
                if isinstance(t.head, NT):
                    free_t.add(t.head.type)
                for seg in t.segs:
                    for typ, _ in seg:
                        other_t.add(typ)

        def walk(g):
            if isinstance(g, Q):
                if g.name is None:
                    other_t.add(g.type)
                    nameless_t.add(g.type)
                walk(g.body)
            elif isinstance(g, QI):
                walk(g.body)
            elif isinstance(g, Not):
                walk(g.arg)
            elif hasattr(g, "left"):
                walk(g.left)
                walk(g.right)

        walk(ast)
        return free_t, other_t, nameless_t

    def flags(ast):
        named = name_quantifiers(ast, Fresh(names_used(ast)))
        terms = all_terms(named)
        has_free = any(isinstance(t, NT) or (isinstance(t, XP) and isinstance(t.head, NT)) for t in terms)
        has_xpath = any(isinstance(t, XP) for t in terms)
        has_desc = any(isinstance(t, XP) and len(t.segs) > 1 for t in terms)
        return has_free, has_xpath, has_desc

    rng = random.Random(f"{seed}:{name}:c08")
    pool = [c for c in out if c["fam"] in ("free", "xpath-child", "xpath-desc", "nameless", "in-start") and c["combo"]]
    n_combo = 12 if tier == "quick" else 60
    attempts = 0
    made = 0
    while made < n_combo and attempts < 40 * n_combo and len(pool) >= 2:
        attempts += 1
        c1, c2 = rng.sample(pool, 2)
        node = rng.choice([And, Or, Implies, Iff, Xor])
        negated = rng.random() < 0.3
        if node in (Iff, Xor):
            shape = "duplicating"
        elif (node is And and not negated) or (node in (Or, Implies) and negated):
            shape = "conjunctive"
        else:
            shape = "disjunctive"
        f1, f2 = flags(c1["ast"]), flags(c2["ast"])
        if shape == "conjunctive" and (f1[0] or f2[0]):
            continue
        if shape == "duplicating" and (f1[1] or f2[1] or f1[0] or f2[0]):
            continue
        left_negated = (node is Implies) != negated if node in (Implies,) else negated
        if (f1[2] and (left_negated or shape != "disjunctive")) or (f2[2] and (negated or shape != "disjunctive")):
            continue
        (fr1, ot1, nl1), (fr2, ot2, nl2) = type_sets(c1["ast"]), type_sets(c2["ast"])
        if (fr1 & ot2) or (fr2 & ot1) or (fr1 & ot1) or (fr2 & ot2) or (nl1 & nl2):
            continue
        ast = node(c1["ast"], rename_bound(c2["ast"], "2"))
        if negated:
            ast = Not(ast)
        fams = "+".join(sorted([c1["fam"], c2["fam"]]))
        add("combo", f"{'not-' if negated else ''}{node.__name__.lower()}:{c1['fam']}+{c2['fam']}", ast,
            cls=f"combo:{shape}:{fams}", combo=False)
        made += 1
    return out
