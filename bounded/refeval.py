"""Reference satisfaction relation ``tree |= formula`` for CLOSED derivation
trees, written from islaspec.rst, section "Semantics".

ISLa objects are only READ here: ``parse_isla`` produces the formula and the
oracle inspects its fields.  Neither ``isla.evaluator`` nor any method that
computes something about formulas or trees is called; trees are traversed with
:mod:`bounded.reftree`, structural predicates come from :mod:`bounded.refpred`.

Specification sentences and the choices made where the text leaves room
---------------------------------------------------------------------

*Shortcut t |= phi*: "Assuming c is this constant, then t |= phi is undefined
if freeVars(phi) != {c}; equivalent to [c -> t] |= phi".  The oracle binds
every ``Constant`` of the formula to the root (path ``()``); more than one
distinct constant, or a free non-constant variable, raises
:class:`OracleUnsupported`.

*SMT atoms*: "let phi' be a formula resulting from negating the instantiation
of phi according to beta.  Then beta |= phi holds iff sat(phi') = UNSAT.  When
instantiating phi, we have to convert the derivation trees in beta to strings
first".  -> :func:`_eval_smt`; UNKNOWN raises :class:`OracleUndecided`.

*Propositional combinators*: literally the three clauses for not/and/or.

*Tree quantifiers*: "Let subtrees(N, t) be the subtrees of the derivation tree
t labeled with the nonterminal symbol N. ... holds for all / for some
t' in subtrees(T, beta(t))".  CHOICE: t itself is one of its subtrees (the
spec's own path listing introduces "the paths of each subtree in the
derivation tree" and starts with the whole tree at path (); ``inside`` is
described by the same word "subtree").  So ``forall <stmt> s in x`` with x a
<stmt> tree also ranges over x.  Candidates are visited in pre-order.

*Match expressions*: "we parse the match expression into a set of (typically
open) derivation trees ... Either because optionals are used, or because the
reference grammar is ambiguous ... we select only those [subtrees] of which
some derivation tree for the match expression is a prefix", formalised by
``mexprTrees(T, mexpr)`` (all trees t' with root T, t_0 =>* t', whose frontier
spells the match expression with the optional parts left out or in) and
``match(t, t', P)`` (labels equal; where t' has children, t has equally many
and they match pairwise; a bound element's node binds the corresponding
subtree of t).  Because ``match`` succeeds exactly when t' is a prefix of t,
the pairs ``(t', P)`` that match a CLOSED tree t are in bijection with the
CUTS of t: antichains of nonterminal nodes ("open leaves" of t') such that
the frontier of t above the cut - cut nodes as nonterminal tokens, all other
leaves as terminal text - spells one variant of the match expression.  The
oracle enumerates these cuts (:func:`ref_matches`).  Consequences / choices:

  - terminal text of the match expression is compared with the CONCATENATION
    of the terminal leaves between two cut nodes; one piece of text may span
    several terminal leaves and may reach below nonterminals that the match
    expression does not mention (``<var> := {<var> rhs}`` for an <assgn> goes
    through the unmentioned <rhs>, exactly like the spec's ``mexprTrees``
    example); empty-string leaves of epsilon expansions contribute nothing;
  - the tree consisting of the open root only is a derivation tree
    (``=>*`` is reflexive), hence ``{<T> x}`` matches every T-subtree with x
    bound to the subtree itself;
  - a universal quantifier requires the body for ALL (subtree, cut) pairs, an
    existential one for SOME pair ("for all t1 ... and for all (t2, P)" /
    "there is a t1 ... and there is a (t2, P)");
  - tokens of nonterminal shape that are not nonterminals of the grammar can
    only be text and are treated as text.

*Numeric quantifiers*: "Let N be the set of all derivation trees whose string
representation correspond to that of a positive integer, e.g., "0", "1",
"17"".  CHOICE: N = canonical decimal numerals without sign or leading zeros,
zero included (the spec's own example contains "0").  N is infinite; the
oracle uses the finite domain ``0..K`` plus every integer literal of the
formula (and its two neighbours), every numeral that is the string of a node
of the tree, and every node count a ``count`` atom of the formula can produce
on this tree.  Therefore ``exists int`` = True and ``forall int`` = False are
exact, the other two outcomes are exact only relative to that domain;
:func:`ref_eval_ex` reports whether a verdict relied on it.

*count*: "There are NUM occurrences of the NEEDLE nonterminal in in_tree."
CHOICE: all nodes of in_tree labelled NEEDLE, the root included (same
"occurrence in a tree" notion as for subtrees(N, t); the later sentence
"children labeled with <line> inside the derivation tree" is the only hint
in the other direction and concerns a case where root and needle differ).
NUM is compared as an integer.
"""

from __future__ import annotations

from typing import Dict, Iterator, List, Optional, Sequence, Tuple, Union

import z3

import isla.language as isla_lang
from isla.derivation_tree import DerivationTree

from bounded import refpred
from bounded.reftree import (
    is_nt,
    ref_find_id,
    ref_get,
    ref_open,
    ref_paths,
    ref_str,
)

Grammar = Dict[str, List[str]]
Path = Tuple[int, ...]


class OracleUnsupported(Exception):
    """The formula / tree has a shape this oracle deliberately does not judge."""


class OracleAmbiguous(OracleUnsupported):
    """Two defensible readings of the documentation give different verdicts
    (currently only ``level`` when an argument node is itself labelled with the
    level nonterminal, see :func:`bounded.refpred.level`)."""


class OracleUndecided(Exception):
    """Z3 answered ``unknown`` for a ground SMT atom."""


# beta maps variable NAMES to ("tree", path-in-reference-tree) or ("num", str)
Beta = Dict[str, Tuple[str, Union[Path, str]]]

# one token of a match-expression variant: (kind, text-or-nonterminal, varname)
Token = Tuple[str, str, Optional[str]]


class _Ctx:
    def __init__(self, tree: DerivationTree, grammar: Grammar, domain: List[str], timeout_ms: int):
        self.tree = tree
        self.grammar = grammar
        self.domain = domain
        self.timeout_ms = timeout_ms
        self.bounded_verdict = False  # a numeric quantifier verdict relied on the finite domain


# --------------------------------------------------------------------------- #
# Public entry points
# --------------------------------------------------------------------------- #


def ref_eval(formula, tree: DerivationTree, grammar: Grammar, K: int = 12) -> bool:
    """``tree |= formula`` per islaspec.rst for a closed ``tree``."""
    return ref_eval_ex(formula, tree, grammar, K)[0]


def ref_eval_ex(
    formula, tree: DerivationTree, grammar: Grammar, K: int = 12, timeout_ms: int = 10000
) -> Tuple[bool, bool]:
    """``(verdict, exact)``: ``exact`` is False iff some numeric quantifier was
    decided by exhausting the FINITE stand-in for the infinite set N
    (``forall int`` found no counterexample / ``exists int`` found no witness)."""
    if ref_open(tree):
        raise OracleUnsupported("the reference semantics is defined on closed trees only")
    constants = _constants(formula)
    if len(constants) > 1:
        raise OracleUnsupported(f"t |= phi is undefined for several constants: {constants}")
    ctx = _Ctx(tree, grammar, numeric_domain(formula, tree, K), timeout_ms)
    beta: Beta = {name: ("tree", ()) for name in constants}
    verdict = _eval(formula, beta, ctx)
    return verdict, not ctx.bounded_verdict


def ref_eval_text(text: str, tree: DerivationTree, grammar: Grammar, K: int = 12) -> bool:
    """Parse ``text`` with ISLa's parser (standard predicate sets) and evaluate
    it with the reference semantics."""
    return ref_eval(parse_formula(text, grammar), tree, grammar, K)


def parse_formula(text: str, grammar: Grammar):
    from isla.isla_predicates import (
        STANDARD_SEMANTIC_PREDICATES,
        STANDARD_STRUCTURAL_PREDICATES,
    )

    return isla_lang.parse_isla(
        text,
        grammar,
        structural_predicates=STANDARD_STRUCTURAL_PREDICATES,
        semantic_predicates=STANDARD_SEMANTIC_PREDICATES,
    )


# --------------------------------------------------------------------------- #
# Formula walking helpers (field access only)
# --------------------------------------------------------------------------- #


def _subformulas(formula) -> Iterator:
    yield formula
    if isinstance(formula, (isla_lang.QuantifiedFormula, isla_lang.NumericQuantifiedFormula)):
        yield from _subformulas(formula.inner_formula)
    elif isinstance(formula, isla_lang.PropositionalCombinator):
        for arg in formula.args:
            yield from _subformulas(arg)


def _constants(formula) -> List[str]:
    names: List[str] = []

    def note(var) -> None:
        if type(var) is isla_lang.Constant and var.name not in names:
            names.append(var.name)

    for sub in _subformulas(formula):
        if isinstance(sub, isla_lang.QuantifiedFormula):
            note(sub.in_variable)
        elif isinstance(sub, isla_lang.SMTFormula):
            for var in sub.free_variables_:
                note(var)
        elif isinstance(
            sub, (isla_lang.StructuralPredicateFormula, isla_lang.SemanticPredicateFormula)
        ):
            for arg in sub.args:
                note(arg)
    return names


def _z3_subterms(expr) -> Iterator:
    todo = [expr]
    while todo:
        e = todo.pop()
        yield e
        todo.extend(e.children())


def numeric_domain(formula, tree: DerivationTree, K: int = 12) -> List[str]:
    """Finite stand-in for N (see module docstring), ascending, as canonical
    numerals."""
    values = set(range(0, K + 1))

    def add_int(i: int) -> None:
        for j in (i - 1, i, i + 1):
            if j >= 0:
                values.add(j)

    def add_text(s: str) -> None:
        if s.isascii() and s.isdigit():
            add_int(int(s))

    needles: List[str] = []
    for sub in _subformulas(formula):
        if isinstance(sub, isla_lang.SMTFormula):
            for term in _z3_subterms(sub.formula):
                if z3.is_int_value(term):
                    add_int(abs(term.as_long()))
                elif z3.is_string_value(term):
                    add_text(term.as_string())
        elif isinstance(
            sub, (isla_lang.StructuralPredicateFormula, isla_lang.SemanticPredicateFormula)
        ):
            for arg in sub.args:
                if isinstance(arg, str):
                    add_text(arg)
            if isinstance(sub, isla_lang.SemanticPredicateFormula) and sub.predicate.name == "count":
                if isinstance(sub.args[1], str) and sub.args[1] not in needles:
                    needles.append(sub.args[1])
    nodes = ref_paths(tree)
    for _, node in nodes:
        add_text(ref_str(node))
    for needle in needles:
        for _, node in nodes:
            values.add(count_occurrences(node, needle))
    return [str(v) for v in sorted(values)]


def count_occurrences(in_tree: DerivationTree, needle: str) -> int:
    """Number of nodes of ``in_tree`` (root included) labelled ``needle``."""
    return sum(1 for _, node in ref_paths(in_tree) if node.value == needle)


# --------------------------------------------------------------------------- #
# Match expressions
# --------------------------------------------------------------------------- #


def mexpr_variants(bind_expression, grammar: Grammar) -> List[List[Token]]:
    """Token sequences of a match expression, one per way of keeping / dropping
    its optional ``[...]`` parts (first variant: all optionals dropped ...
    binary counting, leftmost optional most significant).  Tokens are
    ``("nt", "<T>", name-or-None)`` and ``("text", chars, None)``; adjacent
    text tokens are merged; duplicates are removed."""
    elements = list(bind_expression.bound_elements)
    optional_positions = [i for i, e in enumerate(elements) if isinstance(e, list)]
    variants: List[List[Token]] = []
    for mask in range(2 ** len(optional_positions)):
        keep = {
            pos: bool((mask >> (len(optional_positions) - 1 - k)) & 1)
            for k, pos in enumerate(optional_positions)
        }
        raw: List[Token] = []
        for i, elem in enumerate(elements):
            if isinstance(elem, list):
                if keep[i]:
                    raw.extend(_element_token(e, grammar, in_optional=True) for e in elem)
            else:
                raw.append(_element_token(elem, grammar, in_optional=False))
        merged: List[Token] = []
        for tok in raw:
            if tok[0] == "text":
                if tok[1] == "":
                    continue
                if merged and merged[-1][0] == "text":
                    merged[-1] = ("text", merged[-1][1] + tok[1], None)
                    continue
            merged.append(tok)
        if merged not in variants:
            variants.append(merged)
    return variants


def _element_token(elem, grammar: Grammar, in_optional: bool) -> Token:
    if isinstance(elem, str):
        symbol, name = elem, None
    elif isinstance(elem, isla_lang.DummyVariable):
        symbol, name = elem.n_type, None
    elif isinstance(elem, isla_lang.BoundVariable):
        symbol, name = elem.n_type, elem.name
    else:
        raise OracleUnsupported(f"unexpected match expression element {elem!r}")
    if is_nt(symbol) and symbol in grammar:
        return ("nt", symbol, name)
    if name is not None:
        raise OracleUnsupported(f"bound element {name} has no nonterminal type: {symbol!r}")
    return ("text", symbol, None)


def ref_matches(
    subtree: DerivationTree, base: Path, variant: Sequence[Token]
) -> List[Dict[str, Path]]:
    """All cuts of the closed ``subtree`` whose frontier spells ``variant``.

    Returns one dict ``{bound element name: absolute path}`` per cut (paths are
    prefixed with ``base``, the position of ``subtree`` in the reference
    tree), in the order: "cut here" before "descend", children left to right.
    A state ``(i, o)`` says: tokens before i are consumed, and o characters of
    the text token i.
    """
    tokens = list(variant)
    State = Tuple[int, int]

    def norm(i: int, o: int) -> State:
        if i < len(tokens) and tokens[i][0] == "text" and o == len(tokens[i][1]):
            return (i + 1, 0)
        return (i, o)

    def node_matches(node: DerivationTree, path: Path, state: State) -> Iterator[Tuple[State, Tuple[Tuple[str, Path], ...]]]:
        i, o = state
        children = node.children
        if children is None:
            raise OracleUnsupported("open tree in match")
        if not is_nt(node.value):
            text = node.value
            if text == "":
                yield state, ()
                return
            if i < len(tokens) and tokens[i][0] == "text" and tokens[i][1].startswith(text, o):
                yield norm(i, o + len(text)), ()
            return
        # (a) cut here: the node is an open leaf of the match-expression tree
        if i < len(tokens) and o == 0 and tokens[i][0] == "nt" and tokens[i][1] == node.value:
            name = tokens[i][2]
            yield (i + 1, 0), (((name, path),) if name is not None else ())
        # (b) descend: the node is expanded in the match-expression tree too
        if len(children) == 0:
            yield state, ()  # style-A epsilon expansion: consumes nothing
            return
        yield from seq_matches(children, path, 0, state)

    def seq_matches(children, path: Path, k: int, state: State):
        if k == len(children):
            yield state, ()
            return
        for state1, binds1 in node_matches(children[k], path + (k,), state):
            for state2, binds2 in seq_matches(children, path, k + 1, state1):
                yield state2, binds1 + binds2

    results: List[Dict[str, Path]] = []
    for state, binds in node_matches(subtree, tuple(base), (0, 0)):
        if state == (len(tokens), 0):
            results.append({name: path for name, path in binds})
    return results


# --------------------------------------------------------------------------- #
# The satisfaction relation
# --------------------------------------------------------------------------- #


def _eval(formula, beta: Beta, ctx: _Ctx) -> bool:
    if isinstance(formula, isla_lang.SMTFormula):
        return _eval_smt(formula, beta, ctx)
    if isinstance(formula, isla_lang.NegatedFormula):
        return not _eval(formula.args[0], beta, ctx)
    if isinstance(formula, isla_lang.ConjunctiveFormula):
        return all([_eval(arg, beta, ctx) for arg in formula.args])
    if isinstance(formula, isla_lang.DisjunctiveFormula):
        return any([_eval(arg, beta, ctx) for arg in formula.args])
    if isinstance(formula, isla_lang.ForallFormula):
        return all(_eval(formula.inner_formula, b, ctx) for b in _instantiations(formula, beta, ctx))
    if isinstance(formula, isla_lang.ExistsFormula):
        return any(_eval(formula.inner_formula, b, ctx) for b in _instantiations(formula, beta, ctx))
    if isinstance(formula, isla_lang.ForallIntFormula):
        name = formula.bound_variable.name
        for numeral in ctx.domain:
            if not _eval(formula.inner_formula, _extend(beta, name, ("num", numeral)), ctx):
                return False
        ctx.bounded_verdict = True
        return True
    if isinstance(formula, isla_lang.ExistsIntFormula):
        name = formula.bound_variable.name
        for numeral in ctx.domain:
            if _eval(formula.inner_formula, _extend(beta, name, ("num", numeral)), ctx):
                return True
        ctx.bounded_verdict = True
        return False
    if isinstance(formula, isla_lang.StructuralPredicateFormula):
        return _eval_structural(formula, beta, ctx)
    if isinstance(formula, isla_lang.SemanticPredicateFormula):
        return _eval_semantic(formula, beta, ctx)
    raise OracleUnsupported(f"formula class {type(formula).__name__}")


def _extend(beta: Beta, name: str, value) -> Beta:
    new = dict(beta)
    new[name] = value
    return new


def _tree_path(arg, beta: Beta, ctx: _Ctx) -> Path:
    """Path (in the reference tree) of the tree denoted by a formula argument."""
    if isinstance(arg, isla_lang.Variable):
        if arg.name not in beta:
            raise OracleUnsupported(f"variable {arg.name} is not bound by the assignment")
        kind, value = beta[arg.name]
        if kind != "tree":
            raise OracleUnsupported(f"numeric variable {arg.name} used where a tree is needed")
        return value  # type: ignore[return-value]
    if isinstance(arg, DerivationTree):
        path = ref_find_id(ctx.tree, arg.id)
        if path is None:
            raise OracleUnsupported("tree argument does not occur in the reference tree")
        return path
    raise OracleUnsupported(f"cannot interpret {arg!r} as a tree")


def _instantiations(formula, beta: Beta, ctx: _Ctx) -> Iterator[Beta]:
    """All assignments beta[v -> t1] (union match(t1, t2, P)) the quantifier
    ranges over, subtrees in pre-order, cuts in :func:`ref_matches` order."""
    in_path = _tree_path(formula.in_variable, beta, ctx)
    in_tree = ref_get(ctx.tree, in_path)
    if in_tree is None:
        raise OracleUnsupported(f"path {in_path} left the reference tree")
    bound = formula.bound_variable
    variants = (
        None
        if formula.bind_expression is None
        else mexpr_variants(formula.bind_expression, ctx.grammar)
    )
    for rel, node in ref_paths(in_tree):
        if node.value != bound.n_type:
            continue
        path = tuple(in_path) + rel
        with_var = _extend(beta, bound.name, ("tree", path))
        if variants is None:
            yield with_var
            continue
        for variant in variants:
            for binding in ref_matches(node, path, variant):
                new = dict(with_var)
                for name, bpath in binding.items():
                    new[name] = ("tree", bpath)
                yield new


def _string_of(arg, beta: Beta, ctx: _Ctx) -> str:
    if isinstance(arg, isla_lang.Variable):
        if arg.name not in beta:
            raise OracleUnsupported(f"variable {arg.name} is not bound by the assignment")
        kind, value = beta[arg.name]
        if kind == "num":
            return value  # type: ignore[return-value]
        node = ref_get(ctx.tree, value)  # type: ignore[arg-type]
        if node is None:
            raise OracleUnsupported("dangling path in assignment")
        return ref_str(node)
    if isinstance(arg, DerivationTree):
        return ref_str(arg)
    if isinstance(arg, str):
        return arg
    raise OracleUnsupported(f"cannot convert {arg!r} to a string")


def z3_string_literal(s: str):
    """``z3.StringVal`` without surprises: StringVal interprets ``\\u{..}``
    escapes of its input, so backslashes (and everything outside printable
    ASCII) are passed in escaped form."""
    escaped = "".join(
        ch if 32 <= ord(ch) < 127 and ch != "\\" else "\\u{%x}" % ord(ch) for ch in s
    )
    return z3.StringVal(escaped)


def _eval_smt(formula, beta: Beta, ctx: _Ctx) -> bool:
    pairs = []
    done: List[str] = []
    for var, subst_tree in formula.substitutions.items():
        pairs.append((z3.String(var.name), z3_string_literal(ref_str(subst_tree))))
        done.append(var.name)
    for var in formula.free_variables_:
        if var.name in done:
            continue
        pairs.append((z3.String(var.name), z3_string_literal(_string_of(var, beta, ctx))))
        done.append(var.name)
    for var in formula.instantiated_variables:
        if var.name not in done:
            raise OracleUnsupported(f"instantiated variable {var.name} without substitution")
    ground = z3.substitute(formula.formula, *pairs) if pairs else formula.formula
    simplified = z3.simplify(ground)
    if z3.is_true(simplified):
        return True
    if z3.is_false(simplified):
        return False
    solver = z3.Solver()
    solver.set("timeout", ctx.timeout_ms)
    solver.add(z3.Not(ground))
    answer = solver.check()
    if answer == z3.unsat:
        return True
    if answer == z3.sat:
        return False
    raise OracleUndecided(f"z3 says unknown for {ground.sexpr()}")


def _eval_structural(formula, beta: Beta, ctx: _Ctx) -> bool:
    name = formula.predicate.name
    if name not in refpred.PREDICATES:
        raise OracleUnsupported(f"structural predicate {name}")
    function, n_strings = refpred.PREDICATES[name]
    args = list(formula.args)
    if len(args) != n_strings + 2:
        raise OracleUnsupported(f"{name} with {len(args)} arguments")
    strings = []
    for arg in args[:n_strings]:
        if not isinstance(arg, str):
            raise OracleUnsupported(f"{name}: argument {arg!r} should be a string literal")
        strings.append(arg)
    paths = [_tree_path(arg, beta, ctx) for arg in args[n_strings:]]
    if name == "level":
        with_self, without_self = refpred.level_readings(ctx.tree, *strings, *paths)
        if with_self != without_self:
            raise OracleAmbiguous(
                f"level{tuple(strings)} at {paths}: include_self={with_self}, "
                f"exclude_self={without_self}"
            )
        return with_self
    return bool(function(ctx.tree, *strings, *paths))


def _eval_semantic(formula, beta: Beta, ctx: _Ctx) -> bool:
    name = formula.predicate.name
    if name != "count":
        raise OracleUnsupported(f"semantic predicate {name}")
    in_arg, needle, num = formula.args
    if not isinstance(needle, str):
        raise OracleUnsupported("count: NEEDLE must be a string literal")
    in_tree = ref_get(ctx.tree, _tree_path(in_arg, beta, ctx))
    numeral = _string_of(num, beta, ctx)
    if not (numeral.isascii() and numeral.isdigit()):
        raise OracleUnsupported(f"count: NUM {numeral!r} is not a numeric string")
    return count_occurrences(in_tree, needle) == int(numeral)
