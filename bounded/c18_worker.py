"""Worker for the bounded check of C18 (check / parse / repair / mutate).

One task = one (grammar, constraint template) pair with a list of input
strings and a small plan of repair / mutate calls.  The worker builds ONE
``ISLaSolver`` (default settings) and records, for every input, what the real
methods do next to the verdicts of the independent oracles
(``bounded.reftree``: membership, number of parses, reference parse trees;
``bounded.refeval``: satisfaction).  All judging happens in the parent
(``checks.bounded_C18``); this module only observes.
"""

from __future__ import annotations

import random
import signal
import time
from typing import Any, Dict, List, Optional

from bounded.c01_cases import Watchdog, _alarm_handler, _exc_record, is_watchdog, struct_to_json
from bounded.grammars import GRAMMARS as _BASE_GRAMMARS

#: the reference grammars plus `wide1`: the language of `wide` with a single-alternative start symbol
#: (ISLa's EarleyParser only accepts such start symbols)
GRAMMARS = dict(_BASE_GRAMMARS)
GRAMMARS["wide1"] = {
    "<start>": ["<top>"],
    "<top>": ["<c>", "<row30>", "<row40>"],
    "<row30>": ["<c>" * 30],
    "<row40>": ["<c>" * 40],
    "<c>": ["x", "y"],
}
#: a grammar whose start symbol is recursive (reachable from itself)
GRAMMARS["recstart"] = {"<start>": ["<A>"], "<A>": ["(<start>)", "x"]}


class _Budget:
    def __init__(self, seconds: int):
        self.seconds = seconds

    def __enter__(self):
        self.old = signal.signal(signal.SIGALRM, _alarm_handler)
        signal.alarm(self.seconds)

    def __exit__(self, *exc):
        signal.alarm(0)
        signal.signal(signal.SIGALRM, self.old)
        return False


def _observe(fn, budget_s: int) -> Dict[str, Any]:
    """Call ``fn`` under a soft watchdog; returns {'ok': value} | {'exc': record} | {'watchdog': True}."""
    try:
        with _Budget(budget_s):
            return {"ok": fn()}
    except Watchdog:
        return {"watchdog": True}
    except BaseException as e:  # noqa: BLE001 - the exception IS the observation
        if is_watchdog(e):
            return {"watchdog": True}
        rec = _exc_record(e)
        rec["module"] = type(e).__module__
        return {"exc": rec}


def _tree_facts(grammar, tree, formula, root="<start>") -> Dict[str, Any]:
    from isla.derivation_tree import DerivationTree
    from bounded import reftree, refeval

    if not isinstance(tree, DerivationTree):
        return {"is_tree": False, "repr": repr(tree)[:120]}
    out: Dict[str, Any] = {"is_tree": True, "str": reftree.ref_str(tree), "open": reftree.ref_open(tree),
                           "valid": reftree.ref_valid(grammar, tree, root), "eval": None, "exact": None,
                           "note": None}
    if out["open"] or not out["valid"]:
        out["struct"] = struct_to_json(tree)
        return out
    try:
        with _Budget(15):
            v, ex = refeval.ref_eval_ex(formula, tree, grammar)
            out["eval"], out["exact"] = bool(v), bool(ex)
    except (refeval.OracleUnsupported, refeval.OracleUndecided) as e:
        out["note"] = f"{type(e).__name__}: {str(e)[:120]}"
    except Watchdog:
        out["note"] = "oracle watchdog"
    if out["eval"] is False:
        out["struct"] = struct_to_json(tree)
    return out


def oracle_facts(grammar, formula, s: str, cache: Dict[str, Any]) -> Dict[str, Any]:
    """member / number of parses (capped at 3) / verdicts of the constraint on the
    parses (all of them, up to 16) / whether all verdicts are exact."""
    from bounded import reftree, refeval

    if s not in cache:
        member = reftree.ref_member(grammar, s, "<start>")
        n = reftree.ref_count_parses(grammar, s, "<start>", limit=3) if member else 0
        cache[s] = (member, n)
    member, n = cache[s]
    out: Dict[str, Any] = {"member": member, "parses": n, "verdicts": [], "exact": True, "note": None}
    if not member:
        return out
    trees = reftree.all_trees_from_string(grammar, s, "<start>", limit=16)
    if n >= 3 and len(trees) >= 16:
        out["note"] = "more than 16 parses"
        out["exact"] = False
    try:
        with _Budget(20):
            for t in trees:
                v, ex = refeval.ref_eval_ex(formula, t, grammar)
                out["verdicts"].append(bool(v))
                out["exact"] = out["exact"] and bool(ex)
    except (refeval.OracleUnsupported, refeval.OracleUndecided) as e:
        out["note"] = f"{type(e).__name__}: {str(e)[:120]}"
        out["exact"] = False
    except Watchdog:
        out["note"] = "oracle watchdog"
        out["exact"] = False
    return out


def run_task(task: Dict[str, Any]) -> Dict[str, Any]:
    t0 = time.time()
    from isla.solver import ISLaSolver
    from returns.maybe import Nothing, Some  # noqa: F401
    from returns.pipeline import is_successful
    from bounded import reftree, refeval

    random.seed(task.get("random_seed", 0))
    gname = task["grammar"]
    grammar = GRAMMARS[gname]
    rec: Dict[str, Any] = dict(tid=task["tid"], grammar=gname, cls=task["cls"], text=task["text"],
                               inputs=[], repairs=[], mutations=[], error=None)
    try:
        formula = refeval.parse_formula(task["text"], grammar)
    except BaseException as e:  # noqa: BLE001
        rec["error"] = f"template does not parse: {type(e).__name__}: {str(e)[:200]}"
        return rec
    built = _observe(lambda: ISLaSolver(grammar, task["text"]), 30)
    if "ok" not in built:
        rec["error"] = f"constructor: {built}"
        rec["ctor"] = True
        return rec
    solver = built["ok"]
    cache: Dict[str, Any] = {}

    # ---------------------------------------------------------------- check / parse
    # histories: a few words of an inner nonterminal N are first parsed AS N (`parse(s, nonterminal=N)`, which
    # skips the semantic check) and then judged like every other input -- what check / parse say about a string must
    # not depend on earlier calls of the same solver object
    strings = list(task["strings"])
    parsed_as: Dict[str, str] = {}
    try:
        from bounded.c01_cases import INNER_START
        inner = INNER_START.get(gname)
        if inner and inner in grammar and gname != "wide":
            import itertools as _it
            for st_ in _it.islice(reftree.ref_tree_structs(grammar, inner, 9), 4):
                w = reftree.ref_str(reftree.from_struct(st_))
                r0 = _observe(lambda: solver.parse(w, nonterminal=inner, silent=True), 15)
                if "ok" in r0:
                    parsed_as[w] = inner
                    if w not in strings:
                        strings.append(w)
    except Exception:  # noqa
        pass
    for s in strings:
        facts = oracle_facts(grammar, formula, s, cache)
        obs: Dict[str, Any] = dict(s=s, oracle=facts)
        if s in parsed_as:
            obs["after_parse_as"] = parsed_as[s]
        r = _observe(lambda: solver.check(s), 15)
        obs["check_str"] = r if "ok" not in r else {"ok": bool(r["ok"]), "type": type(r["ok"]).__name__}
        r = _observe(lambda: solver.parse(s, silent=True), 15)
        if "ok" in r:
            obs["parse"] = {"ok": _tree_facts(grammar, r["ok"], formula)}
        else:
            obs["parse"] = r
        if facts["member"] and facts["parses"] == 1:
            for style in (reftree.EPS_CHILD, reftree.EPS_EMPTY):
                tree = reftree.tree_from_string(grammar, s, "<start>", eps_style=style)
                r = _observe(lambda: solver.check(tree), 15)
                obs["check_tree_" + style] = r if "ok" not in r else {"ok": bool(r["ok"])}
        rec["inputs"].append(obs)

    # ---------------------------------------------------------------- repair
    for plan in task["repairs"]:
        s = plan["s"]
        facts = oracle_facts(grammar, formula, s, cache)
        entry: Dict[str, Any] = dict(s=s, oracle=facts, as_tree=plan["as_tree"], fix_timeout=plan["fix_timeout"])
        if not facts["member"]:
            continue
        if plan["as_tree"]:
            inp = reftree.tree_from_string(grammar, s, "<start>")
            before = struct_to_json(inp)
        else:
            inp = s
            before = None
        random.seed(f'{task.get("random_seed", 0)}:repair:{s}:{plan["as_tree"]}')  # replayable in isolation
        r = _observe(lambda: solver.repair(inp, fix_timeout_seconds=plan["fix_timeout"]), plan["budget"])
        if "ok" in r:
            maybe = r["ok"]
            if is_successful(maybe):
                y = maybe.unwrap()
                entry["result"] = {"some": _tree_facts(grammar, y, formula)}
                if plan["as_tree"]:
                    entry["result"]["same_object"] = y is inp
                    entry["result"]["same_struct"] = (struct_to_json(y) == before) if hasattr(y, "children") else False
            else:
                entry["result"] = {"nothing": True}
        else:
            entry["result"] = r
        rec["repairs"].append(entry)

    # ---------------------------------------------------------------- mutate
    for plan in task["mutations"]:
        s = plan["s"]
        facts = oracle_facts(grammar, formula, s, cache)
        if not facts["member"]:
            continue
        entry = dict(s=s, oracle=facts, min_mutations=plan["min"], max_mutations=plan["max"],
                     fix_timeout=plan["fix_timeout"])
        random.seed(f'{task.get("random_seed", 0)}:mutate:{s}')  # replayable in isolation
        r = _observe(lambda: solver.mutate(s, min_mutations=plan["min"], max_mutations=plan["max"],
                                           fix_timeout_seconds=plan["fix_timeout"]), plan["budget"])
        if "ok" in r:
            entry["result"] = {"tree": _tree_facts(grammar, r["ok"], formula)}
        else:
            entry["result"] = r
        rec["mutations"].append(entry)
    rec["elapsed"] = round(time.time() - t0, 2)
    return rec
