"""Shared infrastructure of the bounded checks C07, C08 and C09.

* extra reference grammars with terminals that need escaping in ISLa syntax;
* tree pools per grammar (``bounded.reftree.ref_tree_structs``, id-free structs
  materialised in the worker);
* grammar profiles (parent/child/descendant relations, literal candidates taken
  from the enumerated trees) computed WITHOUT any ISLa function;
* a thin, exception-safe wrapper around the real ``isla.evaluator.evaluate`` and
  around the reference oracle ``bounded.refeval.ref_eval_ex``;
* a multiprocessing runner with a per-item watchdog.

Only ``evaluate`` / ``parse_isla`` / ``unparse_isla`` of ISLa are *called* here
(they are the functions under test); everything that serves as an oracle comes
from ``bounded.*``.
"""

from __future__ import annotations

import contextlib
import io
import logging
import multiprocessing
import os
import signal
import sys
import warnings
from typing import Callable, Dict, Iterable, List, Optional, Sequence, Tuple

from bounded.grammars import ENUM_NODES, GRAMMARS
from bounded.reftree import (
    from_struct,
    ref_paths,
    ref_str,
    ref_tree_structs,
    rules_of,
)

Grammar = Dict[str, List[str]]

# --------------------------------------------------------------------------- #
# Grammars
# --------------------------------------------------------------------------- #

#: Extra grammars (C07): terminals that need escaping somewhere in ISLa's concrete
#: syntax: the double quote, the backslash, newline, tab, a non-ASCII letter, and
#: the match-expression meta characters "{" "}" "[" "]".
EXTRA_GRAMMARS: Dict[str, Grammar] = {
    "esc": {
        "<start>": ["<s>"],
        "<s>": [
            '"<c>"',
            "<c>\\<c>",
            "<c>\n<c>",
            "<c>\t<c>",
            "<c>ä<c>",
            "<c>",
        ],
        "<c>": ["a", "b"],
    },
    "brace": {
        "<start>": ["<s>"],
        "<s>": ["{<c>}", "(<c>)[<c>]", "<c>"],
        "<c>": ["a", "b"],
    },
}
EXTRA_ENUM_NODES = {"esc": 9, "brace": 9}


def all_grammars() -> Dict[str, Grammar]:
    out = dict(GRAMMARS)
    out.update(EXTRA_GRAMMARS)
    return out


def enum_nodes(name: str, tier: str) -> int:
    base = ENUM_NODES.get(name, EXTRA_ENUM_NODES.get(name, 9))
    return base


_TREE_CACHE: Dict[Tuple[str, int], list] = {}


def tree_structs(name: str, tier: str = "quick") -> list:
    """All closed derivation trees of grammar ``name`` rooted in ``<start>`` with at
    most ``ENUM_NODES[name]`` nodes, as id-free structs, in ``ref_trees`` order."""
    n = enum_nodes(name, tier)
    key = (name, n)
    if key not in _TREE_CACHE:
        g = all_grammars()[name]
        _TREE_CACHE[key] = list(ref_tree_structs(g, "<start>", n))
    return _TREE_CACHE[key]


def struct_str(struct) -> str:
    value, children = struct
    if children is None:
        return value
    if not children:
        return value if not (value.startswith("<") and value.endswith(">")) else ""
    return "".join(struct_str(c) for c in children)


def pick_trees(name: str, tier: str, cap: Optional[int], seed: int) -> List[int]:
    """Indices into ``tree_structs(name)``: all of them if ``cap`` is None or not
    exceeded, else the ``cap // 2`` smallest plus a seeded sample of the rest."""
    import random

    n = len(tree_structs(name, tier))
    if cap is None or n <= cap:
        return list(range(n))
    head = cap // 2
    rng = random.Random(f"{seed}:{name}:{cap}")
    rest = sorted(rng.sample(range(head, n), cap - head))
    return list(range(head)) + rest


# --------------------------------------------------------------------------- #
# Grammar profile (own analysis; no ISLa)
# --------------------------------------------------------------------------- #


class Profile:
    def __init__(self, name: str, grammar: Grammar, tier: str = "quick"):
        self.name = name
        self.grammar = grammar
        self.rules = rules_of(grammar)
        self.nts: List[str] = [nt for nt in grammar]
        #: children[P] = [(C, max number of occurrences of C in one alternative of P)]
        self.children: Dict[str, List[Tuple[str, int]]] = {}
        for p, alts in self.rules.items():
            seen: List[Tuple[str, int]] = []
            for alt in alts:
                for sym in alt:
                    if sym in self.rules:
                        k = sum(1 for s in alt if s == sym)
                        old = [i for i, (c, _) in enumerate(seen) if c == sym]
                        if old:
                            if seen[old[0]][1] < k:
                                seen[old[0]] = (sym, k)
                        else:
                            seen.append((sym, k))
            self.children[p] = seen
        #: desc[P] = nonterminals strictly below P (reachability), definition order
        self.desc: Dict[str, List[str]] = {}
        for p in self.rules:
            found: List[str] = []
            todo = [c for c, _ in self.children[p]]
            while todo:
                c = todo.pop(0)
                if c in found:
                    continue
                found.append(c)
                todo.extend(x for x, _ in self.children[c])
            self.desc[p] = [nt for nt in self.nts if nt in found]
        #: lits[T] = strings of T-subtrees occurring in the enumerated trees
        self.lits: Dict[str, List[str]] = {nt: [] for nt in self.nts}
        buckets: Dict[str, set] = {nt: set() for nt in self.nts}
        for struct in tree_structs(name, tier):
            stack = [struct]
            while stack:
                node = stack.pop()
                if node[0] in buckets and node[1] is not None:
                    buckets[node[0]].add(struct_str(node))
                stack.extend(node[1] or ())
        for nt in self.nts:
            self.lits[nt] = sorted(buckets[nt], key=lambda s: (len(s), s))

    def lit(self, nt: str, k: int = 0) -> str:
        vals = self.lits.get(nt) or [""]
        return vals[min(k, len(vals) - 1)]

    def occurring(self) -> List[str]:
        """Nonterminals (other than <start>) that occur in at least one tree."""
        return [nt for nt in self.nts if nt != "<start>" and self.lits[nt]]


_PROFILE_CACHE: Dict[Tuple[str, str], Profile] = {}


def profile(name: str, tier: str = "quick") -> Profile:
    key = (name, tier)
    if key not in _PROFILE_CACHE:
        _PROFILE_CACHE[key] = Profile(name, all_grammars()[name], tier)
    return _PROFILE_CACHE[key]


# --------------------------------------------------------------------------- #
# ISLa wrappers (functions under test) and the oracle wrapper
# --------------------------------------------------------------------------- #


def quiet_isla() -> None:
    warnings.filterwarnings("ignore")
    logging.disable(logging.CRITICAL)


@contextlib.contextmanager
def silenced():
    """ANTLR's error strategy prints to stderr/stdout; keep the run output clean."""
    old_out, old_err = sys.stdout, sys.stderr
    sys.stdout, sys.stderr = io.StringIO(), io.StringIO()
    try:
        yield
    finally:
        sys.stdout, sys.stderr = old_out, old_err


class Watchdog(Exception):
    pass


def _alarm_handler(signum, frame):
    raise Watchdog()


@contextlib.contextmanager
def watchdog(seconds: int):
    """Per-item watchdog in CPU seconds of this process (ITIMER_PROF counts user +
    system time, Z3's C code included), so that a loaded machine does not turn
    cheap cases into time-outs; a generous wall-clock alarm (10x) backs it up."""
    old_prof = signal.signal(signal.SIGPROF, _alarm_handler)
    old_alrm = signal.signal(signal.SIGALRM, _alarm_handler)
    signal.setitimer(signal.ITIMER_PROF, max(1.0, float(seconds)))
    signal.alarm(max(10, int(seconds) * 10))
    try:
        yield
    finally:
        signal.setitimer(signal.ITIMER_PROF, 0)
        signal.alarm(0)
        signal.signal(signal.SIGPROF, old_prof)
        signal.signal(signal.SIGALRM, old_alrm)


def exc_tag(exc: BaseException) -> str:
    return f"X:{type(exc).__name__}"


def exc_text(exc: BaseException, limit: int = 160) -> str:
    text = " ".join(str(exc).split())
    return f"{type(exc).__name__}: {text[:limit]}"


def parse(text: str, grammar: Grammar):
    """The REAL parse_isla with the standard predicate sets.  Returns
    ``(formula, None)`` or ``(None, exception)``; never raises (Watchdog passes)."""
    from isla.isla_predicates import (
        STANDARD_SEMANTIC_PREDICATES,
        STANDARD_STRUCTURAL_PREDICATES,
    )
    from isla.language import parse_isla

    try:
        with silenced():
            f = parse_isla(
                text,
                grammar,
                STANDARD_STRUCTURAL_PREDICATES,
                STANDARD_SEMANTIC_PREDICATES,
            )
        if f is None:
            return None, RuntimeError("parse_isla returned None")
        return f, None
    except Watchdog:
        raise
    except BaseException as exc:  # AssertionError, SyntaxError, ParseCancellation...
        if isinstance(exc, (KeyboardInterrupt, SystemExit)):
            raise
        return None, exc


def unparse(formula):
    from isla.language import unparse_isla

    try:
        with silenced():
            return unparse_isla(formula), None
    except Watchdog:
        raise
    except BaseException as exc:
        if isinstance(exc, (KeyboardInterrupt, SystemExit)):
            raise
        return None, exc


def ev(formula, tree, grammar) -> str:
    """REAL ``isla.evaluator.evaluate`` -> 'T' | 'F' | 'U' | 'X:<ExceptionType>'."""
    from isla.evaluator import evaluate

    try:
        with silenced():
            res = evaluate(formula, tree, grammar)
        if res.is_true():
            return "T"
        if res.is_false():
            return "F"
        return "U"
    except Watchdog:
        raise
    except BaseException as exc:
        if isinstance(exc, (KeyboardInterrupt, SystemExit)):
            raise
        return exc_tag(exc)


def ref(formula, tree, grammar) -> str:
    """Oracle verdict: 'T' | 'F' (exact), 't' | 'f' (relative to the finite numeral
    domain, not exact), '?' (unsupported / undecided)."""
    from bounded.refeval import OracleUndecided, OracleUnsupported, ref_eval_ex

    try:
        verdict, exact = ref_eval_ex(formula, tree, grammar, timeout_ms=4000)
    except (OracleUndecided, OracleUnsupported):
        return "?"
    except Watchdog:
        raise
    except BaseException as exc:
        if isinstance(exc, (KeyboardInterrupt, SystemExit)):
            raise
        return "?"
    if exact:
        return "T" if verdict else "F"
    return "t" if verdict else "f"


def neg(v: str) -> str:
    return {"T": "F", "F": "T", "t": "f", "f": "t"}.get(v, v)


# --------------------------------------------------------------------------- #
# Pool runner
# --------------------------------------------------------------------------- #


def _init_worker():
    quiet_isla()
    sys.setrecursionlimit(10000)
    # Z3 writes "(incomplete (theory seq))" etc. to the C-level stdout; workers
    # report through the pool's pipes only, so their fds 1/2 go to /dev/null.
    devnull = os.open(os.devnull, os.O_WRONLY)
    os.dup2(devnull, 1)
    os.dup2(devnull, 2)
    os.close(devnull)


def preload() -> None:
    """Import ISLa (2-3 CPU seconds) once in the parent so that forked workers
    share the loaded modules instead of importing them 16 times under load."""
    quiet_isla()
    import isla.evaluator  # noqa: F401
    import isla.isla_predicates  # noqa: F401
    import isla.language  # noqa: F401
    import bounded.refeval  # noqa: F401


def run_pool(worker: Callable, items: Sequence, processes: int = 16, chunksize: int = 1):
    """``worker(item)`` for every item, results in item order.  ``worker`` must be a
    top-level function and put its own watchdog around solver-ish calls."""
    if not items:
        return []
    preload()
    procs = max(1, min(processes, len(items), os.cpu_count() or 1))
    ctx = multiprocessing.get_context("fork")
    with ctx.Pool(procs, initializer=_init_worker) as pool:
        return pool.map(worker, items, chunksize)


def chunks(seq: Sequence, n: int) -> List[list]:
    return [list(seq[i : i + n]) for i in range(0, len(seq), n)]
