"""C09: formula specifications (JSON-able), their construction through the
``isla.language`` CONSTRUCTORS (not through the parser), and the rewrites under
test together with the Boolean function each of them must realise.

Spec language (nested lists)::

    ["smt", "<S-expression with variable names>", [var names]]
    ["pred", name, [arg ...]]            arg: variable name | ["s", "string literal"]
    ["count", var, "<T>", ["s", "2"] | numeric var name]
    ["true"] | ["false"]
    ["not", f]                           NegatedFormula(f)
    ["and", f1, ..., fk]  ["or", ...]    ConjunctiveFormula / DisjunctiveFormula(*args), k in 2..4
    ["forall" | "exists", "<T>", name, in-variable name, body, mexpr | null]
                                          mexpr: [ "text" | ["bind", "<T>", name] ... ]
    ["existsint" | "forallint", name, body]
    ["parsed", "ISLa text"]              parse_isla(text) (second source of ASTs)

Variables are created on the way down: ``start`` is ``Constant("start",
"<start>")``, tree quantifiers / match expressions introduce ``BoundVariable(name,
type)``, numeric quantifiers ``BoundVariable(name, "NUM")``.
"""

from __future__ import annotations

import random
from typing import Dict, List, Optional, Tuple

from bounded.c07_helpers import Profile, profile

# --------------------------------------------------------------------------- #
# Construction (worker side; imports ISLa lazily)
# --------------------------------------------------------------------------- #


def build(spec, grammar, env: Optional[dict] = None):
    import isla.language as L
    from isla import isla_predicates as P

    preds = {
        "before": P.BEFORE_PREDICATE,
        "after": P.AFTER_PREDICATE,
        "inside": P.IN_TREE_PREDICATE,
        "same_position": P.SAME_POSITION_PREDICATE,
        "different_position": P.DIFFERENT_POSITION_PREDICATE,
        "direct_child": P.DIRECT_CHILD_PREDICATE,
        "nth": P.NTH_PREDICATE,
        "level": P.LEVEL_PREDICATE,
    }
    if env is None:
        env = {"start": L.Constant("start", "<start>")}
    kind = spec[0]
    if kind == "parsed":
        from bounded.c07_helpers import parse

        f, err = parse(spec[1], grammar)
        if err is not None:
            raise err
        return f
    if kind == "true":
        return L.SMTFormula("true")
    if kind == "false":
        return L.SMTFormula("false")
    if kind == "smt":
        return L.SMTFormula(spec[1], *[env[n] for n in spec[2]])
    if kind == "pred":
        args = [a[1] if isinstance(a, list) else env[a] for a in spec[2]]
        return L.StructuralPredicateFormula(preds[spec[1]], *args)
    if kind == "count":
        num = spec[3][1] if isinstance(spec[3], list) else env[spec[3]]
        return L.SemanticPredicateFormula(P.COUNT_PREDICATE, env[spec[1]], spec[2], num)
    if kind == "not":
        return L.NegatedFormula(build(spec[1], grammar, env))
    if kind == "and":
        return L.ConjunctiveFormula(*[build(s, grammar, env) for s in spec[1:]])
    if kind == "or":
        return L.DisjunctiveFormula(*[build(s, grammar, env) for s in spec[1:]])
    if kind in ("forall", "exists"):
        _, typ, name, inn, body, mexpr = spec
        var = L.BoundVariable(name, typ)
        env2 = dict(env)
        env2[name] = var
        bind = None
        if mexpr is not None:
            elems = []
            for e in mexpr:
                if isinstance(e, list):
                    bv = L.BoundVariable(e[2], e[1])
                    env2[e[2]] = bv
                    elems.append(bv)
                else:
                    elems.append(e)
            bind = L.BindExpression(*elems)
        cls = L.ForallFormula if kind == "forall" else L.ExistsFormula
        return cls(var, env[inn], build(body, grammar, env2), bind)
    if kind in ("existsint", "forallint"):
        _, name, body = spec
        var = L.BoundVariable(name, L.Variable.NUMERIC_NTYPE)
        env2 = dict(env)
        env2[name] = var
        cls = L.ExistsIntFormula if kind == "existsint" else L.ForallIntFormula
        return cls(var, build(body, grammar, env2))
    raise ValueError(f"unknown spec {spec!r}")


# --------------------------------------------------------------------------- #
# Rewrites: name -> (function(formula, aux) -> formula, expected Boolean function)
# --------------------------------------------------------------------------- #

AND = lambda a, b: a and b
OR = lambda a, b: a or b

#: the second operands g of ``f & g`` / ``f | g``: name -> spec (closed formulas)
def operands(prof: Profile) -> Dict[str, list]:
    occ = prof.occurring()
    T = occ[-1]
    return {
        "true": ["true"],
        "false": ["false"],
        "atom-smt": ["smt", "(> (str.len start) 3)", ["start"]],
        "atom-count": ["count", "start", T, ["s", "2"]],
        "quantified": ["exists", T, "g1", "start", ["smt", f'(= g1 "{_esc(prof.lit(T, 0))}")', ["g1"]], None],
    }


def rewrites():
    """name -> (kind, expected) ; kind tells the worker what to call."""
    table = {
        "neg": ("unary", lambda v: not v),
        "NegatedFormula": ("unary", lambda v: not v),
        "nnf": ("unary", lambda v: v),
        "nnf-negate": ("unary", lambda v: not v),
        "dnf(nnf)": ("unary", lambda v: v),
        "dnf-shallow(nnf)": ("unary", lambda v: v),
        "unique-vars": ("unary", lambda v: v),
        "neg-neg": ("unary", lambda v: v),
        "f&f": ("unary", lambda v: v),
        "f&-f": ("unary", lambda v: False),
        "f|-f": ("unary", lambda v: True),
        "Not(f)|f": ("unary", lambda v: True),
    }
    return table


#: additional rewrites of the thorough tier
EXTRA = {
    "nnf(dnf(nnf))": ("unary", lambda v: v),
    "unique-vars(nnf)": ("unary", lambda v: v),
    "f|f": ("unary", lambda v: v),
    "f&Not(f)": ("unary", lambda v: False),
}


def rewrites_for(tier: str):
    table = dict(rewrites())
    if tier == "thorough":
        table.update(EXTRA)
    return table


def binary_jobs(tier: str):
    """(rewrite, operand name) pairs for the simplifying combinators."""
    if tier == "thorough":
        return [(rn, gn) for rn in ("f&g", "g&f", "f|g", "g|f") for gn in ("true", "false", "atom-smt", "atom-count", "quantified")]
    return ([(rn, gn) for rn in ("f&g", "g|f") for gn in ("true", "false", "atom-smt", "quantified")]
            + [(rn, gn) for rn in ("g&f", "f|g") for gn in ("true", "false")])


def apply_rewrite(name: str, f, g=None):
    import isla.language as L

    if name == "neg":
        return -f
    if name == "NegatedFormula":
        return L.NegatedFormula(f)
    if name == "nnf":
        return L.convert_to_nnf(f)
    if name == "nnf-negate":
        return L.convert_to_nnf(f, negate=True)
    if name == "dnf(nnf)":
        return L.convert_to_dnf(L.convert_to_nnf(f))
    if name == "dnf-shallow(nnf)":
        return L.convert_to_dnf(L.convert_to_nnf(f), deep=False)
    if name == "nnf(dnf(nnf))":
        return L.convert_to_nnf(L.convert_to_dnf(L.convert_to_nnf(f)))
    if name == "unique-vars":
        return L.ensure_unique_bound_variables(f)
    if name == "unique-vars(nnf)":
        return L.ensure_unique_bound_variables(L.convert_to_nnf(f))
    if name == "neg-neg":
        return -(-f)
    if name == "f&f":
        return f & f
    if name == "f|f":
        return f | f
    if name == "f&-f":
        return f & (-f)
    if name == "f|-f":
        return f | (-f)
    if name == "f&Not(f)":
        return f & L.NegatedFormula(f)
    if name == "Not(f)|f":
        return L.NegatedFormula(f) | f
    if name == "f&g":
        return f & g
    if name == "g&f":
        return g & f
    if name == "f|g":
        return f | g
    if name == "g|f":
        return g | f
    raise ValueError(name)


# --------------------------------------------------------------------------- #
# Spec features (input classes for signatures)
# --------------------------------------------------------------------------- #


def features(spec) -> List[str]:
    feats = set()
    names: List[str] = []

    def walk(s):
        k = s[0]
        if k == "parsed":
            feats.add("parsed")
        elif k == "not":
            inner = s[1][0]
            if inner in ("and", "or"):
                feats.add("neg-over-combinator")
            elif inner in ("forall", "exists"):
                feats.add("neg-over-tree-quantifier")
            elif inner in ("existsint", "forallint"):
                feats.add("neg-over-int-quantifier")
            elif inner == "not":
                feats.add("double-negation")
            walk(s[1])
        elif k in ("and", "or"):
            if len(s) - 1 > 2:
                feats.add("nary")
            for x in s[1:]:
                walk(x)
        elif k in ("forall", "exists"):
            names.append(s[2])
            if s[5] is not None:
                feats.add("mexpr")
                for e in s[5]:
                    if isinstance(e, list):
                        names.append(e[2])
            walk(s[4])
        elif k in ("existsint", "forallint"):
            feats.add("int-quantifier")
            names.append(s[1])
            walk(s[2])
        elif k == "count":
            feats.add("count")

    walk(spec)
    if len(set(names)) != len(names):
        feats.add("duplicate-bound-names")
    if has_unused_variable(spec):
        feats.add("unused-bound-variable")
    return sorted(feats)


def used_names(spec) -> set:
    k = spec[0]
    if k == "smt":
        return set(spec[2])
    if k == "pred":
        return {a for a in spec[2] if not isinstance(a, list)}
    if k == "count":
        out = {spec[1]}
        if not isinstance(spec[3], list):
            out.add(spec[3])
        return out
    if k == "not":
        return used_names(spec[1])
    if k in ("and", "or"):
        out = set()
        for x in spec[1:]:
            out |= used_names(x)
        return out
    if k in ("forall", "exists"):
        return used_names(spec[4]) | {spec[3]}
    if k in ("existsint", "forallint"):
        return used_names(spec[2])
    return set()


def const_value(spec):
    """True/False if the propositional structure alone fixes the value (the
    constant folding ISLa's `&`, `|` and `-` combinators perform: `A and false`
    is `false`, `A or true` is `true`), else None."""
    k = spec[0]
    if k == "true":
        return True
    if k == "false":
        return False
    if k == "not":
        v = const_value(spec[1])
        return None if v is None else not v
    if k in ("and", "or"):
        vals = [const_value(x) for x in spec[1:]]
        absorbing = (k == "or")
        if any(v is absorbing for v in vals):
            return absorbing
        if all(v is (not absorbing) for v in vals):
            return not absorbing
        return None
    return None


def names_after_folding(spec) -> set:
    """used_names of the formula after constant folding."""
    if const_value(spec) is not None:
        return set()
    k = spec[0]
    if k == "not":
        return names_after_folding(spec[1])
    if k in ("and", "or"):
        out = set()
        for x in spec[1:]:
            out |= names_after_folding(x)
        return out
    if k in ("forall", "exists"):
        return names_after_folding(spec[4]) | {spec[3]}
    if k in ("existsint", "forallint"):
        return names_after_folding(spec[2])
    return used_names(spec)


def has_unused_variable(spec) -> bool:
    """Some tree quantifier whose bound variable occurs nowhere in its body (match
    expression variables do not count), literally or after the constant folding
    of the `and`/`or`/`not` combinators (`x = "a" and false` is `false`)."""
    for s in subspecs(spec):
        if s[0] in ("forall", "exists") and (s[2] not in used_names(s[4]) or s[2] not in names_after_folding(s[4])):
            return True
    return False


def shape(spec, depth: int = 3) -> str:
    """Node kinds along the first-child path, e.g. ``tree-quantifier>not>and``."""
    names = {"forall": "tree-quantifier", "exists": "tree-quantifier", "existsint": "int-quantifier", "forallint": "int-quantifier",
             "and": "combinator", "or": "combinator", "smt": "atom", "pred": "atom", "count": "atom", "true": "atom", "false": "atom"}
    parts = []
    s = spec
    while s is not None and len(parts) < depth:
        k = s[0]
        parts.append(names.get(k, k))
        if k == "not":
            s = s[1]
        elif k in ("and", "or"):
            s = s[1]
        elif k in ("forall", "exists"):
            s = s[4]
        elif k in ("existsint", "forallint"):
            s = s[2]
        else:
            s = None
    return ">".join(parts)


def subspecs(spec) -> List[list]:
    """All sub-specifications (pre-order), the spec itself first."""
    out = [spec]
    k = spec[0]
    if k == "not":
        out += subspecs(spec[1])
    elif k in ("and", "or"):
        for x in spec[1:]:
            out += subspecs(x)
    elif k in ("forall", "exists"):
        out += subspecs(spec[4])
    elif k in ("existsint", "forallint"):
        out += subspecs(spec[2])
    return out


def spec_size(spec) -> int:
    return len(subspecs(spec))


def spec_depth(spec) -> int:
    k = spec[0]
    if k == "not":
        return 1 + spec_depth(spec[1])
    if k in ("and", "or"):
        return 1 + max(spec_depth(x) for x in spec[1:])
    if k in ("forall", "exists"):
        return 1 + spec_depth(spec[4])
    if k in ("existsint", "forallint"):
        return 1 + spec_depth(spec[2])
    return 0


# --------------------------------------------------------------------------- #
# Generation
# --------------------------------------------------------------------------- #


def _esc(s: str) -> str:
    return s.replace("\\", "\\\\").replace('"', '""')


class Gen:
    def __init__(self, prof: Profile, rng: random.Random):
        self.prof = prof
        self.rng = rng
        self.occ = prof.occurring()

    # scope: list of (name, type) of tree variables; "start" is always available
    def atom(self, scope: List[Tuple[str, str]], nums: List[str]):
        rng = self.rng
        choices = ["smt-eq", "smt-len", "pred", "count", "const"]
        if len(scope) >= 2:
            choices += ["smt-two", "pred", "pred"]
        if nums:
            choices += ["count-num", "smt-num"]
        c = rng.choice(choices)
        if not scope and c in ("smt-eq", "smt-len", "pred"):
            c = rng.choice(["start-len", "count", "const"])
        if c == "const":
            return [rng.choice(["true", "false"])]
        if c == "start-len":
            return ["smt", f"(> (str.len start) {rng.choice([1, 3, 5, 8])})", ["start"]]
        if c == "smt-eq":
            name, typ = rng.choice(scope)
            return ["smt", f'(= {name} "{_esc(self.prof.lit(typ, rng.choice([0, 0, 1, 2])))}")', [name]]
        if c == "smt-len":
            name, typ = rng.choice(scope)
            op = rng.choice([">", "<", ">=", "="])
            return ["smt", f"({op} (str.len {name}) {rng.choice([0, 1, 2, 3])})", [name]]
        if c == "smt-two":
            (n1, _), (n2, _) = rng.sample(scope, 2)
            return ["smt", rng.choice([f"(= {n1} {n2})", f"(str.contains {n1} {n2})", f"(<= (str.len {n1}) (str.len {n2}))"]), [n1, n2]]
        if c == "pred":
            if len(scope) >= 2:
                (n1, _), (n2, _) = rng.sample(scope, 2)
            else:
                n1, n2 = scope[0][0], "start"
            return ["pred", rng.choice(["before", "after", "inside", "same_position", "different_position", "direct_child"]), [n1, n2]]
        if c == "count":
            name = rng.choice([n for n, _ in scope] + ["start"])
            return ["count", name, rng.choice(self.occ), ["s", str(rng.choice([0, 1, 1, 2, 3]))]]
        if c == "count-num":
            name = rng.choice([n for n, _ in scope] + ["start"])
            return ["count", name, rng.choice(self.occ), rng.choice(nums)]
        if c == "smt-num":
            n = rng.choice(nums)
            return ["smt", f"({rng.choice(['>', '<=', '='])} (str.to.int {n}) {rng.choice([0, 1, 2])})", [n]]
        raise AssertionError(c)

    def quantifier(self, depth, scope, nums, level):
        rng, prof = self.rng, self.prof
        kind = rng.choice(["forall", "exists"])
        # in-variable: start or a scope variable with descendants
        cands = [("start", "<start>")] + [(n, t) for n, t in scope if prof.desc.get(t)]
        inn, inn_t = rng.choice(cands)
        below = [t for t in (prof.desc.get(inn_t, []) + ([inn_t] if inn_t != "<start>" else [])) if prof.lits.get(t)]
        typ = rng.choice(below or self.occ)
        name = f"x{level}"
        mexpr = None
        scope2 = scope + [(name, typ)]
        if rng.random() < 0.3:
            alts = [alt for alt in prof.rules[typ] if any(s in prof.rules for s in alt) and not any(ch in '{}[]"\\' for s in alt if s not in prof.rules for ch in s)]
            if alts:
                alt = rng.choice(alts)
                nts = [i for i, s in enumerate(alt) if s in prof.rules]
                bound = set(rng.sample(nts, rng.choice([1, min(2, len(nts))])))
                mexpr = []
                k = 0
                for i, s in enumerate(alt):
                    if i in bound:
                        k += 1
                        mexpr.append(["bind", s, f"e{level}_{k}"])
                        scope2 = scope2 + [(f"e{level}_{k}", s)]
                    else:
                        mexpr.append(s)
        body = self.formula(depth - 1, scope2, nums, level + 1)
        if const_value(body) is not None:
            # a body that constant-folds leaves the variable unused after ISLa's
            # simplifying combinators, which is the fixed_specs class as well
            body = ["smt", f"(> (str.len {name}) {rng.choice([0, 1, 2])})", [name]]
        if name not in names_after_folding(body):
            # keep the bound variable in use (formulas with an unused bound variable
            # are a class of their own, see fixed_specs)
            lit = _esc(prof.lit(typ, rng.choice([0, 1])))
            own = rng.choice([["smt", f'(= {name} "{lit}")', [name]], ["smt", f"(> (str.len {name}) {rng.choice([0, 1, 2])})", [name]],
                              ["pred", "inside", [name, inn]]])
            if body[0] in ("and", "or") and len(body) - 1 < 4:
                body = body + [own]
            else:
                body = [rng.choice(["and", "or"]), own, body]
            if name not in names_after_folding(body):
                body = own
        return [kind, typ, name, inn, body, mexpr]

    def int_quantifier(self, depth, scope, nums, level):
        rng = self.rng
        kind = rng.choice(["existsint", "forallint"])
        n = f"n{level}"
        tree = rng.choice([nm for nm, _ in scope] + ["start"])
        needle = rng.choice(self.occ)
        k = rng.choice([0, 1, 2])
        if kind == "existsint":
            body = ["and", ["count", tree, needle, n], ["smt", f"(> (str.to.int {n}) {k})", [n]]]
            if depth >= 2 and rng.random() < 0.5:
                body.append(self.formula(depth - 2, scope, nums, level + 1))
        else:
            body = ["or", ["not", ["count", tree, needle, n]], ["smt", f"(<= (str.to.int {n}) {k})", [n]]]
            if depth >= 2 and rng.random() < 0.5:
                body.append(self.formula(depth - 2, scope, nums, level + 1))
        return [kind, n, body]

    def formula(self, depth, scope, nums, level=0):
        rng = self.rng
        if depth <= 0:
            return self.atom(scope, nums)
        c = rng.choice(["atom", "not", "not", "and", "and", "and", "or", "or", "or", "q", "q", "q", "q", "int"])
        if c == "atom":
            return self.atom(scope, nums)
        if c == "not":
            return ["not", self.formula(depth - 1, scope, nums, level)]
        if c in ("and", "or"):
            k = rng.choice([2, 2, 3, 3, 4])
            return [c] + [self.formula(depth - 1, scope, nums, level) for _ in range(k)]
        if c == "q":
            return self.quantifier(depth, scope, nums, level)
        if c == "int":
            if depth < 2:
                return self.atom(scope, nums)
            return self.int_quantifier(depth, scope, nums, level)
        raise AssertionError(c)


def fixed_specs(prof: Profile) -> List[Tuple[str, list]]:
    """Hand-picked shapes every run must contain."""
    occ = prof.occurring()
    T, U = occ[-1], occ[0]
    a, b = _esc(prof.lit(T, 0)), _esc(prof.lit(T, 1))
    A = lambda v: ["smt", f'(= {v} "{a}")', [v]]
    Bq = lambda v: ["smt", f'(= {v} "{b}")', [v]]
    Ln = lambda v, k=1: ["smt", f"(> (str.len {v}) {k})", [v]]
    q = lambda kind, typ, name, inn, body: [kind, typ, name, inn, body, None]
    out = [
        ("ternary-conjunction-of-disjunctions",
         q("forall", T, "x", "start", ["and", ["or", A("x"), Bq("x")], ["or", Ln("x", 0), A("x")], ["or", Bq("x"), Ln("x", 2)]])),
        ("quaternary-conjunction-with-one-disjunction",
         q("forall", T, "x", "start", ["and", Ln("x", 0), ["or", A("x"), Bq("x")], ["true"], ["pred", "inside", ["x", "start"]]])),
        ("ternary-disjunction-of-conjunctions",
         q("exists", T, "x", "start", ["or", ["and", A("x"), Ln("x", 0)], ["and", Bq("x"), Ln("x", 0)], ["and", A("x"), Bq("x")]])),
        ("nested-nary", ["and", ["or", q("exists", T, "x", "start", A("x")), q("exists", T, "y", "start", Bq("y")), ["false"]],
                         ["or", Ln("start", 1), ["not", Ln("start", 6)], ["true"]],
                         q("forall", T, "z", "start", ["or", A("z"), Bq("z"), Ln("z", 1)])]),
        ("negated-conjunction-under-forall", q("forall", T, "x", "start", ["not", ["and", A("x"), Ln("x", 0)]])),
        ("negated-disjunction-under-exists", q("exists", T, "x", "start", ["not", ["or", A("x"), Bq("x")]])),
        ("negated-quantifier", ["not", q("forall", T, "x", "start", ["or", A("x"), Bq("x")])]),
        ("negated-quantifier-under-quantifier", q("forall", U, "u", "start", ["not", q("exists", T, "x", "u", A("x"))])),
        ("double-negation", ["not", ["not", q("exists", T, "x", "start", A("x"))]]),
        ("negated-int-quantifier", ["not", ["existsint", "n", ["and", ["count", "start", T, "n"], ["smt", "(> (str.to.int n) 1)", ["n"]]]]]),
        ("int-quantifier-with-negated-body-combinator",
         ["existsint", "n", ["and", ["count", "start", T, "n"], ["not", ["or", ["smt", "(= (str.to.int n) 0)", ["n"]], ["smt", "(= (str.to.int n) 1)", ["n"]]]]]]),
        ("forall-int", ["forallint", "n", ["or", ["not", ["count", "start", T, "n"]], ["smt", "(<= (str.to.int n) 2)", ["n"]]]]),
        ("tree-quantifier-under-int", ["existsint", "n", ["and", ["smt", "(> (str.to.int n) 0)", ["n"]], q("forall", U, "u", "start", ["count", "u", T, "n"])]]),
        ("same-name-in-sibling-scopes", ["or", q("forall", T, "x", "start", A("x")), q("forall", T, "x", "start", Bq("x"))]),
        ("same-name-in-sibling-scopes-and", ["and", q("exists", T, "x", "start", A("x")), q("exists", T, "x", "start", Bq("x")), q("exists", U, "x", "start", Ln("x", 2))]),
        ("same-name-nested-in-sibling", ["or", q("forall", U, "u", "start", q("exists", T, "x", "u", A("x"))), q("exists", U, "u", "start", q("forall", T, "x", "u", Bq("x")))]),
        ("name-with-numeric-suffix", ["and", q("exists", T, "x_0", "start", A("x_0")), q("exists", T, "x", "start", Bq("x")), q("exists", T, "x", "start", A("x"))]),
        ("predicate-atoms", q("forall", T, "x", "start", q("exists", T, "y", "start", ["or", ["pred", "before", ["x", "y"]], ["pred", "same_position", ["x", "y"]], ["not", ["pred", "inside", ["x", "start"]]]]))),
        ("negated-predicates", q("forall", T, "x", "start", ["not", ["and", ["pred", "inside", ["x", "start"]], ["not", ["count", "start", T, ["s", "1"]]]]])),
        ("true-false-args", ["and", ["true"], ["or", ["false"], q("exists", T, "x", "start", A("x")), ["false"]], ["true"]]),
        ("only-constants", ["or", ["false"], ["and", ["true"], ["true"], ["false"]], ["not", ["true"]]]),
        ("unused-variable-forall-false", q("forall", T, "x", "start", ["false"])),
        ("unused-variable-exists-true", q("exists", T, "x", "start", ["true"])),
        ("unused-variable-nested", q("forall", U, "u", "start", q("exists", T, "x", "u", Ln("u", 3)))),
        ("unused-variable-negated", ["not", q("exists", U, "u", "start", q("exists", T, "x", "u", Ln("u", 3)))]),
    ]
    # renaming must not capture: a later sibling quantifier re-uses the name `x`; one to three quantifier levels below
    # it a variable already carries the name a renamer would pick next (`x_0`, or `x_1` when `x_0` is taken as well);
    # the body relates the two variables, so identifying them changes the verdict
    def chain(depth: int, inner_name: str, kind: str, outer: str):
        body = ["smt", f"(< (str.len {inner_name}) (str.len {outer}))", [inner_name, outer]]
        prev = outer
        levels = []
        for lv in range(depth - 1):
            levels.append((f"t{lv}", prev))
            prev = f"t{lv}"
        f = q(kind, T, inner_name, prev, body)
        for name, inn in reversed(levels):
            f = q("exists", U, name, inn, f)
        return f
    for depth in (1, 2, 3):
        for kind in ("exists", "forall"):
            out.append((f"renaming-capture-{kind}-depth{depth}",
                        ["and", q("exists", U, "x", "start", Ln("x", 0)), q("exists", U, "x", "start", chain(depth, "x_0", kind, "x"))]))
    out.append(("renaming-capture-second-fresh-name",
                ["and", q("exists", U, "x", "start", q("exists", T, "x_0", "x", Ln("x_0", 0))),
                 q("exists", U, "x", "start", chain(2, "x_1", "exists", "x")),
                 q("forall", U, "x", "start", chain(3, "x_1", "exists", "x"))]))
    # match expression on the first alternative with a nonterminal
    for p in prof.nts:
        if not prof.lits[p] or p == "<start>":
            continue
        alts = [alt for alt in prof.rules[p] if any(s in prof.rules for s in alt) and not any(ch in '{}[]"\\' for s in alt if s not in prof.rules for ch in s)]
        if alts:
            alt = alts[-1]
            i0 = [i for i, s in enumerate(alt) if s in prof.rules][0]
            mexpr = [["bind", s, "e1"] if i == i0 else s for i, s in enumerate(alt)]
            lit = _esc(prof.lit(alt[i0], 0))
            out.append(("mexpr-forall-negated-body", ["forall", p, "m", "start", ["not", ["and", ["smt", f'(= e1 "{lit}")', ["e1"]], Ln("m", 1)]], mexpr]))
            out.append(("mexpr-negated-exists", ["not", ["exists", p, "m", "start", ["or", ["smt", f'(= e1 "{lit}")', ["e1"]], Ln("m", 3), ["false"]], mexpr]]))
            out.append(("mexpr-same-names-in-siblings", ["and", ["exists", p, "m", "start", ["smt", f'(= e1 "{lit}")', ["e1"]], mexpr], ["forall", p, "m", "start", Ln("e1", 0), mexpr]]))
            break
    return out


def parsed_texts(prof: Profile) -> List[Tuple[str, str]]:
    occ = prof.occurring()
    T, U = occ[-1], occ[0]
    a, b = prof.lit(T, 0), prof.lit(T, 1)
    ok = lambda s: all(32 <= ord(ch) < 127 and ch not in '"\\' for ch in s)
    if not (ok(a) and ok(b)):
        a, b = "a", "b"
    return [
        ("parsed:and-3", f'{T} = "{a}" and str.len({T}) > 0 and str.len({U}) > 1'),
        ("parsed:or-3", f'forall {T} x: (x = "{a}" or x = "{b}" or str.len(x) > 2)'),
        ("parsed:iff", f'(exists {T} x: x = "{a}") iff (exists {T} y: y = "{b}")'),
        ("parsed:xor", f'(exists {T} x: x = "{a}") xor (forall {T} y: y = "{b}")'),
        ("parsed:implies", f'forall {T} x: (x = "{a}" implies (exists {T} y: (before(x, y) or same_position(x, y))))'),
        ("parsed:not-exists", f'not (exists {T} x: (x = "{a}" and str.len(x) > 0))'),
        ("parsed:exists-int", f'exists int n: (count(start, "{T}", n) and str.to.int(n) > 1)'),
        ("parsed:forall-int", f'forall int n: (not count(start, "{T}", n) or str.to.int(n) <= 2)'),
        ("parsed:count-under-quantifier", f'forall {U} u: (count(u, "{T}", "1") or count(u, "{T}", "2"))'),
        ("parsed:nested", f'forall {U} u: exists {T} x in u: (x = "{a}" or not (inside(x, u) and str.len(u) > 3))'),
        ("parsed:same-names", f'(forall {T} x: x = "{a}") or (forall {T} x: x = "{b}")'),
    ]


def specs_for(name: str, tier: str, seed: int) -> List[dict]:
    prof = profile(name, tier)
    if not prof.occurring():
        return []
    out: List[dict] = []
    for label, spec in fixed_specs(prof):
        out.append({"g": name, "src": "built", "label": label, "spec": spec})
    for label, text in parsed_texts(prof):
        out.append({"g": name, "src": "parsed", "label": label, "spec": ["parsed", text]})
    rng = random.Random(f"{seed}:{name}:c09")
    gen = Gen(prof, rng)
    n_random = {"quick": 12, "thorough": 60}[tier]
    seen = set()
    tries = 0
    while len(seen) < n_random and tries < 50 * n_random:
        tries += 1
        depth = rng.choice([2, 3, 3])
        spec = gen.formula(depth, [], [], 0)
        if spec[0] in ("true", "false", "smt", "pred", "count"):
            continue
        if spec_depth(spec) > 3 and not any(s[0] in ("existsint", "forallint") for s in subspecs(spec)):
            continue
        if spec_size(spec) > 40:
            continue
        key = repr(spec)
        if key in seen:
            continue
        seen.add(key)
        out.append({"g": name, "src": "built", "label": "random", "spec": spec})
    return out
