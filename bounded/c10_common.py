"""Shared plumbing for the bounded checks C10 .. C14 (pool, watchdog, JSON images
of trees, own grammar reachability).  Nothing here implements a notion that is
being checked; the oracles are in bounded.reftree / bounded.grammars.
"""
from __future__ import annotations

import json
import multiprocessing
import os
import signal
import sys
import traceback
from typing import Any, Callable, Dict, Iterable, Iterator, List, Optional, Sequence, Tuple

from isla.derivation_tree import DerivationTree

from bounded.reftree import is_nt, ref_paths, rules_of

Grammar = Dict[str, List[str]]


# --------------------------------------------------------------------------- #
# watchdog
# --------------------------------------------------------------------------- #


class Watchdog(Exception):
    pass


def _on_alarm(signum, frame):  # pragma: no cover - signal handler
    raise Watchdog()


class watchdog:
    """``with watchdog(seconds): ...`` raises :class:`Watchdog` on expiry
    (main thread of a worker process only)."""

    def __init__(self, seconds: float):
        self.seconds = seconds

    def __enter__(self):
        self.old = signal.signal(signal.SIGALRM, _on_alarm)
        signal.setitimer(signal.ITIMER_REAL, self.seconds)
        return self

    def __exit__(self, *exc):
        signal.setitimer(signal.ITIMER_REAL, 0)
        signal.signal(signal.SIGALRM, self.old)
        return False


# --------------------------------------------------------------------------- #
# pool
# --------------------------------------------------------------------------- #


def _guarded(args):
    worker, task = args
    try:
        return worker(task)
    except Exception:  # the worker itself is broken
        return {"__crash__": traceback.format_exc(limit=8), "task": repr(task)[:300]}


def run_pool(worker: Callable[[Any], Any], tasks: Sequence[Any], procs: int = 16,
             chunksize: int = 1) -> Iterator[Any]:
    """Ordered results of ``worker(task)``; ``worker`` must be a top-level
    function.  A crash inside the worker comes back as ``{"__crash__": ...}``."""
    tasks = list(tasks)
    if not tasks:
        return
    procs = max(1, min(procs, len(tasks)))
    if procs == 1 or os.environ.get("VERIF_NO_POOL"):
        for t in tasks:
            yield _guarded((worker, t))
        return
    # Everything allocated so far (isla, z3, antlr ...) goes to the permanent
    # generation: full collections in the forked workers then do not walk (and
    # copy-on-write) the inherited heap, which otherwise stalls single cases for
    # many seconds on a busy machine.
    import gc

    gc.collect()
    gc.freeze()
    try:
        ctx = multiprocessing.get_context("fork")
        with ctx.Pool(procs, maxtasksperchild=None) as pool:
            for res in pool.imap(_guarded, [(worker, t) for t in tasks], chunksize):
                yield res
    finally:
        gc.unfreeze()


# --------------------------------------------------------------------------- #
# JSON images of trees
# --------------------------------------------------------------------------- #


def tree_to_json(t: DerivationTree) -> list:
    """``[value, id, children-or-None]``"""
    return [t.value, t.id, None if t.children is None else [tree_to_json(c) for c in t.children]]


def tree_from_json(j: Sequence, keep_ids: bool = True) -> DerivationTree:
    value, tid, children = j
    kids = None if children is None else tuple(tree_from_json(c, keep_ids) for c in children)
    return DerivationTree(value, kids, id=tid if keep_ids else None)


def struct_to_json(s) -> list:
    value, children = s
    return [value, None if children is None else [struct_to_json(c) for c in children]]


def struct_from_json(j) -> tuple:
    value, children = j
    return (value, None if children is None else tuple(struct_from_json(c) for c in children))


def show(t: Optional[DerivationTree]) -> str:
    """Compact bracket notation: <a>(x <b>? <c>()) ; ``?`` marks an open leaf."""
    if t is None:
        return "None"
    if t.children is None:
        return f"{t.value}?"
    if len(t.children) == 0:
        return f"{t.value}()" if is_nt(t.value) else repr(t.value)
    return f"{t.value}(" + " ".join(show(c) for c in t.children) + ")"


def fresh_ids_above(*trees: DerivationTree) -> None:
    """Make sure ids handed out from now on do not collide with ids that were
    restored from JSON."""
    top = -1
    for t in trees:
        for _, n in ref_paths(t):
            if isinstance(n.id, int) and n.id > top:
                top = n.id
    if DerivationTree.next_id <= top:
        DerivationTree.next_id = top + 1


# --------------------------------------------------------------------------- #
# own reachability over the grammar text
# --------------------------------------------------------------------------- #


def reach_plus(grammar: Grammar) -> Dict[str, List[str]]:
    """``A -> [B ...]``: nonterminals B that occur in some tree rooted in A
    STRICTLY below the root (one or more derivation steps)."""
    rules = rules_of(grammar)
    direct = {
        nt: sorted({s for alt in alts for s in alt if s in rules}) for nt, alts in rules.items()
    }
    result: Dict[str, List[str]] = {}
    for nt in rules:
        seen: List[str] = []
        todo = list(direct[nt])
        while todo:
            x = todo.pop()
            if x in seen:
                continue
            seen.append(x)
            todo.extend(direct[x])
        result[nt] = sorted(seen)
    return result


def ids_of(t: DerivationTree) -> Dict[int, str]:
    return {n.id: n.value for _, n in ref_paths(t)}


def id_multiplicity_ok(t: DerivationTree) -> bool:
    ids = [n.id for _, n in ref_paths(t)]
    return len(ids) == len(set(ids))


def load_replay(path: str) -> dict:
    with open(path, encoding="utf-8") as fh:
        return json.load(fh)
