"""File helpers for the CLI checks (C19, C17): writing a grammar dict in the
concrete BNF syntax of islaspec.rst (section "Grammars"; lexer rules of
``bnf.g4``: ``STRING: '"' (ESC|.)*? '"'``, ``ESC: '\\' [btnr"\\]``).  Own
implementation -- ``isla.language.unparse_grammar`` is not used.
"""
from __future__ import annotations

from typing import Dict, List

from bounded.reftree import is_nt, split_expansion

_ESC = {"\\": "\\\\", '"': '\\"', "\n": "\\n", "\t": "\\t", "\r": "\\r", "\b": "\\b"}


def bnf_string(terminal: str) -> str:
    for ch in terminal:
        if ch not in _ESC and not (32 <= ord(ch) < 127):
            raise ValueError(f"terminal {terminal!r} cannot be written with the documented escapes")
    return '"' + "".join(_ESC.get(ch, ch) for ch in terminal) + '"'


def grammar_to_bnf(grammar: Dict[str, List[str]], semicolons: bool = False) -> str:
    lines = []
    for nt, alts in grammar.items():
        parts = []
        for alt in alts:
            syms = split_expansion(alt)
            if not syms:
                parts.append('""')
            else:
                parts.append(" ".join(s if is_nt(s) else bnf_string(s) for s in syms))
        lines.append(f"{nt} ::= " + " | ".join(parts) + (" ;" if semicolons else ""))
    return "\n".join(lines) + "\n"


def grammar_to_python(grammar: Dict[str, List[str]], as_function: bool = True) -> str:
    """A Python extension file declaring the grammar (cli help text: "a variable
    `grammar` of type Dict[str, List[str]], or (preferably) ... a function
    `grammar()`")."""
    body = repr(grammar)
    if as_function:
        return f"def grammar():\n    return {body}\n"
    return f"grammar = {body}\n"
