"""Helpers of the bounded C04 check (nth / consecutive / level, and all nine
structural predicates through ``evaluate()``).

* :func:`shapes` / :func:`labellings`: every ordered tree shape with n nodes
  and every labelling over {<a>, <b>} for inner nodes and the three leaf kinds
  ``<a>`` open (children None), ``<b>`` epsilon (children ()), terminal "t".
  These trees need not belong to a grammar: the three predicates are functions
  of (tree, paths) only.
* :func:`level_readings` / :func:`consecutive_readings`: the SET of verdicts the
  documentation admits.  Where the text is ambiguous every reading is
  admitted; a verdict outside the set is a contract violation, a set with two
  elements marks a corner on which the documentation is silent (the case is
  then counted as trivial, never as a violation).

Nothing in this module calls ISLa code (trees are only built through
``bounded.reftree.from_struct``).
"""

from __future__ import annotations

import itertools
from typing import Dict, Iterator, List, Optional, Sequence, Set, Tuple

from bounded import refpred
from bounded.reftree import ref_get, ref_paths

Path = Tuple[int, ...]
Shape = tuple  # tuple of child shapes
Struct = Tuple[str, Optional[tuple]]

INNER_LABELS = ("<a>", "<b>")
LEAF_KINDS: Tuple[Struct, ...] = (("<a>", None), ("<b>", ()), ("t", ()))

_SHAPE_MEMO: Dict[int, List[Shape]] = {}


def shapes(n: int) -> List[Shape]:
    """All ordered (plane) trees with exactly ``n`` nodes; a shape is the tuple
    of its children's shapes.  Catalan(n-1) many, deterministic order."""
    if n in _SHAPE_MEMO:
        return _SHAPE_MEMO[n]
    if n == 1:
        result: List[Shape] = [()]
    else:
        result = list(_forests(n - 1))
    _SHAPE_MEMO[n] = result
    return result


def _forests(m: int) -> Iterator[Shape]:
    if m == 0:
        yield ()
        return
    for k in range(1, m + 1):
        for first in shapes(k):
            for rest in _forests(m - k):
                yield (first,) + rest


def labellings(shape: Shape) -> Iterator[Struct]:
    """All labelled structs of a shape (inner nodes <a>/<b>, leaves from
    LEAF_KINDS), lexicographic order."""
    if shape == ():
        for leaf in LEAF_KINDS:
            yield leaf
        return
    options = [list(labellings(child)) for child in shape]
    for label in INNER_LABELS:
        for kids in itertools.product(*options):
            yield (label, tuple(kids))


def count_labellings(shape: Shape) -> int:
    if shape == ():
        return len(LEAF_KINDS)
    total = len(INNER_LABELS)
    for child in shape:
        total *= count_labellings(child)
    return total


def nth_labelling(shape: Shape, index: int) -> Struct:
    """The ``index``-th element of :func:`labellings` without enumerating."""
    if shape == ():
        return LEAF_KINDS[index]
    sizes = [count_labellings(c) for c in shape]
    block = 1
    for s in sizes:
        block *= s
    label = INNER_LABELS[index // block]
    rest = index % block
    kids = []
    for child, size in zip(shape, sizes):
        block //= size
        kids.append(nth_labelling(child, rest // block))
        rest %= block
    return (label, tuple(kids))


def struct_to_json(struct: Struct):
    value, children = struct
    return [value, None if children is None else [struct_to_json(c) for c in children]]


def struct_from_json(obj) -> Struct:
    value, children = obj
    return (value, None if children is None else tuple(struct_from_json(c) for c in children))


# --------------------------------------------------------------------------- #
# Admissible verdict sets
# --------------------------------------------------------------------------- #


def level_reading(
    tree, pred: str, nonterminal: str, p1: Path, p2: Path, include_self: bool
) -> bool:
    """``level`` per the COMPLETE comment block of ``level_check`` (the only
    documentation of the predicate; islaspec.rst says "see below" and nothing
    follows):

      "There has to be a common prefix of both paths pointing to a
      `nonterminal` node, such that EQ: the remaining path fragments do not
      point to any `nonterminal` node. GE: ... for `arg_1` ... LE: ... for
      `arg_2` ... GT: ... arg_1 none and arg_2 at least one ... LT: ... arg_2
      none and arg_1 at least one.
      It is also possible to be outside of any `nonterminal` scope; then, the
      arguments may still be at the same of different levels.  So, we also
      consider the empty prefix."

    Hence the candidate prefixes are the common prefixes whose node is labelled
    ``nonterminal`` PLUS the empty prefix, labelled or not.  The text does not
    say whether the node a fragment ends in (node_i itself) belongs to the
    nodes the fragment "points to": ``include_self`` selects the reading.
    """
    if pred not in refpred.LEVEL_PREDS:
        raise ValueError(pred)
    p1, p2 = tuple(p1), tuple(p2)

    def labelled(path: Path) -> bool:
        node = ref_get(tree, path)
        return node is not None and node.value == nonterminal

    def fragment_count(q: Path, p: Path) -> int:
        last = len(p) if include_self else len(p) - 1
        return sum(1 for k in range(len(q) + 1, last + 1) if labelled(p[:k]))

    common = 0
    while common < min(len(p1), len(p2)) and p1[common] == p2[common]:
        common += 1
    for length in range(0, common + 1):
        q = p1[:length]
        if length > 0 and not labelled(q):
            continue
        c1, c2 = fragment_count(q, p1), fragment_count(q, p2)
        holds = {
            "EQ": c1 == 0 and c2 == 0,
            "GE": c1 == 0,
            "LE": c2 == 0,
            "GT": c1 == 0 and c2 > 0,
            "LT": c2 == 0 and c1 > 0,
        }[pred]
        if holds:
            return True
    return False


def level_readings(tree, pred: str, nonterminal: str, p1: Path, p2: Path) -> Set[bool]:
    return {
        level_reading(tree, pred, nonterminal, p1, p2, include_self=False),
        level_reading(tree, pred, nonterminal, p1, p2, include_self=True),
    }


def consecutive_readings(tree, p1: Path, p2: Path) -> Set[bool]:
    """"node_1 and node_2 are consecutive leaves in the parse tree."  Readings:
    literal (both are leaves and adjacent in the leaf sequence) and its
    generalisation to inner nodes (no leaf strictly between the two subtrees),
    each ordered (node_1 first) or symmetric."""
    return {
        refpred.consecutive(tree, p1, p2, symmetric=False, leaves_only=True),
        refpred.consecutive(tree, p1, p2, symmetric=True, leaves_only=True),
        refpred.consecutive(tree, p1, p2, symmetric=False, leaves_only=False),
        refpred.consecutive(tree, p1, p2, symmetric=True, leaves_only=False),
    }


def leaf_kind(node) -> str:
    if node.children:
        return "inner"
    return "leaf"
