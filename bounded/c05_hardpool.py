"""A small process pool with a HARD per-task time limit (helper of
checks/bounded_C05.py).

``multiprocessing.Pool`` cannot take a task away from a worker that is stuck
inside a C call (Z3 4.11.2 loops forever on e.g.
``(str.in_re "a" ((_ re.loop 0 1) ((_ re.loop 0 1) (str.to_re "\\t"))))``,
in ``simplify`` as well as in ``Solver.check`` with a timeout set, and a Python
signal handler only runs when the C call returns).  Here every worker is a
forked process fed through a pipe; a worker that exceeds the limit is killed and
replaced, its task is reported as ``("timeout", None)``.

Pure stdlib.  Results are yielded in task order (deterministic for the caller),
independently of completion order.
"""
from __future__ import annotations

import multiprocessing
import multiprocessing.connection
import time
import traceback
from collections import deque
from typing import Any, Callable, Iterator, List, Optional, Tuple


def _worker_main(conn, fn, initializer):
    if initializer is not None:
        initializer()
    while True:
        try:
            msg = conn.recv()
        except EOFError:
            return
        if msg is None:
            return
        idx, payload = msg
        try:
            res = ("ok", fn(payload))
        except BaseException:  # noqa
            res = ("exc", traceback.format_exc(limit=8))
        try:
            conn.send((idx, res))
        except Exception:  # noqa  (result not picklable)
            conn.send((idx, ("exc", "result could not be sent: " + traceback.format_exc(limit=3))))


class _Worker:
    def __init__(self, ctx, fn, initializer):
        self.conn, child = ctx.Pipe()
        self.proc = ctx.Process(target=_worker_main, args=(child, fn, initializer), daemon=True)
        self.proc.start()
        child.close()
        self.idx: Optional[int] = None
        self.t0 = 0.0

    def kill(self):
        try:
            self.proc.kill()
            self.proc.join(5)
        except Exception:  # noqa
            pass
        try:
            self.conn.close()
        except Exception:  # noqa
            pass


def run_tasks(fn: Callable[[Any], Any], payloads: List[Any], nproc: int = 16,
              timeout_s: float = 120.0, initializer: Optional[Callable[[], None]] = None,
              deadline: Optional[float] = None) -> Iterator[Tuple[int, Tuple[str, Any]]]:
    """yields (index, ("ok", value) | ("timeout", None) | ("exc", text) |
    ("skipped", None)) in index order; ``deadline`` (time.time() value) stops
    handing out tasks, the remaining ones are reported as skipped."""
    ctx = multiprocessing.get_context("fork")
    n = len(payloads)
    pending = deque(range(n))
    results: dict = {}
    workers = [_Worker(ctx, fn, initializer) for _ in range(min(nproc, max(1, n)))]
    next_out = 0
    try:
        while next_out < n:
            now = time.time()
            expired = deadline is not None and now > deadline
            for w in workers:
                if w.idx is None and pending and not expired:
                    w.idx = pending.popleft()
                    w.t0 = time.time()
                    w.conn.send((w.idx, payloads[w.idx]))
            if expired:
                while pending:
                    results[pending.popleft()] = ("skipped", None)
            busy = [w for w in workers if w.idx is not None]
            if busy:
                ready = multiprocessing.connection.wait([w.conn for w in busy], timeout=0.5)
                for w in busy:
                    if w.conn in ready:
                        try:
                            idx, res = w.conn.recv()
                        except (EOFError, OSError):
                            idx, res = w.idx, ("exc", "worker died")
                            w.kill()
                            workers[workers.index(w)] = _Worker(ctx, fn, initializer)
                            results[idx] = res
                            continue
                        results[idx] = res
                        w.idx = None
                now = time.time()
                for i, w in enumerate(workers):
                    if w.idx is not None and now - w.t0 > timeout_s:
                        results[w.idx] = ("timeout", None)
                        w.kill()
                        workers[i] = _Worker(ctx, fn, initializer)
            while next_out in results:
                yield next_out, results.pop(next_out)
                next_out += 1
            if not busy and not pending and next_out < n and next_out not in results:
                results[next_out] = ("exc", "lost task")
    finally:
        for w in workers:
            try:
                if w.idx is None:
                    w.conn.send(None)
            except Exception:  # noqa
                pass
            w.kill()
