"""Child process of the bounded check of C22.

    PYTHONHASHSEED=<h> /venv/bin/python /verif/bounded/c22_runner.py '<json spec>'

``spec``: ``{"case": <case dict of bounded.c01_cases.make_case>, "random_seed": n, "n": k}``.
Seeds Python's ``random`` FIRST, then creates the solver and calls ``solve()``
up to ``k`` times; prints one line ``C22RESULT <json>`` with the sequence of
results: ``["tree", str(tree), sha1 of the tree structure]`` or
``["exc", exception type name]`` (the sequence ends at the first exception).
"""

import hashlib
import json
import os
import random
import sys
import time
import warnings

warnings.filterwarnings("ignore")
sys.path.insert(0, os.path.dirname(os.path.dirname(os.path.abspath(__file__))))


def main() -> int:
    spec = json.loads(sys.argv[1])
    case = spec["case"]
    t0 = time.time()
    random.seed(spec["random_seed"])
    import logging

    logging.disable(logging.CRITICAL)
    from bounded import c01_cases as cc
    import z3

    # observe (pass-through) which Z3 queries end in `unknown` and why: a wall-clock timeout of a query
    # makes the continuation depend on machine speed
    unknown_reasons = {}
    original_check = z3.Solver.check

    def observed_check(self, *args):
        result = original_check(self, *args)
        if result == z3.unknown:
            try:
                reason = self.reason_unknown()
            except Exception:  # noqa: BLE001
                reason = "?"
            unknown_reasons[reason] = unknown_reasons.get(reason, 0) + 1
        return result

    z3.Solver.check = observed_check

    out = []
    try:
        solver = cc.build_solver(case)
    except BaseException as e:  # noqa: BLE001
        out.append(["ctor-exc", type(e).__name__])
        solver = None
    if solver is not None:
        for _ in range(spec["n"]):
            try:
                tree = solver.solve()
            except BaseException as e:  # noqa: BLE001
                out.append(["exc", type(e).__name__])
                break
            digest = hashlib.sha1(json.dumps(cc.struct_to_json(tree)).encode("utf-8", "replace")).hexdigest()[:16]
            out.append(["tree", str(tree), digest])
    sys.stdout.flush()
    print("\nC22RESULT " + json.dumps(dict(results=out, elapsed=round(time.time() - t0, 2),
                                          hashseed=os.environ.get("PYTHONHASHSEED"),
                                          z3_unknown=unknown_reasons)), flush=True)
    return 0


if __name__ == "__main__":
    sys.exit(main())
