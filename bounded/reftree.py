"""Independent reference implementation of derivation-tree notions.

Everything here works on ``isla.derivation_tree.DerivationTree`` objects but
uses ONLY the constructor ``DerivationTree(value, children, id=None)`` and the
attributes ``.value``, ``.children`` and ``.id``.  No ISLa tree method
(``paths``, ``to_string``, ``is_open``, ``filter``, ...), no ISLa parser, fuzzer
or grammar graph is called.

Specification sentences implemented (islaspec.rst):

* Introduction: "From a tree, we obtain a string by chaining the terminals in
  the order in which they are visited in a depth-first traversal of the tree."
  (:func:`ref_str`)
* Semantics: "t => t' ... holds if t' can be derived from t by adding to some
  leaf node in t labeled with a nonterminal symbol n new children nodes
  corresponding to some expansion alternative for n" and
  "T(G) := {t | t_0 =>* t}" (:func:`ref_valid`, :func:`ref_trees`);
  "closed holds for all derivation trees whose leaves are labeled with
  terminals" (:func:`ref_open`).
* Structural predicates: "the empty path () points to the tree itself, the path
  (n) to the n-th child of t's root ... Counting starts from 0"
  (:func:`ref_paths`, :func:`ref_get`).

Node representation (found by inspecting ``DerivationTree.__init__`` and, ONCE
and for exploration only, the output of ``isla.parser.EarleyParser`` on a
nullable grammar):

============================  ===========================================
node kind                      representation
============================  ===========================================
open nonterminal leaf          ``children is None``
terminal leaf                  terminal ``value`` and ``children == ()``
inner node                     nonterminal ``value``, non-empty ``children``
epsilon expansion, style A     nonterminal with ``children == ()``
 ("empty", EarleyParser)       (``('<a>', [])`` in the parse tree)
epsilon expansion, style B     nonterminal with the single child
 ("child", GrammarFuzzer)      ``DerivationTree("", ())``
============================  ===========================================

ISLa produces BOTH epsilon styles (the parser style A, ``fuzzer.py`` line 183
style B), therefore :func:`ref_valid` accepts both and the generators take an
``eps_style`` argument (default ``"child"``: there all leaves of a closed tree
carry terminals, exactly as the specification's ``closed`` predicate demands).
``DerivationTree`` converts ``children`` lists to tuples, so ``[]`` becomes
``()``.
"""

from __future__ import annotations

import functools
import random
import re
from typing import Dict, Iterator, List, Optional, Sequence, Tuple

from isla.derivation_tree import DerivationTree

Grammar = Dict[str, List[str]]
Path = Tuple[int, ...]

# Struct = (value, children) with children None | tuple[Struct, ...]; used for
# memoisable, id-free tree shapes that are materialised into fresh
# DerivationTree objects on demand.
Struct = Tuple[str, Optional[tuple]]

_RE_NT = re.compile(r"(<[^<> ]*>)")

EPS_CHILD = "child"
EPS_EMPTY = "empty"


# --------------------------------------------------------------------------- #
# Reading grammars
# --------------------------------------------------------------------------- #


def is_nt(symbol: str) -> bool:
    """True iff ``symbol`` as a whole has the shape of a nonterminal.

    Input-format fact replicated from ``isla.helpers.RE_NONTERMINAL``:
    ``<`` + any characters except ``<``, ``>`` and blank + ``>``.
    """
    return _RE_NT.fullmatch(symbol) is not None


def split_expansion(expansion: str) -> List[str]:
    """Split one expansion alternative into terminal / nonterminal symbols.

    Agrees with ISLa's reading of the grammar text (``canonical()`` /
    ``split_expansion`` in ``isla/helpers.py`` split at ``(<[^<> ]*>)`` and drop
    empty pieces).  Maximal runs of non-nonterminal text are ONE terminal.  The
    epsilon alternative ``""`` yields the empty list.

    >>> split_expansion("<<id>><inner></<id>>")
    ['<', '<id>', '>', '<inner>', '</', '<id>', '>']
    >>> split_expansion("")
    []
    """
    return [tok for tok in _RE_NT.split(expansion) if tok]


def _freeze(grammar: Grammar) -> tuple:
    """Hashable, order-preserving image of a grammar (memoisation key)."""
    return tuple((nt, tuple(alts)) for nt, alts in grammar.items())


@functools.lru_cache(maxsize=128)
def _rules(frozen: tuple) -> Dict[str, Tuple[Tuple[str, ...], ...]]:
    return {
        nt: tuple(tuple(split_expansion(alt)) for alt in alts) for nt, alts in frozen
    }


def rules_of(grammar: Grammar) -> Dict[str, Tuple[Tuple[str, ...], ...]]:
    """``{nonterminal: (symbols-of-alternative-1, ...)}`` in grammar order."""
    return _rules(_freeze(grammar))


# --------------------------------------------------------------------------- #
# Traversals
# --------------------------------------------------------------------------- #


def ref_paths(t: DerivationTree) -> List[Tuple[Path, DerivationTree]]:
    """All ``(path, node)`` pairs in pre-order (document order); root first."""
    result: List[Tuple[Path, DerivationTree]] = []

    def walk(node: DerivationTree, path: Path) -> None:
        result.append((path, node))
        for i, child in enumerate(node.children or ()):
            walk(child, path + (i,))

    walk(t, ())
    return result


def ref_leaves(t: DerivationTree) -> List[Tuple[Path, DerivationTree]]:
    """Nodes without children (open leaves, terminals, style-A epsilon
    nonterminals), left to right."""
    return [(p, n) for p, n in ref_paths(t) if not n.children]


def ref_str(t: DerivationTree, show_open: bool = True) -> str:
    """String of a tree: concatenation of its leaves, left to right.

    * terminal leaf: its ``value``;
    * closed nonterminal without children (style-A epsilon): ``""``;
    * open leaf: the nonterminal symbol itself if ``show_open`` (this is what
      ``str(tree)`` is documented to print), else ``""``.

    For closed trees both settings coincide with the specification's "chaining
    the terminals in the order ... of a depth-first traversal".
    """
    parts: List[str] = []
    for _, node in ref_leaves(t):
        if node.children is None:
            if is_nt(node.value):
                parts.append(node.value if show_open else "")
            else:
                # A "terminal" with children None is not a well-formed node;
                # it is printed like a terminal.
                parts.append(node.value)
        elif is_nt(node.value):
            parts.append("")
        else:
            parts.append(node.value)
    return "".join(parts)


def ref_open(t: DerivationTree) -> bool:
    """True iff some node has ``children is None`` (negation of ``closed``)."""
    return any(n.children is None for _, n in ref_paths(t))


def ref_get(t: DerivationTree, path: Sequence[int]) -> Optional[DerivationTree]:
    """Subtree at ``path`` or ``None`` if the path does not exist."""
    node = t
    for idx in path:
        children = node.children
        if not children or idx < 0 or idx >= len(children):
            return None
        node = children[idx]
    return node


def ref_find_id(t: DerivationTree, node_id: int) -> Optional[Path]:
    """Path of the first node (pre-order) carrying ``node_id``."""
    for path, node in ref_paths(t):
        if node.id == node_id:
            return path
    return None


def ref_size(t: DerivationTree) -> int:
    return len(ref_paths(t))


def to_struct(t: DerivationTree) -> Struct:
    """Id-free nested-tuple image ``(value, children)`` of a tree."""
    if t.children is None:
        return (t.value, None)
    return (t.value, tuple(to_struct(c) for c in t.children))


def from_struct(struct: Struct) -> DerivationTree:
    """Fresh ``DerivationTree`` (fresh ids at every node) for a struct."""
    value, children = struct
    if children is None:
        return DerivationTree(value, None)
    return DerivationTree(value, tuple(from_struct(c) for c in children))


# --------------------------------------------------------------------------- #
# Validity
# --------------------------------------------------------------------------- #


def ref_valid(grammar: Grammar, t: DerivationTree, root: Optional[str] = None) -> bool:
    """``t`` is a derivation tree of ``grammar`` (element of T(G) for the start
    symbol ``t.value``), possibly open.

    * the root is a nonterminal of the grammar (equal to ``root`` if given);
    * nonterminal node, ``children is None``: open leaf - fine;
    * nonterminal node, ``children == ()``: fine iff ``""`` is one of its
      alternatives (epsilon style A);
    * nonterminal node with children: the children labels spell EXACTLY the
      symbol list of one alternative, or the node has the single child
      ``("", ())`` and ``""`` is an alternative (epsilon style B); all children
      are valid recursively;
    * terminal node: ``children == ()`` (a terminal with ``children is None``
      would count as "open", a terminal with children is no tree of G).
    """
    rules = rules_of(grammar)
    if root is not None and t.value != root:
        return False
    if t.value not in rules:
        return False

    def ok(node: DerivationTree) -> bool:
        value, children = node.value, node.children
        if value in rules:
            if children is None:
                return True
            labels = tuple(c.value for c in children)
            alts = rules[value]
            if len(children) == 0:
                return () in alts
            if labels == ("",):
                child = children[0]
                return () in alts and child.children is not None and len(child.children) == 0
            if labels not in alts:
                return False
            return all(ok(c) for c in children)
        if is_nt(value):
            return False  # nonterminal shape, but unknown to the grammar
        return children is not None and len(children) == 0

    return ok(t)


# --------------------------------------------------------------------------- #
# Recognition and parsing (span chart, fixed point per span)
# --------------------------------------------------------------------------- #


class _Chart:
    """``derives(A, i, j)``: nonterminal A derives ``s[i:j]``.

    Computed bottom-up over span length; within one span the set of deriving
    nonterminals is iterated to its least fixed point, which makes unit rules,
    nullable symbols and left recursion unproblematic.
    """

    def __init__(self, rules: Dict[str, Tuple[Tuple[str, ...], ...]], s: str):
        self.rules = rules
        self.s = s
        n = len(s)
        self.table: Dict[Tuple[int, int], List[str]] = {}
        for length in range(0, n + 1):
            for i in range(0, n - length + 1):
                j = i + length
                found: List[str] = []
                self.table[(i, j)] = found
                changed = True
                while changed:
                    changed = False
                    for nt, alts in rules.items():
                        if nt in found:
                            continue
                        if any(self._alt_ends(alt, i, j) for alt in alts):
                            found.append(nt)
                            changed = True

    def derives(self, nt: str, i: int, j: int) -> bool:
        return nt in self.table.get((i, j), ())

    def _sym_ends(self, sym: str, p: int, j: int) -> List[int]:
        """Positions e (p <= e <= j) such that sym derives s[p:e]; spans not yet
        in the table (larger than the one under construction) do not occur
        because e <= j and p >= i."""
        if sym in self.rules:
            return [e for e in range(p, j + 1) if sym in self.table.get((p, e), ())]
        if is_nt(sym):
            return []
        e = p + len(sym)
        return [e] if e <= j and self.s.startswith(sym, p) else []

    def _alt_ends(self, alt: Tuple[str, ...], i: int, j: int) -> bool:
        positions = [i]
        for sym in alt:
            nxt: List[int] = []
            for p in positions:
                for e in self._sym_ends(sym, p, j):
                    if e not in nxt:
                        nxt.append(e)
            positions = nxt
            if not positions:
                return False
        return j in positions

    def splits(self, alt: Tuple[str, ...], i: int, j: int) -> Iterator[Tuple[int, ...]]:
        """All boundary tuples (e_1..e_k) with sym_m deriving s[e_{m-1}:e_m],
        e_0 = i, e_k = j; lexicographic in the boundaries."""

        def rec(k: int, p: int) -> Iterator[Tuple[int, ...]]:
            if k == len(alt):
                if p == j:
                    yield ()
                return
            for e in self._sym_ends(alt[k], p, j):
                if self._rest_possible(alt, k + 1, e, j):
                    for rest in rec(k + 1, e):
                        yield (e,) + rest

        return rec(0, i)

    def _rest_possible(self, alt: Tuple[str, ...], k: int, p: int, j: int) -> bool:
        positions = [p]
        for sym in alt[k:]:
            nxt: List[int] = []
            for q in positions:
                for e in self._sym_ends(sym, q, j):
                    if e not in nxt:
                        nxt.append(e)
            positions = nxt
            if not positions:
                return False
        return j in positions


@functools.lru_cache(maxsize=512)
def _chart(frozen: tuple, s: str) -> _Chart:
    return _Chart(_rules(frozen), s)


def ref_member(grammar: Grammar, s: str, nt: str = "<start>") -> bool:
    """``s`` is in the language of ``nt`` (character-level span recogniser;
    memoised per (grammar text, string); terminates for every CFG)."""
    if nt not in grammar:
        return False
    return _chart(_freeze(grammar), s).derives(nt, 0, len(s))


def _parses(
    grammar: Grammar, s: str, nt: str, eps_style: str
) -> Iterator[Struct]:
    """All derivation trees (as structs) of ``s`` from ``nt`` in a fixed order:
    alternatives in grammar order, split points ascending, children left to
    right.  Trees in which a node (A, i, j) has a proper descendant (A, i, j)
    are skipped; they exist only in grammars with a cyclic derivation A =>+ A,
    for which the number of trees is infinite anyway."""
    chart = _chart(_freeze(grammar), s)
    rules = chart.rules

    def trees(sym: str, i: int, j: int, active: Tuple[Tuple[str, int, int], ...]) -> Iterator[Struct]:
        if sym not in rules:
            yield (sym, ())
            return
        key = (sym, i, j)
        if key in active or not chart.derives(sym, i, j):
            return
        active2 = active + (key,)
        for alt in rules[sym]:
            if len(alt) == 0:
                if i == j:
                    yield (sym, (("", ()),)) if eps_style == EPS_CHILD else (sym, ())
                continue
            for bounds in chart.splits(alt, i, j):
                starts = (i,) + bounds[:-1]
                yield from (
                    (sym, kids)
                    for kids in seq(alt, starts, bounds, 0, active2)
                )

    def seq(alt, starts, ends, k, active) -> Iterator[tuple]:
        if k == len(alt):
            yield ()
            return
        for first in trees(alt[k], starts[k], ends[k], active):
            for rest in seq(alt, starts, ends, k + 1, active):
                yield (first,) + rest

    return trees(nt, 0, len(s), ())


def ref_count_parses(grammar: Grammar, s: str, nt: str = "<start>", limit: int = 3) -> int:
    """Number of distinct derivation trees of ``s`` from ``nt``, capped at
    ``limit`` (0 = not a member, 1 = unambiguous, >= 2 = ambiguous)."""
    if nt not in grammar:
        return 0
    count = 0
    for _ in _parses(grammar, s, nt, EPS_CHILD):
        count += 1
        if count >= limit:
            break
    return count


def tree_from_string(
    grammar: Grammar, s: str, nt: str = "<start>", eps_style: str = EPS_CHILD
) -> Optional[DerivationTree]:
    """First derivation tree of ``s`` from ``nt`` in the order of
    :func:`_parses`; ``None`` if ``s`` is not in the language."""
    if nt not in grammar:
        return None
    for struct in _parses(grammar, s, nt, eps_style):
        return from_struct(struct)
    return None


def all_trees_from_string(
    grammar: Grammar, s: str, nt: str = "<start>", limit: int = 16, eps_style: str = EPS_CHILD
) -> List[DerivationTree]:
    """Up to ``limit`` derivation trees of ``s`` (fixed order)."""
    result: List[DerivationTree] = []
    if nt not in grammar:
        return result
    for struct in _parses(grammar, s, nt, eps_style):
        result.append(from_struct(struct))
        if len(result) >= limit:
            break
    return result


# --------------------------------------------------------------------------- #
# Exhaustive enumeration
# --------------------------------------------------------------------------- #


def ref_tree_structs(
    grammar: Grammar,
    nt: str,
    max_nodes: int,
    allow_open: bool = False,
    eps_style: str = EPS_CHILD,
) -> Iterator[Struct]:
    """Like :func:`ref_trees` but yields id-free structs."""
    rules = rules_of(grammar)
    exact_memo: Dict[Tuple[str, int], Tuple[Struct, ...]] = {}
    seq_memo: Dict[Tuple[Tuple[str, ...], int], Tuple[tuple, ...]] = {}

    def exact(sym: str, n: int) -> Tuple[Struct, ...]:
        """All trees rooted in ``sym`` with exactly ``n`` nodes."""
        if n <= 0:
            return ()
        if sym not in rules:
            return ((sym, ()),) if n == 1 else ()
        key = (sym, n)
        if key in exact_memo:
            return exact_memo[key]
        out: List[Struct] = []
        if n == 1 and allow_open:
            out.append((sym, None))
        for alt in rules[sym]:
            if len(alt) == 0:
                if eps_style == EPS_CHILD:
                    if n == 2:
                        out.append((sym, (("", ()),)))
                elif n == 1:
                    out.append((sym, ()))
                continue
            for kids in seqs(alt, n - 1):
                out.append((sym, kids))
        result = tuple(out)
        exact_memo[key] = result
        return result

    def seqs(syms: Tuple[str, ...], n: int) -> Tuple[tuple, ...]:
        """All children tuples for ``syms`` with exactly ``n`` nodes in total."""
        if len(syms) == 0:
            return ((),) if n == 0 else ()
        if n < len(syms):
            return ()
        key = (syms, n)
        if key in seq_memo:
            return seq_memo[key]
        out: List[tuple] = []
        head, tail = syms[0], syms[1:]
        for k in range(1, n - len(tail) + 1):
            firsts = exact(head, k)
            if not firsts:
                continue
            rests = seqs(tail, n - k)
            if not rests:
                continue
            for first in firsts:
                for rest in rests:
                    out.append((first,) + rest)
        result = tuple(out)
        seq_memo[key] = result
        return result

    if nt not in rules:
        return
    for n in range(1, max_nodes + 1):
        for struct in exact(nt, n):
            yield struct


def ref_trees(
    grammar: Grammar,
    nt: str,
    max_nodes: int,
    allow_open: bool = False,
    eps_style: str = EPS_CHILD,
) -> Iterator[DerivationTree]:
    """Enumerate ALL derivation trees rooted in ``nt`` with at most
    ``max_nodes`` nodes (every node counts: nonterminals, terminals and the
    ``""`` child of a style-B epsilon expansion).

    Order (deterministic): ascending node count; for equal node count
    alternatives in grammar order, then lexicographic in (node count of the
    first child, first child's own order, remaining children).  With
    ``allow_open`` every prefix tree, in which any nonterminal may be left as
    an open leaf (``children is None``), is produced as well - including the
    tree consisting of the open root only (the spec's t_0).  Every yielded tree
    consists of fresh ``DerivationTree`` objects with fresh unique ids.
    """
    for struct in ref_tree_structs(grammar, nt, max_nodes, allow_open, eps_style):
        yield from_struct(struct)


def ref_prefixes(t: DerivationTree, limit: int = 64) -> List[DerivationTree]:
    """Open prefixes of ``t``: choose a non-empty antichain of expanded
    nonterminal nodes (``children is not None``; the root is a candidate) and
    turn each chosen node into an open leaf.  Every retained node is rebuilt
    as ``DerivationTree(value, children, id=node.id)`` and therefore keeps its
    id.  Order: by number of cuts (1, 2, ...), then lexicographic in the
    pre-order positions of the cut nodes; at most ``limit`` results.  ``t``
    itself is not included.
    """
    nodes = ref_paths(t)
    # end[i]: index just past the subtree of nodes[i] in pre-order
    end: List[int] = []
    for i, (path, _) in enumerate(nodes):
        j = i + 1
        while j < len(nodes) and nodes[j][0][: len(path)] == path:
            j += 1
        end.append(j)
    cand = [
        i for i, (_, node) in enumerate(nodes) if is_nt(node.value) and node.children is not None
    ]

    def antichains(k: int, min_index: int) -> Iterator[Tuple[int, ...]]:
        if k == 0:
            yield ()
            return
        for i in cand:
            if i < min_index:
                continue
            for rest in antichains(k - 1, end[i]):
                yield (i,) + rest

    def rebuild(node: DerivationTree, path: Path, cuts: List[Path]) -> DerivationTree:
        if path in cuts:
            return DerivationTree(node.value, None, id=node.id)
        if node.children is None:
            return DerivationTree(node.value, None, id=node.id)
        return DerivationTree(
            node.value,
            tuple(rebuild(c, path + (i,), cuts) for i, c in enumerate(node.children)),
            id=node.id,
        )

    result: List[DerivationTree] = []
    for k in range(1, len(cand) + 1):
        produced = False
        for chain in antichains(k, 0):
            produced = True
            result.append(rebuild(t, (), [nodes[i][0] for i in chain]))
            if len(result) >= limit:
                return result
        if not produced:
            break
    return result


# --------------------------------------------------------------------------- #
# Random trees
# --------------------------------------------------------------------------- #


def min_depths(grammar: Grammar) -> Dict[str, int]:
    """Minimal height of a closed tree per nonterminal (terminal leaf = 0);
    unproductive nonterminals are missing."""
    rules = rules_of(grammar)
    depth: Dict[str, int] = {}
    changed = True
    while changed:
        changed = False
        for nt, alts in rules.items():
            best = depth.get(nt)
            for alt in alts:
                if any(s in rules and s not in depth for s in alt):
                    continue
                d = 1 + max([depth[s] if s in rules else 0 for s in alt] + [0])
                if best is None or d < best:
                    best = d
            if best is not None and depth.get(nt) != best:
                depth[nt] = best
                changed = True
    return depth


def random_tree(
    grammar: Grammar,
    nt: str,
    rng: random.Random,
    max_depth: int = 6,
    eps_style: str = EPS_CHILD,
) -> DerivationTree:
    """Random closed derivation tree rooted in ``nt``.

    Above ``max_depth`` an alternative is chosen uniformly among the productive
    ones; at or below it only alternatives of minimal height are eligible, so
    the remaining height strictly decreases and generation terminates.
    """
    rules = rules_of(grammar)
    depth = min_depths(grammar)
    if nt not in depth:
        raise ValueError(f"{nt} is not a productive nonterminal")

    def alt_height(alt: Tuple[str, ...]) -> Optional[int]:
        if any(s in rules and s not in depth for s in alt):
            return None
        return 1 + max([depth[s] if s in rules else 0 for s in alt] + [0])

    def build(sym: str, level: int) -> DerivationTree:
        if sym not in rules:
            return DerivationTree(sym, ())
        options = [(alt, alt_height(alt)) for alt in rules[sym]]
        options = [(alt, h) for alt, h in options if h is not None]
        if level >= max_depth:
            best = min(h for _, h in options)
            options = [(alt, h) for alt, h in options if h == best]
        alt = options[rng.randrange(len(options))][0]
        if len(alt) == 0:
            if eps_style == EPS_CHILD:
                return DerivationTree(sym, (DerivationTree("", ()),))
            return DerivationTree(sym, ())
        return DerivationTree(sym, tuple(build(s, level + 1) for s in alt))

    return build(nt, 0)
