"""Shared case generator, worker and killable worker pool for the bounded
checks of C01 / C02 (and reused by C18 / C22).

* :data:`TEMPLATES`: constraint templates per reference grammar
  (``bounded.grammars.GRAMMARS``) from the fragment named in the property
  statement of C01: tree quantifiers with / without match expressions,
  structural predicates, ``count``, numeric quantifiers, SMT-LIB string / integer
  atoms (``str.to.int`` only on nonterminals deriving unsigned numerals).
  Every template carries a *class* name (``cls``): the feature it exercises.
  Violation signatures are built from the class, never from concrete inputs.
* :func:`settings_grid`, :func:`select_cases`: the solver settings grid and the
  deterministic (seeded) selection of ``(template, settings)`` pairs.
* :func:`run_solver_case`: runs ONE solver object in the current process (up
  to ``n_solve`` calls of ``solve()``, then ``n_post`` more calls after the
  first terminal exception), evaluates the C01 contract on every returned tree
  with the independent oracles and returns a plain JSON-able record.
* :class:`KillablePool`: a process pool whose workers are killed and replaced
  when a task exceeds its hard deadline (``multiprocessing.Pool`` cannot do
  that; Z3 calls are not interruptible by ``signal.alarm``).

Nothing here caches anything about /repo between runs.
"""

from __future__ import annotations

import itertools
import multiprocessing as mp
import os
import random
import signal
import time
import traceback
from typing import Any, Callable, Dict, Iterator, List, Optional, Sequence, Tuple

from bounded.grammars import GRAMMARS, reachable_nonterminals

# --------------------------------------------------------------------------- #
# Templates
# --------------------------------------------------------------------------- #

#: (grammar, cls, constraint text or None, expectation)
#: expectation: "sat" (solutions exist), "unsat" (no tree of the grammar
#: satisfies the constraint -- ANY returned tree is then a C01 violation, which
#: the oracle finds by itself; the tag is only used for anti-vacuity counters),
#: None (not classified).
_T = [
    # ---------------------------------------------------------------- assgn
    ("assgn", "no-constraint", None, "sat"),
    ("assgn", "forall-exists-in-eq", 'forall <assgn> a: exists <var> v in a: v = "a"', "sat"),
    ("assgn", "mexpr-defuse-before",
     'forall <assgn> assgn_1="<var> := {<var> rhs}" in start: '
     'exists <assgn> decl="{<var> lhs} := <rhs>" in start: (before(decl, assgn_1) and (= lhs rhs))', "sat"),
    ("assgn", "xpath-defuse-before",
     'exists <assgn> decl: (before(decl, <assgn>) and <assgn>.<rhs>.<var> = decl.<var>)', "sat"),
    ("assgn", "exists-eq-literal", 'exists <assgn> a: a = "a := 1"', "sat"),
    ("assgn", "forall-not-eq", 'forall <var> v: not v = "c"', "sat"),
    ("assgn", "count-literal", 'count(start, "<assgn>", "3")', "sat"),
    ("assgn", "exists-int-count-ge",
     'exists int n: (count(start, "<var>", n) and str.to.int(n) >= 3)', "sat"),
    ("assgn", "smt-mod-positive-divisor", 'forall <digit> d: str.to.int(d) mod 2 = 0', "sat"),
    ("assgn", "smt-div", 'forall <digit> d: str.to.int(d) div 2 = 0', "sat"),
    ("assgn", "smt-abs-minus", 'forall <digit> d: abs(str.to.int(d) - 2) >= 1', "sat"),
    ("assgn", "smt-unary-minus", 'forall <digit> d: (- (str.to.int d)) < 0', "sat"),
    ("assgn", "smt-strlen-upper", 'forall <stmt> s: str.len(s) <= 15', "sat"),
    ("assgn", "smt-prefixof-or-inre-range",
     'forall <rhs> r: (str.prefixof("a", r) or str.in_re(r, re.range("0", "1")))', "sat"),
    ("assgn", "unsat-forall-eq-outside-language", 'forall <var> v: v = "d"', "unsat"),
    ("assgn", "unsat-exists-int-gt", 'exists <digit> d: str.to.int(d) > 5', "unsat"),
    ("assgn", "exists-exists-before-eq",
     'exists <assgn> a1: exists <assgn> a2: (before(a1, a2) and a1 = a2)', "sat"),
    ("assgn", "mexpr-optional-nth",
     'forall <stmt> s="{<assgn> a}[ ; <stmt>]": nth("1", a, s)', "sat"),
    ("assgn", "implies-forall",
     'forall <assgn> a="{<var> l} := {<rhs> r}": (l = "a" implies r = "1")', "sat"),
    # -------------------------------------------------------------- leftrec
    ("leftrec", "no-constraint", None, "sat"),
    ("leftrec", "forall-exists-in-eq", 'forall <list> l: exists <item> i in l: i = "a"', "sat"),
    ("leftrec", "mexpr-exists-recursive-bound",
     'exists <list> l="{<list> rest},{<item> last}": (last = "b" and str.len(rest) > 1)', "sat"),
    ("leftrec", "count-literal", 'count(start, "<item>", "3")', "sat"),
    ("leftrec", "smt-strlen-start", 'str.len(start) = 5', "sat"),
    ("leftrec", "smt-contains", 'str.contains(start, "a,b")', "sat"),
    ("leftrec", "smt-suffixof", 'str.suffixof(",b", start)', "sat"),
    ("leftrec", "smt-at", 'str.at(start, 2) = "b"', "sat"),
    ("leftrec", "smt-substr", 'str.substr(start, 0, 3) = "a,b"', "sat"),
    ("leftrec", "smt-indexof", 'str.indexof(start, "b", 0) = 2', "sat"),
    ("leftrec", "smt-replace", 'str.replace(start, "a", "b") = "b,b"', "sat"),
    ("leftrec", "smt-inre-concat-star",
     'str.in_re(start, str.to_re("a") re.++ re.*(str.to_re(",b")))', "sat"),
    ("leftrec", "nth-eq", 'exists <item> i: (nth("2", i, start) and i = "b")', "sat"),
    ("leftrec", "consecutive", 'exists <item> i1: exists <item> i2: '
     '(consecutive(i1, i2) and i1 = "a" and i2 = "b")', "sat"),
    ("leftrec", "level-eq", 'forall <item> i1: forall <item> i2: level("EQ", "<list>", i1, i2)', "sat"),
    ("leftrec", "unsat-strlen-eq", 'str.len(start) = 2', "unsat"),
    ("leftrec", "unsat-count-zero", 'count(start, "<item>", "0")', "unsat"),
    # ------------------------------------------------------------- rightrec
    ("rightrec", "no-constraint", None, "sat"),
    ("rightrec", "forall-eq", 'forall <item> i: i = "a"', "sat"),
    ("rightrec", "mexpr-exists-recursive-bound",
     'exists <list> l="{<item> first},{<list> rest}": (first = "b" and str.len(rest) > 1)', "sat"),
    ("rightrec", "count-literal", 'count(start, "<item>", "2")', "sat"),
    ("rightrec", "different-position-eq",
     'exists <item> i1: exists <item> i2: (different_position(i1, i2) and i1 = i2)', "sat"),
    ("rightrec", "after-eq", 'exists <item> i1: exists <item> i2: '
     '(after(i1, i2) and i1 = "a" and i2 = "b")', "sat"),
    ("rightrec", "inside-eq", 'exists <list> l: exists <item> i: (inside(i, l) and i = "b")', "sat"),
    ("rightrec", "direct-child", 'forall <item> i: exists <list> l: direct_child(i, l)', "sat"),
    ("rightrec", "same-position", 'forall <list> l: exists <list> l2 in l: same_position(l, l2)', "sat"),
    ("rightrec", "smt-at-out-of-range", 'str.at(start, 7) = ""', "sat"),
    ("rightrec", "smt-prefixof", 'str.prefixof("b,a", start)', "sat"),
    ("rightrec", "smt-strlen-arith", 'str.len(start) * 2 + 1 = 7', "sat"),
    ("rightrec", "unsat-contains-outside", 'str.contains(start, "c")', "unsat"),
    ("rightrec", "exists-int-count-strlen",
     'exists int n: (count(start, "<item>", n) and str.to.int(n) * 2 = str.len(start) + 1 and str.to.int(n) > 1)', "sat"),
    # ------------------------------------------------------------- nullable
    ("nullable", "no-constraint", None, "sat"),
    ("nullable", "forall-eq", 'forall <sign> s: s = "-"', "sat"),
    ("nullable", "exists-strlen", 'exists <tail> t: str.len(t) >= 3', "sat"),
    ("nullable", "smt-strlen-start", 'str.len(start) = 4', "sat"),
    ("nullable", "mexpr-two-bound-smt",
     'exists <start> x="{<sign> s}{<body> b}<tail>": (s = "-" and b = "nn")', "sat"),
    ("nullable", "mexpr-nullable-prefix-forall", 'forall <start> x="{<sign> s}nn": s = "-"', "sat"),
    ("nullable", "forall-strlen-upper", 'forall <body> b: str.len(b) <= 3', "sat"),
    ("nullable", "count-literal", 'count(start, "<body>", "2")', "sat"),
    ("nullable", "smt-inre-plus-union",
     '(str.in_re start (re.+ (re.union (str.to_re "n") (str.to_re "-"))))', "sat"),
    ("nullable", "smt-suffixof", 'str.suffixof(" ", start)', "sat"),
    ("nullable", "smt-not-contains", 'not str.contains(start, ".")', "sat"),
    ("nullable", "forall-eq-empty", 'forall <tail> t: t = ""', "sat"),
    ("nullable", "unsat-prefixof-outside", 'str.prefixof(".", start)', "unsat"),
    # ---------------------------------------------------------------- ambig
    ("ambig", "no-constraint", None, "sat"),
    ("ambig", "smt-strlen-start", 'str.len(start) = 5', "sat"),
    ("ambig", "count-literal", 'count(start, "<e>", "5")', "sat"),
    ("ambig", "forall-strlen-upper", 'forall <e> e: str.len(e) <= 3', "sat"),
    ("ambig", "mexpr-exists-recursive-bound",
     'exists <e> e="{<e> l}+{<e> r}": (str.len(l) = 3 and r = "x")', "sat"),
    ("ambig", "exists-in-different-position",
     'exists <e> e1: exists <e> e2 in e1: (different_position(e1, e2) and str.len(e2) = 3)', "sat"),
    ("ambig", "forall-exists-in-same-position", 'forall <e> e1: exists <e> e2 in e1: same_position(e1, e2)', "sat"),
    ("ambig", "unsat-strlen-eq", 'str.len(start) = 2', "unsat"),
    ("ambig", "smt-indexof", 'str.indexof(start, "+", 0) = 1', "sat"),
    ("ambig", "smt-replace", 'str.replace(start, "+", "-") = "x-x"', "sat"),
    # ------------------------------------------------------------------ num
    ("num", "no-constraint", None, "sat"),
    ("num", "mexpr-nullable-prefix-forall",
     'forall <int> i="<sign>{<digits> d}": str.to.int(d) > 20', "sat"),
    ("num", "forall-exists-direct-child-toint",
     'forall <int> i: exists <digits> d in i: (direct_child(d, i) and str.to.int(d) > 20)', "sat"),
    ("num", "smt-mod-positive-divisor", 'forall <digit> d: str.to.int(d) mod 3 = 0', "sat"),
    ("num", "smt-mod-negative-divisor", 'forall <digit> d: str.to.int(d) mod -2 = 1', "sat"),
    ("num", "smt-div", 'forall <digit> d: str.to.int(d) div 2 = 1', "sat"),
    ("num", "smt-abs-minus", 'forall <digit> d: abs(str.to.int(d) - 5) = 4', "sat"),
    ("num", "smt-unary-minus", 'forall <digit> d: (- (str.to.int d)) < -1', "sat"),
    ("num", "smt-arith-mul-plus", 'forall <digit> d: str.to.int(d) * 2 + 1 = 5', "sat"),
    ("num", "exists-toint-eq", 'exists <digits> d: str.to.int(d) = 12', "sat"),
    ("num", "exists-toint-leading-zeros",
     'exists <digits> d: (str.to.int(d) = 2 and str.len(d) = 3)', "sat"),
    ("num", "forall-eq", 'forall <sign> s: s = "-"', "sat"),
    ("num", "smt-at", 'str.at(start, 0) = "+"', "sat"),
    ("num", "smt-substr", 'str.substr(start, 1, 2) = "29"', "sat"),
    ("num", "smt-indexof", 'str.indexof(start, "9", 0) = 1', "sat"),
    ("num", "smt-replace", 'str.replace(start, "-", "+") = "+1"', "sat"),
    ("num", "unsat-exists-int-eq-outside", 'exists <digit> d: str.to.int(d) = 5', "unsat"),
    ("num", "unsat-forall-nested-toint", 'forall <digits> d: str.to.int(d) >= 100', "unsat"),
    # ------------------------------------------------------------ multichar
    ("multichar", "no-constraint", None, "sat"),
    ("multichar", "forall-eq", 'forall <id> i: i = "ba"', "sat"),
    ("multichar", "mexpr-two-bound-smt",
     'exists <stmt> s="{<id> i} := {<cond> c}": (i = "bar" and c = "not true")', "sat"),
    ("multichar", "forall-not-eq", 'forall <cond> c: not c = "false"', "sat"),
    ("multichar", "smt-prefixof", 'str.prefixof("if", start)', "sat"),
    ("multichar", "count-literal", 'count(start, "<stmt>", "3")', "sat"),
    ("multichar", "exists-suffixof", 'exists <id> i: str.suffixof("r", i)', "sat"),
    ("multichar", "smt-contains", 'str.contains(start, "bar")', "sat"),
    ("multichar", "smt-inre-concat-opt",
     'forall <id> i: str.in_re(i, str.to_re("ba") re.++ re.opt(str.to_re("r")))', "sat"),
    ("multichar", "smt-inre-loop-range",
     'forall <id> i: (str.in_re i ((_ re.loop 2 2) (re.range "a" "z")))', "sat"),
    ("multichar", "mexpr-forall-keywords",
     'forall <stmt> s="if {<cond> c} then <stmt> else <stmt>": c = "true"', "sat"),
    ("multichar", "unsat-exists-strlen-eq", 'exists <id> i: str.len(i) = 4', "unsat"),
    # ----------------------------------------------------------------- wide
    ("wide", "forall-eq-wide-node", 'forall <c> c in start: c = "x"', "sat"),
    # --------------------------------------------------------------- xmlish
    ("xmlish", "no-constraint", None, "sat"),
    ("xmlish", "mexpr-angle-brackets-eq",
     'forall <xml> x="<{<id> o}><inner></{<id> c}>": o = c', "sat"),
    ("xmlish", "exists-strlen", 'exists <text> t: str.len(t) = 3', "sat"),
    ("xmlish", "count-literal", 'count(start, "<xml>", "2")', "sat"),
    ("xmlish", "forall-eq", 'forall <id> i: i = "a"', "sat"),
    ("xmlish", "smt-strlen-start", 'str.len(start) = 8', "sat"),
    ("xmlish", "smt-prefixof", 'str.prefixof("<b>", start)', "sat"),
    ("xmlish", "exists-inside-eq",
     'exists <xml> x: exists <text> t: (inside(t, x) and t = "tt")', "sat"),
    ("xmlish", "forall-exists-in-eq", 'forall <xml> x: exists <id> i in x: i = "b"', "sat"),
    ("xmlish", "unsat-strlen-eq", 'str.len(start) = 6', "unsat"),
    # --------------------------------------------------------------- csvish
    ("csvish", "no-constraint", None, "sat"),
    ("csvish", "exists-int-forall-count",
     'exists int n: forall <row> r: count(r, "<row>", n)', None),
    ("csvish", "forall-count-literal", 'forall <csv> c: exists <row> r in c: count(r, "<field>", "2")', None),
    ("csvish", "forall-eq", 'forall <char> c: c = "1"', "sat"),
    ("csvish", "smt-contains-newline", 'str.contains(start, "\\n")', "sat"),
    ("csvish", "exists-strlen", 'exists <field> f: str.len(f) = 2', "sat"),
    ("csvish", "count-literal", 'count(start, "<row>", "2")', "sat"),
    ("csvish", "smt-strlen-start", 'str.len(start) = 3', "sat"),
    ("csvish", "smt-inre-star-range",
     '(str.in_re start (re.* (re.union (re.range "0" "9") (str.to_re ","))))', "sat"),
    ("csvish", "unsat-forall-nested-strlen", 'forall <field> f: str.len(f) >= 1', "unsat"),
    # ------------------------------------------------------------- altstart
    ("altstart", "no-constraint", None, "sat"),
    ("altstart", "forall-exists-in-eq", 'forall <pair> p in start: exists <val> v in p: v = "1"', "sat"),
    ("altstart", "mexpr-two-bound-smt",
     'exists <pair> p="{<key> k}={<val> v}": (k = "j" and v = "0")', "sat"),
    ("altstart", "count-literal", 'count(start, "<pair>", "2")', "sat"),
    ("altstart", "forall-toint-eq", 'forall <val> v: str.to.int(v) = 1', "sat"),
    ("altstart", "smt-contains", 'str.contains(start, "j=1;k=0")', "sat"),
    ("altstart", "before-eq",
     'exists <pair> p1: exists <pair> p2: (before(p1, p2) and p1 = "k=0" and p2 = "j=1")', "sat"),
    ("altstart", "forall-forall-before-neq",
     'forall <key> k1: forall <key> k2: (not before(k1, k2) or not k1 = k2)', "sat"),
    ("altstart", "level-ge", 'forall <key> k: forall <val> v: level("GE", "<pair>", k, v)', "sat"),
    ("altstart", "unsat-exists-toint-gt", 'exists <val> v: str.to.int(v) > 1', "unsat"),
    # ------------------------------------------------------------------------
    # One template per remaining operator of the lexer grammar (islaspec.rst,
    # SMT_NONBINARY_OP / SMT_INFIX_RE_STR / XOR / IMPLIES_SMT / iff / implies)
    # and a few SMT-LIB operators only reachable in S-expression syntax.
    ("num", "op-re.plus", 'forall <digits> d: str.in_re(d, re.+(str.to_re("1")))', "sat"),
    ("num", "op-re.star-range", 'forall <digits> d: str.in_re(d, re.*(re.range("0", "2")))', "sat"),
    ("num", "op-re.all", 'forall <digit> d: str.in_re(d, re.all)', "sat"),
    ("num", "op-re.allchar", 'forall <digit> d: str.in_re(d, re.allchar)', "sat"),
    ("rightrec", "op-str.replace_all", 'str.replace_all(start, "a", "b") = "b,b"', "sat"),
    ("rightrec", "op-str.replace_re", 'str.replace_re(start, re.range("a", "a"), "b") = "b,b"', "sat"),
    ("rightrec", "op-str.replace_re_all", 'str.replace_re_all(start, re.range("a", "a"), "b") = "b,b"', "sat"),
    ("rightrec", "op-re.comp", 'forall <item> i: str.in_re(i, re.comp(str.to_re("a")))', "sat"),
    ("rightrec", "op-re.diff", 'forall <item> i: str.in_re(i, re.diff(re.range("a", "b"), str.to_re("a")))', "sat"),
    ("rightrec", "op-re.inter",
     'forall <item> i: (str.in_re i (re.inter (re.range "a" "b") (re.range "b" "c")))', "sat"),
    ("num", "op-str.is_digit", 'forall <digit> d: str.is_digit(d)', "sat"),
    ("rightrec", "unsat-op-str.is_digit", 'exists <item> i: str.is_digit(i)', "unsat"),
    ("rightrec", "op-str.to_code", 'forall <item> i: str.to_code(i) = 97', "sat"),
    ("rightrec", "op-str.from_code", 'forall <item> i: i = str.from_code(98)', "sat"),
    ("num", "op-str.from_int", 'forall <digit> d: d = str.from_int(2)', "sat"),
    ("rightrec", "op-str.concat", 'forall <item> i: i str.++ "x" = "ax"', "sat"),
    ("rightrec", "op-str.le", 'forall <item> i: i str.<= "a"', "sat"),
    ("rightrec", "op-xor", 'forall <item> i: (i = "a" xor str.len(start) = 1)', "sat"),
    ("rightrec", "op-smt-implies", 'forall <item> i: (=> (= i "a") (= (str.len start) 1))', "sat"),
    ("rightrec", "op-implies", 'forall <item> i: (i = "a" implies str.len(start) = 1)', "sat"),
    ("rightrec", "op-iff", 'forall <item> i: (i = "a" iff str.len(start) = 1)', "sat"),
    ("num", "op-ite", 'forall <digit> d: (= (ite (= d "1") 1 2) 1)', "sat"),
    ("rightrec", "op-distinct", 'forall <item> i: (distinct i "b")', "sat"),
    ("num", "op-int-comparisons", 'forall <digit> d: (str.to.int(d) >= 1 and str.to.int(d) <= 2 and '
     'str.to.int(d) > 0 and str.to.int(d) < 9)', "sat"),
    # a top-level existential quantifier conjoined with a universal one (every solution has to satisfy BOTH
    # conjuncts; with activate_unsat_support the solver checks the existential conjunct on its own first)
    ("assgn", "exists-and-forall",
     '(exists <assgn> a="{<var> l} := <rhs>" in start: l = "c") and (forall <digit> d in start: d = "2")', "sat"),
    ("rightrec", "exists-and-forall", '(exists <item> i in start: i = "b") and (forall <list> l in start: str.len(l) <= 3)', "sat"),
    ("altstart", "exists-and-forall",
     '(exists <pair> p in start: p = "j=1") and (forall <val> v in start: v = "1")', "sat"),
]

TEMPLATES: List[Dict[str, Any]] = [
    {"tid": f"{g}:{cls}", "grammar": g, "cls": cls, "text": text, "expect": exp}
    for (g, cls, text, exp) in _T
]

_STRUCT = ("before", "after", "inside", "direct-child", "same-position", "different-position", "nth",
           "consecutive", "level")
_SMT = ("smt", "strlen", "toint", "suffixof", "prefixof", "contains", "inre", "int-gt", "int-eq")


def family(cls: str) -> str:
    """Coarse template class used in signatures (feature group of the template)."""
    c = cls[6:] if cls.startswith("unsat-") else cls
    if c == "no-constraint":
        return "no-constraint"
    if c.startswith("mexpr"):
        return "match-expression"
    if c.startswith("xpath"):
        return "xpath"
    if "count" in c:
        return "count"
    if any(k in c for k in _STRUCT):
        return "structural-predicate"
    if c.startswith("op-"):
        return "smt-operator-" + c[3:]
    if any(k in c for k in _SMT):
        return "smt-atom"
    return "tree-quantifier"


#: inner nonterminal used for the ``start_symbol`` setting, per grammar
INNER_START: Dict[str, str] = {
    "assgn": "<stmt>",
    "leftrec": "<list>",
    "rightrec": "<list>",
    "nullable": "<tail>",
    "ambig": "<e>",
    "num": "<int>",
    "multichar": "<stmt>",
    "wide": "<row30>",
    "xmlish": "<xml>",
    "csvish": "<csv>",
    "altstart": "<doc>",
}

import re as _re

_RE_NT = _re.compile(r"<[^<> ]*>")


def template_nonterminals(tpl: Dict[str, Any]) -> List[str]:
    g = GRAMMARS[tpl["grammar"]]
    if tpl["text"] is None:
        return []
    return sorted({m for m in _RE_NT.findall(tpl["text"]) if m in g})


def inner_start_applicable(tpl: Dict[str, Any]) -> bool:
    """The template can be used with ``start_symbol=INNER_START[grammar]``:
    every nonterminal it mentions stays reachable (ISLa deletes unreachable
    nonterminals from the grammar when ``start_symbol`` is given) and it does
    not quantify over ``<start>`` itself."""
    g = GRAMMARS[tpl["grammar"]]
    inner = INNER_START[tpl["grammar"]]
    reach = set(reachable_nonterminals(g, inner))
    nts = template_nonterminals(tpl)
    return "<start>" not in nts and all(nt in reach for nt in nts)


# --------------------------------------------------------------------------- #
# Settings grid
# --------------------------------------------------------------------------- #

FREE = (1, 3, 10)
SMT = (1, 3, 10)
BOOL = (False, True)
TIM = tuple(range(8))  # bit set over DIRECT_EMBEDDING=1 | SELF_EMBEDDING=2 | CONTEXT_ADDITION=4

DEFAULT_SETTINGS = dict(free=10, smt=10, opt=True, uniq=False, tim=7, gf=False, inner=False)


def settings_grid() -> Iterator[Dict[str, Any]]:
    for free, smt, opt, uniq, tim, gf, inner in itertools.product(FREE, SMT, BOOL, BOOL, TIM, BOOL, BOOL):
        yield dict(free=free, smt=smt, opt=opt, uniq=uniq, tim=tim, gf=gf, inner=inner)


def settings_key(s: Dict[str, Any]) -> str:
    return "f%d-s%d-o%d-u%d-t%d-g%d-i%d" % (
        s["free"], s["smt"], int(s["opt"]), int(s["uniq"]), s["tim"], int(s["gf"]), int(s["inner"])
    )


_RE_MEXPR_Q = _re.compile(r'(?:forall|exists)\s+(<[^<> ]*>)\s+\w+\s*=\s*"')


def root_match_start(tpl: Dict[str, Any]) -> Optional[str]:
    """The nonterminal N of the template's first quantifier with a match expression, if the template can be used
    with ``start_symbol=N``: the solver's initial tree is then itself a node the quantifier has to match (the
    matched node is the root of the `in` tree)."""
    if tpl["text"] is None:
        return None
    m = _RE_MEXPR_Q.search(tpl["text"])
    if not m:
        return None
    g = GRAMMARS[tpl["grammar"]]
    n = m.group(1)
    if n not in g or n == "<start>":
        return None
    reach = set(reachable_nonterminals(g, n)) | {n}
    nts = template_nonterminals(tpl)
    if "<start>" in nts or not all(nt in reach for nt in nts):
        return None
    return n


def make_case(tpl: Dict[str, Any], s: Dict[str, Any], timeout_seconds: int = 10,
              n_solve: int = 10, n_post: int = 5, root_match: bool = False) -> Dict[str, Any]:
    s = dict(s)
    if s["inner"] and not inner_start_applicable(tpl):
        s["inner"] = False
    start_symbol = INNER_START[tpl["grammar"]] if s["inner"] else None
    if root_match:
        start_symbol = root_match_start(tpl)
        s["inner"] = True
        return dict(
            cid=f'{tpl["tid"]}|{settings_key(s)}|root-match',
            tid=tpl["tid"], grammar=tpl["grammar"], cls=tpl["cls"], text=tpl["text"], expect=tpl["expect"],
            settings=s, start_symbol=start_symbol, timeout_seconds=timeout_seconds,
            n_solve=n_solve, n_post=n_post,
        )
    return dict(
        cid=f'{tpl["tid"]}|{settings_key(s)}',
        tid=tpl["tid"], grammar=tpl["grammar"], cls=tpl["cls"], text=tpl["text"], expect=tpl["expect"],
        settings=s, start_symbol=start_symbol, timeout_seconds=timeout_seconds,
        n_solve=n_solve, n_post=n_post,
    )


def select_cases(tier: str, seed: int, salt: str = "C01", quick_total: int = 150,
                 thorough_per_template: int = 30) -> Tuple[List[Dict[str, Any]], Dict[str, Any]]:
    """Deterministic case list.

    quick: every template once with a seed-drawn grid point, then default
    settings for seed-drawn templates until ``quick_total`` solver objects.
    thorough: every template with the default settings, with
    ``thorough_per_template`` seed-drawn DISTINCT grid points, and a pairwise
    cover of the grid (every pair of values of two different settings occurs
    for some template)."""
    rng = random.Random(f"{salt}:{seed}")
    grid = list(settings_grid())
    cases: List[Dict[str, Any]] = []
    seen = set()

    def add(tpl, s):
        case = make_case(tpl, s)
        if case["cid"] not in seen:
            seen.add(case["cid"])
            cases.append(case)

    solvable = [t for t in TEMPLATES]
    # every template with a match expression once more with the quantified nonterminal as requested start symbol
    # (default settings): the initial tree is then a node the quantifier itself has to match
    for tpl in solvable:
        if tpl["grammar"] != "wide" and root_match_start(tpl) is not None:
            case = make_case(tpl, DEFAULT_SETTINGS, root_match=True)
            if case["cid"] not in seen:
                seen.add(case["cid"])
                cases.append(case)
    # the solver's unsat support (a nested solve() for every existential conjunct): templates with an existential
    # quantifier, default settings otherwise
    with_exists = [t for t in solvable if t["text"] and "exists" in t["text"] and t["grammar"] != "wide"]
    pri = [t for t in with_exists if t["cls"] == "exists-and-forall"]
    others = [t for t in with_exists if t["cls"] != "exists-and-forall"]
    rng_u = random.Random(f"{salt}:{seed}:unsat-support")
    rng_u.shuffle(others)
    for tpl in pri + others[: (12 if tier == "quick" else 60)]:
        case = make_case(tpl, DEFAULT_SETTINGS)
        case["cid"] += "|unsat-support"
        case["extra_kwargs"] = {"activate_unsat_support": True}
        if case["cid"] not in seen:
            seen.add(case["cid"])
            cases.append(case)
    if tier == "quick":
        for tpl in solvable:
            add(tpl, grid[rng.randrange(len(grid))])
        order = list(solvable)
        rng.shuffle(order)
        for tpl in order:
            if len(cases) >= quick_total:
                break
            add(tpl, DEFAULT_SETTINGS)
    else:
        for tpl in solvable:
            add(tpl, DEFAULT_SETTINGS)
            n = thorough_per_template if tpl["grammar"] != "wide" else 4
            for s in rng.sample(grid, n):
                add(tpl, s)
        # pairwise cover, spread over the templates round-robin
        names = ["free", "smt", "opt", "uniq", "tim", "gf", "inner"]
        doms = dict(free=FREE, smt=SMT, opt=BOOL, uniq=BOOL, tim=TIM, gf=BOOL, inner=BOOL)
        k = 0
        pool = [t for t in solvable if t["grammar"] != "wide"]
        for a, b in itertools.combinations(names, 2):
            for va in doms[a]:
                for vb in doms[b]:
                    s = dict(DEFAULT_SETTINGS)
                    s[a] = va
                    s[b] = vb
                    add(pool[k % len(pool)], s)
                    k += 1
    # longest-expected-first scheduling (deterministic): the assignment language and unsatisfiable /
    # SMT-heavy templates dominate the wall clock, so they are started first
    def weight(c):
        w = 3 if c["grammar"] == "assgn" else 0
        w += 2 if c["expect"] == "unsat" else 0
        w += 1 if family(c["cls"]).startswith(("smt", "match")) else 0
        return -w

    cases.sort(key=weight)
    info = dict(templates=len(TEMPLATES), grid_points=len(grid),
                full_grid_solver_objects=len(grid) * len(TEMPLATES), selected=len(cases))
    return cases, info


# --------------------------------------------------------------------------- #
# Worker
# --------------------------------------------------------------------------- #


class Watchdog(BaseException):
    """Raised by the SIGALRM handler; BaseException so that ISLa's
    ``except Exception`` / ``safe(...)`` wrappers do not swallow it."""


def _alarm_handler(signum, frame):
    raise Watchdog()


def is_watchdog(e: BaseException) -> bool:
    """The watchdog itself, or what is left of it when SIGALRM arrives while
    Python runs inside a ctypes call-back of Z3: ctypes turns the exception
    into ``ctypes.ArgumentError('argument 2: Watchdog: ')``."""
    seen = 0
    while e is not None and seen < 8:
        if isinstance(e, Watchdog) or "Watchdog" in type(e).__name__:
            return True
        if type(e).__name__ == "ArgumentError" and "Watchdog" in str(e):
            return True
        e = e.__cause__ or e.__context__
        seen += 1
    return False


def struct_to_json(t) -> Any:
    """DerivationTree -> nested lists [value, children|None] (attributes only)."""
    return [t.value, None if t.children is None else [struct_to_json(c) for c in t.children]]


def struct_from_json(j):
    from isla.derivation_tree import DerivationTree

    value, children = j
    if children is None:
        return DerivationTree(value, None)
    return DerivationTree(value, tuple(struct_from_json(c) for c in children))


def build_solver(case: Dict[str, Any]):
    from isla.solver import ISLaSolver

    s = case["settings"]
    kwargs = dict(
        max_number_free_instantiations=s["free"],
        max_number_smt_instantiations=s["smt"],
        enable_optimized_z3_queries=s["opt"],
        enforce_unique_trees_in_queue=s["uniq"],
        tree_insertion_methods=s["tim"],
        global_fuzzer=s["gf"],
        timeout_seconds=case["timeout_seconds"],
    )
    if case.get("start_symbol"):
        kwargs["start_symbol"] = case["start_symbol"]
    if case.get("extra_kwargs"):
        kwargs.update(case["extra_kwargs"])
    return ISLaSolver(GRAMMARS[case["grammar"]], case["text"], **kwargs)


def check_tree(case: Dict[str, Any], tree, formula, eval_budget_s: int = 20) -> Dict[str, Any]:
    """C01 contract on one returned object, evaluated with the oracles."""
    from isla.derivation_tree import DerivationTree
    from bounded import reftree, refeval

    grammar = GRAMMARS[case["grammar"]]
    root = case.get("start_symbol") or "<start>"
    out: Dict[str, Any] = {"kind": "tree"}
    if not isinstance(tree, DerivationTree):
        out.update(kind="non-tree", repr=repr(tree)[:200], type=type(tree).__name__)
        return out
    s = reftree.ref_str(tree)
    out["str"] = s
    out["nodes"] = reftree.ref_size(tree)
    out["open"] = reftree.ref_open(tree)
    out["valid"] = reftree.ref_valid(grammar, tree, root)
    out["root"] = tree.value
    out["wrapped"] = None
    if not out["valid"] and root != "<start>" and tree.value == "<start>":
        # A requested start symbol S makes the solver work on the grammar with
        # `<start> ::= S` (solver.py, ISLaSolver.__init__); the property allows
        # a solution rooted "at the start symbol (or the requested start
        # symbol)", so a tree rooted at <start> is judged against that
        # effective grammar (see DESIGN.md 11.2).
        grammar = dict(grammar)
        grammar["<start>"] = [root]
        out["valid"] = reftree.ref_valid(grammar, tree, "<start>")
        out["wrapped"] = "effective-grammar"
    out["member"] = reftree.ref_member(grammar, s, root) if len(s) <= 200 else None
    out["eval"] = None
    out["exact"] = None
    out["eval_note"] = None
    if out["open"] or not out["valid"]:
        out["eval_note"] = "not evaluated: tree open or not a derivation tree"
        out["struct"] = struct_to_json(tree)
        return out
    if formula is None:
        out["eval"], out["exact"], out["eval_note"] = True, True, "no constraint"
        return out
    old = signal.signal(signal.SIGALRM, _alarm_handler)
    signal.alarm(eval_budget_s)
    try:
        verdict, exact = refeval.ref_eval_ex(formula, tree, grammar)
        out["eval"], out["exact"] = bool(verdict), bool(exact)
    except refeval.OracleUnsupported as e:
        out["eval_note"] = "OracleUnsupported: " + str(e)[:200]
    except refeval.OracleUndecided as e:
        out["eval_note"] = "OracleUndecided: " + str(e)[:200]
    except Watchdog:
        out["eval_note"] = f"oracle watchdog {eval_budget_s}s"
    finally:
        signal.alarm(0)
        signal.signal(signal.SIGALRM, old)
    if out["eval"] is False:
        out["struct"] = struct_to_json(tree)
    return out


def _exc_record(e: BaseException) -> Dict[str, Any]:
    tb = traceback.extract_tb(e.__traceback__)
    frames = [f"{os.path.basename(fr.filename)}:{fr.lineno}:{fr.name}" for fr in tb]
    isla_frames = [f for f, fr in zip(frames, tb) if "/isla/" in fr.filename]
    return dict(kind="exc", type=type(e).__name__, msg=str(e)[:300],
                where=(isla_frames[-1] if isla_frames else (frames[-1] if frames else "?")),
                trace=frames[-8:])


TERMINAL = ("StopIteration", "TimeoutError")


def run_solver_case(case: Dict[str, Any]) -> Dict[str, Any]:
    """Run one solver object; see module docstring.  ``case['soft_budget_s']``
    (default 45) is the SIGALRM budget for the whole case."""
    t0 = time.time()
    rec: Dict[str, Any] = dict(cid=case["cid"], case=case, ctor_exc=None, calls=[], post=[],
                               watchdog=False, formula_parse_error=None)
    random.seed(case.get("random_seed", 0))
    from bounded import refeval

    grammar = GRAMMARS[case["grammar"]]
    formula = None
    if case["text"] is not None:
        try:
            formula = refeval.parse_formula(case["text"], grammar)
        except BaseException as e:  # template does not parse against the full grammar
            rec["formula_parse_error"] = f"{type(e).__name__}: {str(e)[:200]}"
    old = signal.signal(signal.SIGALRM, _alarm_handler)
    signal.alarm(int(case.get("soft_budget_s", 45)))
    try:
        try:
            solver = build_solver(case)
        except Watchdog:
            raise
        except BaseException as e:
            if is_watchdog(e):
                raise Watchdog() from None
            rec["ctor_exc"] = _exc_record(e)
            return rec
        terminal_seen = False
        for _ in range(case["n_solve"]):
            try:
                result = solver.solve()
            except Watchdog:
                raise
            except BaseException as e:
                if is_watchdog(e):
                    raise Watchdog() from None
                er = _exc_record(e)
                rec["calls"].append(er)
                if er["type"] in TERMINAL:
                    terminal_seen = True
                break
            # oracle evaluation must not eat the solver's alarm budget
            remaining = signal.alarm(0)
            rec["calls"].append(check_tree(case, result, formula))
            signal.signal(signal.SIGALRM, _alarm_handler)
            signal.alarm(max(1, remaining))
        if terminal_seen:
            for _ in range(case["n_post"]):
                try:
                    result = solver.solve()
                    rec["post"].append(dict(kind="tree", str=str(result)[:200]))
                except Watchdog:
                    raise
                except BaseException as e:
                    if is_watchdog(e):
                        raise Watchdog() from None
                    rec["post"].append(_exc_record(e))
    except Watchdog:
        rec["watchdog"] = True
    finally:
        signal.alarm(0)
        signal.signal(signal.SIGALRM, old)
        rec["elapsed"] = round(time.time() - t0, 2)
    return rec


# --------------------------------------------------------------------------- #
# Killable pool
# --------------------------------------------------------------------------- #


def _pool_worker(conn, func_module: str, func_name: str):
    import importlib
    import warnings

    warnings.filterwarnings("ignore")
    signal.signal(signal.SIGINT, signal.SIG_IGN)
    if not os.environ.get("C01_WORKER_OUTPUT"):
        # z3 prints "(incomplete (theory seq))" from C and ISLa logs "could not be decided" lines
        devnull = os.open(os.devnull, os.O_WRONLY)
        os.dup2(devnull, 1)
        os.dup2(devnull, 2)
    func = getattr(importlib.import_module(func_module), func_name)
    while True:
        try:
            msg = conn.recv()
        except EOFError:
            return
        if msg is None:
            return
        idx, arg = msg
        try:
            res = ("ok", func(arg))
        except BaseException as e:  # the task function itself failed
            res = ("err", f"{type(e).__name__}: {e}\n" + traceback.format_exc(limit=8))
        try:
            conn.send((idx, res))
        except Exception as e:
            conn.send((idx, ("err", f"result not sendable: {e}")))


class KillablePool:
    """``imap_unordered``-like execution of ``module.func(arg)`` over ``args``
    in ``n`` worker processes.  A task that runs longer than ``hard_s`` seconds
    gets its worker killed (SIGKILL) and is reported as ``("killed", None)``.
    Results: iterator of ``(index, status, value)`` with status in
    ``ok | err | killed``."""

    def __init__(self, n: int, func_module: str, func_name: str, hard_s: float):
        self.n = n
        self.func_module = func_module
        self.func_name = func_name
        self.hard_s = hard_s
        self.ctx = mp.get_context("fork")

    def _spawn(self):
        parent, child = self.ctx.Pipe()
        p = self.ctx.Process(target=_pool_worker, args=(child, self.func_module, self.func_name), daemon=True)
        p.start()
        child.close()
        return dict(proc=p, conn=parent, task=None, t0=None)

    def run(self, args: Sequence[Any], hard_s_of: Optional[Callable[[Any], float]] = None
            ) -> Iterator[Tuple[int, str, Any]]:
        from multiprocessing.connection import wait

        todo = list(enumerate(args))
        todo.reverse()
        workers = [self._spawn() for _ in range(min(self.n, max(1, len(todo))))]
        pending = 0
        try:
            while todo or pending:
                for w in workers:
                    if w["task"] is None and todo:
                        idx, arg = todo.pop()
                        w["conn"].send((idx, arg))
                        w["task"] = (idx, arg)
                        w["t0"] = time.time()
                        pending += 1
                busy = [w for w in workers if w["task"] is not None]
                ready = wait([w["conn"] for w in busy], timeout=0.5)
                now = time.time()
                for i, w in enumerate(workers):
                    if w["task"] is None:
                        continue
                    idx, arg = w["task"]
                    if w["conn"] in ready:
                        try:
                            ridx, (status, value) = w["conn"].recv()
                        except (EOFError, OSError):
                            status, value = "killed", "worker died"
                            w["proc"].kill()
                            workers[i] = self._spawn()
                            w = workers[i]
                        w["task"] = None
                        pending -= 1
                        yield idx, status, value
                    else:
                        limit = hard_s_of(arg) if hard_s_of else self.hard_s
                        if now - w["t0"] > limit:
                            w["proc"].kill()
                            w["proc"].join(2)
                            try:
                                w["conn"].close()
                            except Exception:
                                pass
                            workers[i] = self._spawn()
                            pending -= 1
                            yield idx, "killed", f"hard watchdog {limit}s"
        finally:
            for w in workers:
                try:
                    if w["task"] is None:
                        w["conn"].send(None)
                    else:
                        w["proc"].kill()
                except Exception:
                    pass
            for w in workers:
                w["proc"].join(1)
                if w["proc"].is_alive():
                    w["proc"].kill()


def run_cases(cases: Sequence[Dict[str, Any]], n_procs: int = 16, hard_s: float = 75.0,
              func_name: str = "run_solver_case", func_module: str = "bounded.c01_cases"
              ) -> List[Tuple[Dict[str, Any], str, Any]]:
    """Run all cases; returns ``[(case, status, record-or-message)]`` in case order."""
    pool = KillablePool(n_procs, func_module, func_name, hard_s)
    out: List[Optional[Tuple[Dict[str, Any], str, Any]]] = [None] * len(cases)
    for idx, status, value in pool.run(cases):
        out[idx] = (cases[idx], status, value)
    return [o for o in out if o is not None]
