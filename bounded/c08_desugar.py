"""C08: an INDEPENDENT desugarer for ISLa's simplified syntax, written from
``/repo/sphinx/islaspec.rst`` (section "Simplified Syntax" and the paragraph on
derived propositional combinators).  Nothing of ISLa is imported here.

A constraint is a small AST (classes below).  ``sugar_text(ast)`` prints it in the
simplified concrete syntax, ``desugar(ast, grammar)`` translates it to an AST of
CORE ISLa (explicit names, explicit ``in``, no free nonterminals, no XPath
expressions, S-expressions only, ``not``/``and``/``or`` only, no negative
literals) and ``core_text(ast)`` prints that in core concrete syntax.

Specification sentences implemented
-----------------------------------

[omission of in start]  "all subformulas ``forall <type> name:`` and ``exists <type>
    name:`` in formula ... are translated to ``forall <type> name in start:`` ..."

[omission of names]  "in all formulas ``Q <type> in v: formula`` ... we choose a
    "fresh" variable name ``name`` and replace the formula [by] ``Q <type> name in v:
    formula'``, where formula' results from formula by replacing all occurrences of
    ``<type>`` appearing at places where a variable may appear [by] ``name``."

[free nonterminals]  "A formula ``formula`` with at least one unbound occurrence of a
    nonterminal symbol ``<type>`` is turned into a formula ``forall <type> name in
    start: formula'`` where name is a fresh variable name ... formula' results from
    formula by replacing all the <type> occurrences by name".  The closure is
    applied to the WHOLE formula (the text speaks of "an added top-level universal
    quantifier").  Several free types give several top-level universal quantifiers
    (their order is irrelevant for the meaning).  ``<start>`` is treated like every
    other nonterminal.

[XPath, child axis]  "``var.<type1>[pos1]`` refers to the pos1-th direct child of type
    <type1> in the derivation tree associated to var, where counting starts from 1";
    "[pos] specifiers are optional and default to [1]"; "we search the reference
    grammar for expansions of <xml-open-tag> containing at least one <id>
    nonterminal ... we create a match expression for [each] of these alternative[s],
    and obtain the following conjunction of two quantified formulas"; "If more than
    one possible such translation is possible, we build a conjunction (for universal
    formulas) or disjunction (for existential formulas)."  -> for the quantifier
    that binds ``var`` one copy ``Q <T> var="<alternative with the pos-th <type1>
    written {<type1> fresh}>" in w: body'`` per alternative of T with at least pos
    occurrences of <type1>; longer child chains expand the chosen occurrence again;
    several XPath expressions on the same variable are put into the SAME match
    expression (one copy per consistent choice of alternatives).

[XPath, descendant axis]  "``var.<type1>[pos1]..<type2>.<type3>[pos3]`` refers to the
    pos3-th direct child with type <type3> of *all* <type2> elements that are
    (indirect) children of ..."; "we eliminate the segments from left to right by
    introducing universal quantifiers"; "Next, we "eliminate" the first XPath
    segment by introducing a universal quantifier inside the already added one"
    -> ``forall <type2> fresh in x: ...`` is put directly inside the quantifier
    that binds x (x = var, or the match-expression variable made for the first
    segment), around that quantifier's whole body.

[generalized SMT-LIB syntax]  "the prefix notation op(arg1, arg2) ... and, for binary
    operators, the infix notation arg1 op arg2 ... all such prefix and infix
    expressions are translated to S-expressions": ``17 + str.to.int(y) =
    str.to.int(x)`` is ``(= (+ 17 (str.to.int y)) (str.to.int x))``.

[negative literals]  CHANGELOG 1.14.1: "literal negative numbers ... such as in
    str.to.int(<int>) < -1"; core SMT-LIB writes ``(- 1)``.

[derived connectives]  "A xor B is translated to (A and (not B)) or (B and (not A));
    A implies B is translated to (not A) or B; and A iff B is translated to (A and
    B) or ((not A) and (not B))"; precedence "not, and, or, xor, implies, iff" with
    the example ``A and not B or B and not A`` = ``(A and (not B)) or (B and (not A))``.

Deliberately NOT translated (``Unsupported``; the check excludes such inputs with a
stated pre-condition because the specification does not say what they mean): an
XPath expression whose head is the constant, a numeric variable or a variable
bound inside a match expression; XPath expressions on a variable whose quantifier
already carries a match expression; an XPath prefix that is both used itself and
extended (``v.<a>`` next to ``v.<a>.<b>``); a nameless quantifier nested in a
nameless quantifier over the same type; alternatives whose terminal text contains
``{ } [ ] "`` or a backslash (no match-expression escape is documented); XPath
steps that no alternative offers; several XPath expressions on one variable that
are offered by different sets of alternatives.
"""

from __future__ import annotations

import itertools
import re
from typing import Dict, List, Optional, Sequence, Tuple, Union

Grammar = Dict[str, List[str]]
_RE_NT = re.compile(r"(<[^<> ]*>)")


class Unsupported(Exception):
    pass


# --------------------------------------------------------------------------- #
# AST
# --------------------------------------------------------------------------- #


class Node:
    fields: Tuple[str, ...] = ()

    def __init__(self, *args):
        assert len(args) == len(self.fields), (type(self).__name__, args)
        for f, a in zip(self.fields, args):
            setattr(self, f, a)

    def key(self):
        def k(x):
            if isinstance(x, Node):
                return x.key()
            if isinstance(x, (list, tuple)):
                return tuple(k(i) for i in x)
            return x

        return (type(self).__name__,) + tuple(k(getattr(self, f)) for f in self.fields)

    def __eq__(self, other):
        return isinstance(other, Node) and self.key() == other.key()

    def __hash__(self):
        return hash(self.key())

    def __repr__(self):
        return f"{type(self).__name__}({', '.join(repr(getattr(self, f)) for f in self.fields)})"


# terms ----------------------------------------------------------------------
class V(Node):  # variable
    fields = ("name",)


class NT(Node):  # nonterminal used where a variable may occur
    fields = ("type",)


class XP(Node):
    """head: V | NT; segs: tuple of segments, a segment is a tuple of (type, index or
    None) steps.  ``v.<a>[2].<b>..<c>.<d>`` = XP(V v, ((<a>,2),(<b>,None)), ((<c>,None),(<d>,None)))
    and ``v..<c>`` = XP(V v, (), ((<c>,None),))."""

    fields = ("head", "segs")


class S(Node):  # string literal (plain printable ASCII without " and backslash)
    fields = ("text",)


class I(Node):  # integer literal, possibly negative
    fields = ("value",)


class B(Node):
    fields = ("value",)


class App(Node):
    """style: 'sexpr' | 'prefix' | 'infix' (infix: exactly two arguments)"""

    fields = ("op", "args", "style")


# formulas -------------------------------------------------------------------
class Q(Node):
    """kind: 'forall'|'exists'; name: str|None; inn: None | V | NT; mexpr: None | tuple
    of elements: str (terminal text) | ('nt', '<T>') | ('bind', '<T>', name) |
    ('opt', text)"""

    fields = ("kind", "type", "name", "inn", "body", "mexpr")


class QI(Node):
    fields = ("kind", "name", "body")


class Not(Node):
    fields = ("arg",)


class And(Node):
    fields = ("left", "right")


class Or(Node):
    fields = ("left", "right")


class Xor(Node):
    fields = ("left", "right")


class Implies(Node):
    fields = ("left", "right")


class Iff(Node):
    fields = ("left", "right")


class Pred(Node):
    fields = ("name", "args")


class Smt(Node):
    fields = ("term",)


BIN = (And, Or, Xor, Implies, Iff)
_PREC = {Iff: 1, Implies: 2, Xor: 3, Or: 4, And: 5}
_WORD = {Iff: "iff", Implies: "implies", Xor: "xor", Or: "or", And: "and"}

# --------------------------------------------------------------------------- #
# Printing
# --------------------------------------------------------------------------- #


def _lit(text: str) -> str:
    assert '"' not in text and "\\" not in text
    return '"' + text + '"'


def _xp_text(xp: XP) -> str:
    out = xp.head.name if isinstance(xp.head, V) else xp.head.type
    for si, seg in enumerate(xp.segs):
        for ki, (typ, idx) in enumerate(seg):
            sep = ".." if (si > 0 and ki == 0) else "."
            out += sep + typ + (f"[{idx}]" if idx is not None else "")
    return out


def term_sugar(t) -> str:
    if isinstance(t, V):
        return t.name
    if isinstance(t, NT):
        return t.type
    if isinstance(t, XP):
        return _xp_text(t)
    if isinstance(t, S):
        return _lit(t.text)
    if isinstance(t, I):
        return str(t.value)
    if isinstance(t, B):
        return "true" if t.value else "false"
    if isinstance(t, App):
        if t.style == "prefix":
            return f"{t.op}({', '.join(term_sugar(a) for a in t.args)})"
        if t.style == "infix":
            assert len(t.args) == 2
            return f"{term_sugar(t.args[0])} {t.op} {term_sugar(t.args[1])}"
        if not t.args:
            return t.op
        return "(" + " ".join([t.op] + [term_sugar(a) for a in t.args]) + ")"
    raise TypeError(t)


def _mexpr_text(mexpr) -> str:
    out = []
    for e in mexpr:
        if isinstance(e, str):
            out.append(e)
        elif e[0] == "nt":
            out.append(e[1])
        elif e[0] == "bind":
            out.append("{" + e[1] + " " + e[2] + "}")
        elif e[0] == "opt":
            out.append("[" + e[1] + "]")
        else:
            raise TypeError(e)
    return "".join(out)


def sugar_text(f, min_parens: bool = False) -> str:
    """Concrete simplified syntax.  Default: every operand that is not an atom is
    parenthesised.  ``min_parens``: operands of binary connectives are printed
    without parentheses where the documented precedence (not > and > or > xor >
    implies > iff) makes them unnecessary; equal operators nest without
    parentheses only for the associative ``and`` / ``or``."""

    def atom(g) -> bool:
        return isinstance(g, (Smt, Pred))

    def p(g, parent=None, side=None) -> str:
        if isinstance(g, Smt):
            txt = term_sugar(g.term)
            return txt
        if isinstance(g, Pred):
            return f"{g.name}({', '.join(term_sugar(a) for a in g.args)})"
        if isinstance(g, Not):
            inner = p(g.arg)
            return f"not {inner}" if isinstance(g.arg, Pred) else f"not ({inner})"
        if isinstance(g, BIN):
            def operand(h, side):
                txt = p(h)
                if atom(h) or isinstance(h, Not):
                    return txt
                if min_parens and isinstance(h, BIN):
                    if _PREC[type(h)] > _PREC[type(g)]:
                        return txt
                    if type(h) is type(g) and type(g) in (And, Or):
                        return txt
                return f"({txt})"

            return f"{operand(g.left, 'l')} {_WORD[type(g)]} {operand(g.right, 'r')}"
        if isinstance(g, Q):
            head = f"{g.kind} {g.type}"
            if g.name is not None:
                head += f" {g.name}"
            if g.mexpr is not None:
                head += f'="{_mexpr_text(g.mexpr)}"'
            if g.inn is not None:
                head += " in " + term_sugar(g.inn)
            body = p(g.body)
            return f"{head}: ({body})" if not atom(g.body) else f"{head}: {body}"
        if isinstance(g, QI):
            body = p(g.body)
            return f"{g.kind} int {g.name}: ({body})" if not atom(g.body) else f"{g.kind} int {g.name}: {body}"
        raise TypeError(g)

    return p(f)


def term_core(t) -> str:
    if isinstance(t, V):
        return t.name
    if isinstance(t, S):
        return _lit(t.text)
    if isinstance(t, I):
        assert t.value >= 0
        return str(t.value)
    if isinstance(t, B):
        return "true" if t.value else "false"
    if isinstance(t, App):
        assert t.style == "sexpr"
        if not t.args:
            return t.op
        return "(" + " ".join([t.op] + [term_core(a) for a in t.args]) + ")"
    raise TypeError(f"not a core term: {t!r}")


def core_text(f) -> str:
    if isinstance(f, Smt):
        return term_core(f.term)
    if isinstance(f, Pred):
        return f"{f.name}({', '.join(term_core(a) for a in f.args)})"
    if isinstance(f, Not):
        return f"not ({core_text(f.arg)})"
    if isinstance(f, And):
        return f"(({core_text(f.left)}) and ({core_text(f.right)}))"
    if isinstance(f, Or):
        return f"(({core_text(f.left)}) or ({core_text(f.right)}))"
    if isinstance(f, Q):
        assert f.name is not None and isinstance(f.inn, V)
        mx = "" if f.mexpr is None else f'="{_mexpr_text(f.mexpr)}"'
        return f"{f.kind} {f.type} {f.name}{mx} in {f.inn.name}: ({core_text(f.body)})"
    if isinstance(f, QI):
        return f"{f.kind} int {f.name}: ({core_text(f.body)})"
    raise TypeError(f"not a core formula: {f!r}")


# --------------------------------------------------------------------------- #
# Generic traversal helpers
# --------------------------------------------------------------------------- #


def map_terms(f, fn):
    """Rebuild formula ``f`` applying ``fn`` to every maximal variable-position term
    (V / NT / XP) - inside SMT terms, predicate arguments and ``in`` positions."""

    def term(t):
        if isinstance(t, (V, NT, XP)):
            return fn(t)
        if isinstance(t, App):
            return App(t.op, tuple(term(a) for a in t.args), t.style)
        return t

    def go(g):
        if isinstance(g, Smt):
            return Smt(term(g.term))
        if isinstance(g, Pred):
            return Pred(g.name, tuple(term(a) for a in g.args))
        if isinstance(g, Not):
            return Not(go(g.arg))
        if isinstance(g, BIN):
            return type(g)(go(g.left), go(g.right))
        if isinstance(g, Q):
            inn = g.inn if g.inn is None else term(g.inn)
            return Q(g.kind, g.type, g.name, inn, go(g.body), g.mexpr)
        if isinstance(g, QI):
            return QI(g.kind, g.name, go(g.body))
        raise TypeError(g)

    return go(f)


def all_terms(f) -> List:
    found: List = []

    def fn(t):
        found.append(t)
        return t

    map_terms(f, fn)
    return found


def names_used(f) -> List[str]:
    out: List[str] = []

    def note(n):
        if n is not None and n not in out:
            out.append(n)

    def go(g):
        if isinstance(g, Q):
            note(g.name)
            for e in g.mexpr or ():
                if not isinstance(e, str) and e[0] == "bind":
                    note(e[2])
            go(g.body)
        elif isinstance(g, QI):
            note(g.name)
            go(g.body)
        elif isinstance(g, Not):
            go(g.arg)
        elif isinstance(g, BIN):
            go(g.left)
            go(g.right)

    go(f)
    for t in all_terms(f):
        if isinstance(t, V):
            note(t.name)
        elif isinstance(t, XP) and isinstance(t.head, V):
            note(t.head.name)
    note("start")
    return out


class Fresh:
    def __init__(self, used: Sequence[str]):
        self.used = list(used)
        self.counter = 0

    def __call__(self, typ: str) -> str:
        base = re.sub(r"[^A-Za-z0-9]", "", typ) or "v"
        while True:
            self.counter += 1
            name = f"{base}_c{self.counter}"
            if name not in self.used:
                self.used.append(name)
                return name


# --------------------------------------------------------------------------- #
# Step 1: nameless quantifiers, free nonterminals, `in start`
# --------------------------------------------------------------------------- #


def _subst_type(f, typ: str, name: str):
    """formula' = formula with all occurrences of <type> at variable positions
    replaced by ``name`` (also as the head of an XPath expression); occurrences
    below a nameless quantifier over the same type would be re-bound there: that
    nesting is rejected."""

    def fn(t):
        if isinstance(t, NT) and t.type == typ:
            return V(name)
        if isinstance(t, XP) and isinstance(t.head, NT) and t.head.type == typ:
            return XP(V(name), t.segs)
        return t

    def check(g):
        if isinstance(g, Q):
            if g.name is None and g.type == typ:
                raise Unsupported("nameless quantifier nested in a nameless quantifier over the same type")
            check(g.body)
        elif isinstance(g, QI):
            check(g.body)
        elif isinstance(g, Not):
            check(g.arg)
        elif isinstance(g, BIN):
            check(g.left)
            check(g.right)

    check(f)
    return map_terms(f, fn)


def name_quantifiers(f, fresh: Fresh):
    """[omission of names]: bottom-up is not possible (the body of an outer nameless
    quantifier may mention the type); top-down with explicit substitution."""
    if isinstance(f, Q):
        if f.name is None:
            name = fresh(f.type)
            body = _subst_type(f.body, f.type, name)
            return Q(f.kind, f.type, name, f.inn, name_quantifiers(body, fresh), f.mexpr)
        return Q(f.kind, f.type, f.name, f.inn, name_quantifiers(f.body, fresh), f.mexpr)
    if isinstance(f, QI):
        return QI(f.kind, f.name, name_quantifiers(f.body, fresh))
    if isinstance(f, Not):
        return Not(name_quantifiers(f.arg, fresh))
    if isinstance(f, BIN):
        return type(f)(name_quantifiers(f.left, fresh), name_quantifiers(f.right, fresh))
    return f


def close_free_nonterminals(f, fresh: Fresh):
    """[free nonterminals]: one top-level ``forall <type> name in start`` per type
    with an unbound occurrence (after nameless quantifiers got their names)."""
    types: List[str] = []
    for t in all_terms(f):
        typ = None
        if isinstance(t, NT):
            typ = t.type
        elif isinstance(t, XP) and isinstance(t.head, NT):
            typ = t.head.type
        if typ is not None and typ not in types:
            types.append(typ)
    for typ in types:
        name = fresh(typ)
        f = Q("forall", typ, name, V("start"), _subst_type(f, typ, name), None)
    return f


def default_in_start(f):
    if isinstance(f, Q):
        inn = f.inn if f.inn is not None else V("start")
        return Q(f.kind, f.type, f.name, inn, default_in_start(f.body), f.mexpr)
    if isinstance(f, QI):
        return QI(f.kind, f.name, default_in_start(f.body))
    if isinstance(f, Not):
        return Not(default_in_start(f.arg))
    if isinstance(f, BIN):
        return type(f)(default_in_start(f.left), default_in_start(f.right))
    return f


# --------------------------------------------------------------------------- #
# Step 2: XPath expressions
# --------------------------------------------------------------------------- #


def _split(expansion: str) -> List[str]:
    return [tok for tok in _RE_NT.split(expansion) if tok]


def _rules(grammar: Grammar) -> Dict[str, List[List[str]]]:
    return {nt: [_split(alt) for alt in alts] for nt, alts in grammar.items()}


_FORBIDDEN_TERMINAL_CHARS = '{}[]"\\'


class _Trie:
    def __init__(self):
        self.steps: Dict[Tuple[str, int], "_Trie"] = {}
        self.bind: Optional[str] = None


def _patterns(trie: _Trie, nt: str, rules) -> List[list]:
    """All match expressions (element lists) for nonterminal ``nt`` realising the
    steps of ``trie`` - one per consistent choice of alternatives."""
    results: List[list] = []
    if nt not in rules:
        raise Unsupported(f"unknown nonterminal {nt}")
    # Several XPath expressions on one variable: the specification only shows the
    # case in which every expression is offered by the same alternatives.
    offered = [
        frozenset(i for i, alt in enumerate(rules[nt]) if sum(1 for s in alt if s == typ) >= idx)
        for (typ, idx) in trie.steps
    ]
    if len(set(offered)) > 1:
        raise Unsupported("XPath expressions on one variable that are not offered by the same alternatives")
    for alt in rules[nt]:
        # the chosen occurrence position of every step in this alternative
        positions: Dict[int, Tuple[str, int]] = {}
        ok = True
        for (typ, idx), child in trie.steps.items():
            occ = [i for i, sym in enumerate(alt) if sym == typ]
            if len(occ) < idx:
                ok = False
                break
            positions[occ[idx - 1]] = (typ, idx)
        if not ok:
            continue
        per_symbol: List[List[list]] = []
        for i, sym in enumerate(alt):
            if i in positions:
                child = trie.steps[positions[i]]
                if child.steps and child.bind is not None:
                    raise Unsupported("an XPath prefix is both used itself and extended")
                if child.steps:
                    per_symbol.append(_patterns(child, sym, rules))
                else:
                    per_symbol.append([[("bind", sym, child.bind)]])
            elif sym in rules:
                per_symbol.append([[("nt", sym)]])
            else:
                if any(ch in _FORBIDDEN_TERMINAL_CHARS for ch in sym):
                    raise Unsupported("terminal text with match-expression meta characters")
                per_symbol.append([[sym]])
        for combo in itertools.product(*per_symbol):
            results.append([e for part in combo for e in part])
    return results


def eliminate_xpath(f, grammar: Grammar, fresh: Fresh, types: Optional[Dict[str, str]] = None):
    """All XPath heads are variables here.  Top-down ("we start from the outside")."""
    rules = _rules(grammar)
    types = dict(types or {})  # variable name -> ('q'|'m'|'n'|'c', nonterminal type)
    types.setdefault("start", ("c", "<start>"))

    def xps_with_head(g, name: str) -> List[XP]:
        out: List[XP] = []
        for t in all_terms(g):
            if isinstance(t, XP) and isinstance(t.head, V) and t.head.name == name and t not in out:
                out.append(t)
        return out

    def replace(g, mapping: Dict[XP, object]):
        return map_terms(g, lambda t: mapping.get(t, t) if isinstance(t, XP) else t)

    def process_binder(name: str, typ: str, kind: str, inn, body, mexpr):
        """Quantifier ``kind typ name[=mexpr] in inn: body`` -> core formula (possibly a
        conjunction / disjunction of copies)."""
        xs = xps_with_head(body, name)
        mvars = [e[2] for e in (mexpr or ()) if not isinstance(e, str) and e[0] == "bind"]
        for mv in mvars:
            if xps_with_head(body, mv):
                raise Unsupported("XPath expression on a variable bound inside a match expression")
        if not xs:
            return Q(kind, typ, name, inn, go(body), mexpr)
        if mexpr is not None:
            raise Unsupported("XPath expression on a variable whose quantifier has a match expression")
        child_xs = [x for x in xs if len(x.segs[0]) > 0]
        if not child_xs:
            # only descendant expressions: universal quantifiers around the body
            return Q(kind, typ, name, inn, go(wrap_descendants(body, name)), None)
        # --- child axis: one trie for all expressions on this variable ---------
        trie = _Trie()
        mapping: Dict[XP, object] = {}
        new_names: List[str] = []
        for x in child_xs:
            node = trie
            for step_type, step_idx in x.segs[0]:
                key = (step_type, 1 if step_idx is None else step_idx)
                if key[1] < 1:
                    raise Unsupported("XPath index < 1")
                node = node.steps.setdefault(key, _Trie())
            if node.steps:
                raise Unsupported("an XPath prefix is both used itself and extended")
            if node.bind is None:
                node.bind = fresh(x.segs[0][-1][0])
                new_names.append(node.bind)
            if len(x.segs) == 1:
                mapping[x] = V(node.bind)
            else:
                mapping[x] = XP(V(node.bind), ((),) + tuple(x.segs[1:]))
        # prefix used and extended (other order of insertion)
        def check(node):
            if node.bind is not None and node.steps:
                raise Unsupported("an XPath prefix is both used itself and extended")
            for ch in node.steps.values():
                check(ch)

        check(trie)
        patterns = _patterns(trie, typ, rules)
        if not patterns:
            raise Unsupported("no alternative offers the XPath steps")
        body2 = replace(body, mapping)
        # descendant expressions on the quantified variable itself and on the new
        # match-expression variables: universal quantifiers directly inside
        body2 = wrap_descendants(body2, name)
        for nn in new_names:
            body2 = wrap_descendants(body2, nn)
        core_body = go(body2)
        copies = [Q(kind, typ, name, inn, core_body, tuple(p)) for p in patterns]
        out = copies[0]
        for c in copies[1:]:
            out = And(out, c) if kind == "forall" else Or(out, c)
        return out

    def wrap_descendants(body, var: str):
        """``forall <d> n in var: ...`` around ``body`` for every expression
        ``var..<d>...`` in it (nested; the order is irrelevant for the meaning)."""
        todo = [x for x in xps_with_head(body, var) if len(x.segs[0]) == 0]
        if not todo:
            return body
        x = todo[0]
        seg = x.segs[1]
        d_type, d_idx = seg[0]
        if d_idx is not None:
            raise Unsupported("index directly after the descendant axis")
        n = fresh(d_type)
        rest_first = tuple(seg[1:])
        rest = (rest_first,) + tuple(x.segs[2:])
        new_term = V(n) if (not rest_first and len(rest) == 1) else XP(V(n), rest)
        body = replace(body, {x: new_term})
        body = wrap_descendants(body, var)  # remaining expressions on var first (inside)
        # the new quantifier is NOT yet in core form: its own XPath expressions
        # (n.<e>..., n..<f>) are handled when ``go`` reaches it.
        return Q("forall", d_type, n, V(var), body, None)

    def go(g):
        if isinstance(g, Q):
            assert g.name is not None and isinstance(g.inn, V)
            return process_binder(g.name, g.type, g.kind, g.inn, g.body, g.mexpr)
        if isinstance(g, QI):
            if xps_with_head(g.body, g.name):
                raise Unsupported("XPath expression on a numeric variable")
            return QI(g.kind, g.name, go(g.body))
        if isinstance(g, Not):
            return Not(go(g.arg))
        if isinstance(g, BIN):
            return type(g)(go(g.left), go(g.right))
        return g

    out = go(f)
    for t in all_terms(out):
        if isinstance(t, XP):
            raise Unsupported(f"XPath expression {_xp_text(t)} has no quantifier to attach to (constant or unbound head)")
    return out


# --------------------------------------------------------------------------- #
# Step 3: connectives, SMT notation, negative literals; Step 4: unique names
# --------------------------------------------------------------------------- #


def expand_connectives(f):
    if isinstance(f, Xor):
        a, b = expand_connectives(f.left), expand_connectives(f.right)
        return Or(And(a, Not(b)), And(b, Not(a)))
    if isinstance(f, Implies):
        a, b = expand_connectives(f.left), expand_connectives(f.right)
        return Or(Not(a), b)
    if isinstance(f, Iff):
        a, b = expand_connectives(f.left), expand_connectives(f.right)
        return Or(And(a, b), And(Not(a), Not(b)))
    if isinstance(f, (And, Or)):
        return type(f)(expand_connectives(f.left), expand_connectives(f.right))
    if isinstance(f, Not):
        return Not(expand_connectives(f.arg))
    if isinstance(f, Q):
        return Q(f.kind, f.type, f.name, f.inn, expand_connectives(f.body), f.mexpr)
    if isinstance(f, QI):
        return QI(f.kind, f.name, expand_connectives(f.body))
    return f


def to_sexpr(f):
    def term(t):
        if isinstance(t, I) and t.value < 0:
            return App("-", (I(-t.value),), "sexpr")
        if isinstance(t, App):
            return App(t.op, tuple(term(a) for a in t.args), "sexpr")
        return t

    if isinstance(f, Smt):
        return Smt(term(f.term))
    if isinstance(f, Pred):
        return f
    if isinstance(f, Not):
        return Not(to_sexpr(f.arg))
    if isinstance(f, (And, Or)):
        return type(f)(to_sexpr(f.left), to_sexpr(f.right))
    if isinstance(f, Q):
        return Q(f.kind, f.type, f.name, f.inn, to_sexpr(f.body), f.mexpr)
    if isinstance(f, QI):
        return QI(f.kind, f.name, to_sexpr(f.body))
    raise TypeError(f)


def unique_names(f, fresh: Fresh):
    """Alpha-rename so that no two binders of the core formula share a name (the
    copies made for several alternatives repeat their bodies)."""
    seen: List[str] = []

    def rename_term(t, env):
        if isinstance(t, V):
            return V(env.get(t.name, t.name))
        if isinstance(t, App):
            return App(t.op, tuple(rename_term(a, env) for a in t.args), t.style)
        return t

    def pick(name: str, typ: str) -> str:
        if name not in seen:
            seen.append(name)
            return name
        new = fresh(typ)
        seen.append(new)
        return new

    def go(g, env):
        if isinstance(g, Smt):
            return Smt(rename_term(g.term, env))
        if isinstance(g, Pred):
            return Pred(g.name, tuple(rename_term(a, env) for a in g.args))
        if isinstance(g, Not):
            return Not(go(g.arg, env))
        if isinstance(g, (And, Or)):
            return type(g)(go(g.left, env), go(g.right, env))
        if isinstance(g, Q):
            inn = rename_term(g.inn, env)
            env2 = dict(env)
            new = pick(g.name, g.type)
            env2[g.name] = new
            mexpr = None
            if g.mexpr is not None:
                elems = []
                for e in g.mexpr:
                    if not isinstance(e, str) and e[0] == "bind":
                        nn = pick(e[2], e[1])
                        env2[e[2]] = nn
                        elems.append(("bind", e[1], nn))
                    else:
                        elems.append(e)
                mexpr = tuple(elems)
            return Q(g.kind, g.type, new, inn, go(g.body, env2), mexpr)
        if isinstance(g, QI):
            env2 = dict(env)
            new = pick(g.name, "n")
            env2[g.name] = new
            return QI(g.kind, new, go(g.body, env2))
        raise TypeError(g)

    return go(f, {})


def desugar(f, grammar: Grammar):
    """Sugared AST -> core AST (raises :class:`Unsupported`)."""
    fresh = Fresh(names_used(f))
    g = name_quantifiers(f, fresh)
    g = close_free_nonterminals(g, fresh)
    g = default_in_start(g)
    g = eliminate_xpath(g, grammar, fresh)
    g = expand_connectives(g)
    g = to_sexpr(g)
    g = unique_names(g, fresh)
    return g
