"""C07: the generated family of ISLa constraints (concrete syntax).

Every case is ``{"g": grammar name, "fam": family, "feat": feature, "sig": coarse
cause-oriented input class, "c": constraint text}``.  ``sig`` is the deterministic
input class used in violation signatures (``fam:feat`` when nothing coarser is
known).  The texts are built from templates over the grammar
profile (own analysis, no ISLa); whether ``parse_isla`` accepts a text is decided
by the check (a rejected text is a *skip*, the property quantifies over accepted
constraints only).
"""

from __future__ import annotations

from typing import Dict, List, Tuple

from bounded.c07_helpers import Profile, profile

# --------------------------------------------------------------------------- #
# critical literals: (class name, text BETWEEN the double quotes in ISLa source)
# --------------------------------------------------------------------------- #

LITERALS: List[Tuple[str, str]] = [
    ("plain", "a"),
    ("empty", ""),
    ("dquote", '\\"'),
    ("dquote-inner", 'a\\"b'),
    ("two-dquotes", '\\"\\"'),
    ("backslash-escaped", "\\\\"),
    ("backslash-escaped-inner", "a\\\\b"),
    ("backslash-before-dquote", '\\\\\\"'),
    ("escape-n", "\\n"),
    ("raw-newline", "\n"),
    ("escape-t", "\\t"),
    ("raw-tab", "\t"),
    ("escape-r", "\\r"),
    ("escape-b", "\\b"),
    ("backslash-other", "\\x"),
    ("non-ascii", "ä"),
    ("non-ascii-inner", "aäb"),
    ("non-bmp", "\U0001F600"),
    ("unicode-escape", "\\u{e4}"),
    ("unicode-escape-ascii", "\\u{61}"),
    ("space", " "),
    ("hash", "#"),
    ("hash-inner", "a # b"),
    ("brace", "{x}"),
    ("bracket", "[x]"),
    ("angle", "<"),
    ("nonterminal-like", "<var>"),
    ("semicolon-colon", ";:"),
    ("paren", ")("),
    ("minus-digit", "-1"),
    ("digits", "007"),
    ("keyword", "forall"),
    ("nul-escape", "\\u{0}"),
]

NAMES: List[str] = [
    "x",
    "start",
    "x_0",
    "x_1",
    "x_00",
    "x-1",
    "x.y",
    "x^",
    "_x",
    "X",
    "x1",
    "in",
    "int",
    "const",
    "forall",
    "exists",
    "iff",
    "implies",
    "xor",
    "true",
    "str",
    "div",
    "abs",
    "n",
    "DUMMY_0",
    "let",
    "ite",
    "String",
    "re.all",
]

# --------------------------------------------------------------------------- #
# SMT-LIB operators of the lexer grammar (IslaLanguage.g4: smt_binary_op,
# SMT_INFIX_RE_STR, SMT_NONBINARY_OP) plus S-expression-only identifiers.
# Each entry: (operator class, notation, atom template with {x} = string variable,
# {a}/{b} = two literals of the variable's language).  "num" entries are used on
# the numeral grammar only.
# --------------------------------------------------------------------------- #

SMT_OPS: List[Tuple[str, str, str]] = [
    ("=", "infix", '{x} = "{a}"'),
    ("=", "sexpr", '(= {x} "{a}")'),
    ("=", "nary-sexpr", '(= {x} "{a}" "{a}")'),
    (">=", "infix", "str.len({x}) >= 1"),
    (">=", "sexpr", "(>= (str.len {x}) 1)"),
    ("<=", "infix", "str.len({x}) <= 1"),
    ("<=", "sexpr", "(<= (str.len {x}) 1)"),
    (">", "infix", "str.len({x}) > 1"),
    (">", "sexpr", "(> (str.len {x}) 1)"),
    ("<", "infix", "str.len({x}) < 2"),
    ("<", "sexpr", "(< (str.len {x}) 2)"),
    ("*", "infix", "str.len({x}) * 2 = 2"),
    ("*", "sexpr", "(= (* (str.len {x}) 2) 2)"),
    ("*", "nary-sexpr", "(= (* (str.len {x}) 2 3) 6)"),
    ("div", "infix", "str.len({x}) div 2 = 0"),
    ("div", "sexpr", "(= (div (str.len {x}) 2) 0)"),
    ("mod", "infix", "str.len({x}) mod 2 = 1"),
    ("mod", "sexpr", "(= (mod (str.len {x}) 2) 1)"),
    ("+", "infix", "str.len({x}) + 1 = 2"),
    ("+", "sexpr", "(= (+ (str.len {x}) 1) 2)"),
    ("+", "nary-sexpr", "(= (+ (str.len {x}) 1 2) 4)"),
    ("-", "infix", "str.len({x}) - 1 = 0"),
    ("-", "sexpr", "(= (- (str.len {x}) 1) 0)"),
    ("-", "unary-sexpr", "(= (- (str.len {x})) (- 1))"),
    ("-", "negative-literal", "str.len({x}) > -1"),
    ("-", "negative-literal-sexpr", "(> (str.len {x}) -1)"),
    ("^", "sexpr", "(= (^ 2 (str.len {x})) 2)"),
    ("re.++", "infix", 'str.in_re({x}, str.to_re("{a}") re.++ re.all)'),
    ("re.++", "sexpr", '(str.in_re {x} (re.++ (str.to_re "{a}") re.all))'),
    ("re.++", "prefix-rejected?", 're.++(str.to_re("{a}"), re.all) = re.all'),
    ("str.++", "infix", '{x} str.++ "{b}" = "{a}{b}"'),
    ("str.++", "sexpr", '(= (str.++ {x} "{b}") "{a}{b}")'),
    ("str.++", "nary-sexpr", '(= (str.++ {x} "{b}" {x}) "{a}{b}{a}")'),
    ("str.<=", "infix", '{x} str.<= "{a}"'),
    ("str.<=", "sexpr", '(str.<= {x} "{a}")'),
    ("and", "sexpr", '(and (= {x} "{a}") (> (str.len {x}) 0))'),
    ("and", "nary-sexpr", '(and (= {x} "{a}") (> (str.len {x}) 0) true)'),
    ("or", "sexpr", '(or (= {x} "{a}") (= {x} "{b}"))'),
    ("=>", "sexpr", '(=> (= {x} "{a}") (= (str.len {x}) 1))'),
    ("xor", "sexpr", '(xor (= {x} "{a}") (= {x} "{b}"))'),
    ("not", "sexpr", '(not (= {x} "{a}"))'),
    ("abs", "prefix", "abs(str.len({x}) - 2) = 1"),
    ("abs", "sexpr", "(= (abs (- (str.len {x}) 2)) 1)"),
    ("re.+", "prefix", 'str.in_re({x}, re.+(str.to_re("{a}")))'),
    ("re.+", "sexpr", '(str.in_re {x} (re.+ (str.to_re "{a}")))'),
    ("re.*", "prefix", 'str.in_re({x}, re.*(str.to_re("{a}")))'),
    ("re.*", "sexpr", '(str.in_re {x} (re.* (str.to_re "{a}")))'),
    ("str.len", "prefix", "str.len({x}) = 1"),
    ("str.in_re", "prefix", 'str.in_re({x}, str.to_re("{a}"))'),
    ("str.to_re", "sexpr", '(str.in_re {x} (str.to_re "{a}"))'),
    ("re.none", "prefix", "str.in_re({x}, re.none)"),
    ("re.none", "sexpr", "(str.in_re {x} re.none)"),
    ("re.all", "prefix", "str.in_re({x}, re.all)"),
    ("re.allchar", "prefix", "str.in_re({x}, re.allchar)"),
    ("re.allchar", "sexpr", "(str.in_re {x} re.allchar)"),
    ("str.at", "prefix", 'str.at({x}, 0) = "{a}"'),
    ("str.at", "sexpr", '(= (str.at {x} 0) "{a}")'),
    ("str.substr", "prefix", 'str.substr({x}, 0, 1) = "{a}"'),
    ("str.substr", "sexpr", '(= (str.substr {x} 0 1) "{a}")'),
    ("str.prefixof", "prefix", 'str.prefixof("{a}", {x})'),
    ("str.prefixof", "sexpr", '(str.prefixof "{a}" {x})'),
    ("str.suffixof", "prefix", 'str.suffixof("{a}", {x})'),
    ("str.suffixof", "sexpr", '(str.suffixof "{a}" {x})'),
    ("str.contains", "prefix", 'str.contains({x}, "{a}")'),
    ("str.contains", "sexpr", '(str.contains {x} "{a}")'),
    ("str.indexof", "prefix", 'str.indexof({x}, "{a}", 0) = 0'),
    ("str.indexof", "sexpr", '(= (str.indexof {x} "{a}" 0) 0)'),
    ("str.replace", "prefix", 'str.replace({x}, "{a}", "{b}") = "{b}"'),
    ("str.replace", "sexpr", '(= (str.replace {x} "{a}" "{b}") "{b}")'),
    ("str.replace_all", "prefix", 'str.replace_all({x}, "{a}", "{b}") = "{b}"'),
    ("str.replace_all", "sexpr", '(= (str.replace_all {x} "{a}" "{b}") "{b}")'),
    ("str.replace_re", "prefix", 'str.replace_re({x}, str.to_re("{a}"), "{b}") = "{b}"'),
    ("str.replace_re", "sexpr", '(= (str.replace_re {x} (str.to_re "{a}") "{b}") "{b}")'),
    ("str.replace_re_all", "prefix", 'str.replace_re_all({x}, str.to_re("{a}"), "{b}") = "{b}"'),
    ("str.replace_re_all", "sexpr", '(= (str.replace_re_all {x} (str.to_re "{a}") "{b}") "{b}")'),
    ("re.union", "prefix", 'str.in_re({x}, re.union(str.to_re("{a}"), str.to_re("{b}")))'),
    ("re.union", "sexpr", '(str.in_re {x} (re.union (str.to_re "{a}") (str.to_re "{b}")))'),
    ("re.inter", "prefix", 'str.in_re({x}, re.inter(re.all, str.to_re("{a}")))'),
    ("re.inter", "sexpr", '(str.in_re {x} (re.inter re.all (str.to_re "{a}")))'),
    ("re.comp", "prefix", 'str.in_re({x}, re.comp(str.to_re("{a}")))'),
    ("re.comp", "sexpr", '(str.in_re {x} (re.comp (str.to_re "{a}")))'),
    ("re.diff", "prefix", 'str.in_re({x}, re.diff(re.all, str.to_re("{a}")))'),
    ("re.diff", "sexpr", '(str.in_re {x} (re.diff re.all (str.to_re "{a}")))'),
    ("re.opt", "prefix", 'str.in_re({x}, re.opt(str.to_re("{a}")))'),
    ("re.opt", "sexpr", '(str.in_re {x} (re.opt (str.to_re "{a}")))'),
    ("re.range", "prefix", 'str.in_re({x}, re.range("a", "c"))'),
    ("re.range", "sexpr", '(str.in_re {x} (re.range "0" "9"))'),
    ("re.loop", "prefix-old-style", 'str.in_re({x}, re.loop(str.to_re("{a}"), 1, 2))'),
    ("re.loop", "sexpr-old-style", '(str.in_re {x} (re.loop (str.to_re "{a}") 1 2))'),
    ("re.loop", "sexpr-indexed", '(str.in_re {x} ((_ re.loop 1 2) (str.to_re "{a}")))'),
    # corner values of the bounds: upper bound 0 (only the empty repetition), lower above upper (empty language)
    ("re.loop", "sexpr-indexed-upper-zero", '(str.in_re {x} ((_ re.loop 0 0) (str.to_re "{a}")))'),
    ("re.loop", "sexpr-indexed-lower-above-upper", '(str.in_re {x} ((_ re.loop 2 0) (str.to_re "{a}")))'),
    ("re.loop", "sexpr-indexed-exact", '(str.in_re {x} ((_ re.loop 3 3) (str.to_re "{a}")))'),
    ("re.^", "sexpr-indexed", '(str.in_re {x} ((_ re.^ 2) (str.to_re "{a}")))'),
    ("str.is_digit", "prefix", "str.is_digit({x})"),
    ("str.is_digit", "sexpr", "(str.is_digit {x})"),
    ("str.to_code", "prefix", "str.to_code({x}) = 97"),
    ("str.to_code", "sexpr", "(= (str.to_code {x}) 97)"),
    ("str.from_code", "prefix", "str.from_code(97) = {x}"),
    ("str.from_code", "sexpr", "(= (str.from_code 97) {x})"),
    ("str.to.int", "prefix", "str.to.int({x}) = 1"),
    ("str.to.int", "sexpr", "(= (str.to.int {x}) 1)"),
    ("str.to_int", "sexpr", "(= (str.to_int {x}) 1)"),
    ("str.from_int", "prefix", "str.from_int(1) = {x}"),
    ("str.from_int", "sexpr", "(= (str.from_int 1) {x})"),
    ("int.to.str", "sexpr", "(= (int.to.str 1) {x})"),
    ("ite", "sexpr", '(ite (= {x} "{a}") (> (str.len {x}) 0) false)'),
    ("ite", "sexpr-term", '(= (ite (= {x} "{a}") 1 2) 1)'),
    ("distinct", "sexpr", '(distinct {x} "{a}")'),
    ("str.<", "sexpr", '(str.< {x} "{b}")'),
    ("true", "atom", "true"),
    ("false", "atom", "false"),
    ("true", "sexpr-eq", '(= true (= {x} "{a}"))'),
]

SMT_OPS_NUM: List[Tuple[str, str, str]] = [
    ("str.to.int", "num-infix", "str.to.int({x}) + 1 > 1"),
    ("str.to.int", "num-negative-literal", "str.to.int({x}) > -1"),
    ("str.to.int", "num-negative-literal-left", "-1 < str.to.int({x})"),
    ("div", "num-infix", "str.to.int({x}) div 2 = 1"),
    ("mod", "num-infix", "str.to.int({x}) mod 2 = 1"),
    ("*", "num-infix-precedence", "str.to.int({x}) + 2 * 3 = 8"),
    ("-", "num-infix-left-assoc", "str.to.int({x}) - 1 - 1 = 0"),
    ("abs", "num-prefix", "abs(str.to.int({x}) - 5) = 3"),
    ("str.from_int", "num-prefix", "str.from_int(str.to.int({x})) = {x}"),
    ("str.is_digit", "num-prefix", "str.is_digit({x})"),
    ("str.to_code", "num-prefix", "str.to_code({x}) >= 48"),
    ("str.<=", "num-infix", '{x} str.<= "1"'),
]


def _case(g: str, fam: str, feat: str, c: str, sig: str = None) -> dict:
    """``sig`` = coarse, cause-oriented input class used in violation signatures
    (defaults to ``fam:feat``)."""
    return {"g": g, "fam": fam, "feat": feat, "c": c, "sig": sig or f"{fam}:{feat}"}


def _alts_with_nts(prof: Profile, nt: str):
    return [alt for alt in prof.rules[nt] if any(s in prof.rules for s in alt)]


_SPECIAL = [('"', "dquote"), ("\\", "backslash"), ("\n", "newline"), ("\t", "tab"), ("ä", "non-ascii"),
            ("{", "brace"), ("}", "brace"), ("[", "bracket"), ("]", "bracket")]


def _terminal_class(symbols, rules) -> str:
    """Class of the terminal text of one alternative with respect to the characters
    that are special in a match expression inside an ISLa string."""
    text = "".join(s for s in symbols if s not in rules)
    found = []
    for ch, cls in _SPECIAL:
        if ch in text and cls not in found:
            found.append(cls)
    return "+".join(found) if found else "plain"


def _xpath_class(prof: Profile, p: str, c: str) -> str:
    """Special-character classes of the terminals in those alternatives of ``p`` that
    contain ``c`` (they end up in the match expressions ISLa generates)."""
    found = []
    for alt in prof.rules[p]:
        if c in alt:
            cls = _terminal_class(alt, prof.rules)
            if cls != "plain":
                for part in cls.split("+"):
                    if part not in found:
                        found.append(part)
    return "+".join(found) if found else "plain"


def _adjacent(prof: Profile, p: str, c: str, d: str) -> bool:
    """Does expanding ``c`` inside an alternative of ``p`` by an alternative that
    contains ``d`` put two terminal symbols next to each other?  (The frontier of
    that partial tree is the match expression ISLa generates for ``p.c.d``.)"""
    for alt in prof.rules[p]:
        for i, sym in enumerate(alt):
            if sym != c:
                continue
            for alt2 in prof.rules[c]:
                if d not in alt2 or not alt2:
                    continue
                left = i > 0 and alt[i - 1] not in prof.rules and alt2[0] not in prof.rules
                right = i + 1 < len(alt) and alt[i + 1] not in prof.rules and alt2[-1] not in prof.rules
                if left or right:
                    return True
    return False


def _mexpr_text(symbols, bind: Dict[int, str], rules) -> str:
    """Concrete match-expression text for one alternative: nonterminal symbol i is
    written ``{<T> name}`` if ``i in bind``; terminals are written with the ISLa
    string escapes (``\\"`` ``\\\\`` ``\\n`` ``\\t``) and ``{{`` ``}}``."""
    out = []
    for i, sym in enumerate(symbols):
        if i in bind:
            out.append("{" + sym + " " + bind[i] + "}")
        elif sym in rules:
            out.append(sym)
        else:
            out.append(isla_escape(sym, mexpr=True))
    return "".join(out)


def isla_escape(s: str, mexpr: bool = False) -> str:
    out = []
    for ch in s:
        if ch == "\\":
            out.append("\\\\")
        elif ch == '"':
            out.append('\\"')
        elif ch == "\n":
            out.append("\\n")
        elif ch == "\t":
            out.append("\\t")
        elif ch == "\r":
            out.append("\\r")
        elif mexpr and ch == "{":
            out.append("{{")
        elif mexpr and ch == "}":
            out.append("}}")
        else:
            out.append(ch)
    return "".join(out)


_LIT_SIG = {"non-ascii-inner": "non-ascii", "dquote-inner": "dquote", "two-dquotes": "dquote",
            "backslash-escaped-inner": "backslash-escaped", "hash-inner": "hash"}

#: which families run on which grammars in the quick tier (thorough: everything
#: everywhere)
QUICK = {
    "smt-literal": ("assgn", "esc"),
    "smt-literal-nested": ("assgn",),
    "smt-literal-two": ("assgn",),
    "pred-string-arg": ("rightrec",),
    "bound-name": ("rightrec",),
    "bound-name-exists-in": ("assgn",),
    "int-name": ("rightrec",),
    "fresh-name-clash": ("assgn", "rightrec"),
    "numeric": ("assgn", "rightrec", "nullable", "csvish", "xmlish"),
    "predicate": ("assgn", "leftrec", "nullable", "multichar", "xmlish"),
    "structure": ("assgn", "rightrec", "nullable", "num", "multichar", "csvish", "altstart"),
    "smt-op": ("rightrec", "num"),
    "smt-op-free": ("rightrec",),
}


def family(name: str, tier: str = "quick") -> List[dict]:
    prof = profile(name, tier)
    occ = prof.occurring()
    if not occ:
        return []
    T = occ[-1]  # a "leaf-ish" nonterminal (defined last)
    U = occ[0]  # the topmost nonterminal below <start>
    a = isla_escape(prof.lit(T, 0))
    b = isla_escape(prof.lit(T, 1))
    tn = T[1:-1]
    cases: List[dict] = []

    def add(fam, feat, c, sig=None):
        if tier == "quick" and fam in QUICK and name not in QUICK[fam]:
            return
        cases.append(_case(name, fam, feat, c, sig))

    # ---- A. string literals of the critical set ------------------------------
    for cls, lit in LITERALS:
        sg = "string-literal:" + _LIT_SIG.get(cls, cls)
        add("smt-literal", cls, f'forall {T} x: x = "{lit}"', sg)
        add("smt-literal-nested", cls, f'str.len({T} str.++ "{lit}") > 1', sg)
        add("pred-string-arg", cls, f'forall {T} x: level("GE", "{lit}", x, x)', "predicate-" + sg)
    for cls, lit in LITERALS[:16]:
        add("smt-literal-two", cls, f'forall {T} x: (x = "{lit}" or x = "{a}{lit}")', "string-literal:" + _LIT_SIG.get(cls, cls))

    # ---- B. names ---------------------------------------------------------------
    for nm, cls in [(n, n) for n in NAMES] + [(tn, "<nonterminal-name>"), (tn + "_0", "<nonterminal-name>_0"), (tn + "_1", "<nonterminal-name>_1")]:
        add("bound-name", cls, f'forall {T} {nm}: {nm} = "{a}"', f"name:{cls}")
        add("bound-name-exists-in", cls, f"forall {U} u: exists {T} {nm} in u: str.len({nm}) > 0", f"name:{cls}")
        add("int-name", cls, f'exists int {nm}: count(start, "{T}", {nm})', f"int-name:{cls}")
    # fresh-name collisions between user names and names made for free nonterminals
    add("fresh-name-clash", "bound-named-like-nonterminal", f"forall {T} {tn}: {tn} = {T}")
    add("fresh-name-clash", "bound-named-like-fresh", f"forall {T} {tn}_0: {tn}_0 = {T}")
    add("fresh-name-clash", "both", f"forall {T} {tn}: forall {T} {tn}_0: ({tn} = {tn}_0 or {tn} = {T})")
    add("fresh-name-clash", "exists-then-free", f'exists {T} {tn}: {tn} = "{a}" and {T} = "{b}"')
    add("fresh-name-clash", "two-quantifiers-same-name", f'forall {T} x: x = "{a}" or forall {T} x: x = "{b}"')
    add("fresh-name-clash", "nested-same-name", f'forall {U} x: exists {T} x in x: x = "{a}"')
    add("fresh-name-clash", "int-named-like-nonterminal", f'exists int {tn}: count({T}, "{T}", {tn})')
    add("fresh-name-clash", "mexpr-var-named-like-outer", f'forall {T} x: exists {T} y="{{{T} x}}": x = "{a}"')
    add("fresh-name-clash", "xpath-var-vs-free", f"exists {U} v: v..{T} = {T}" if T in prof.desc.get(U, []) else f'{T} = "{a}"')

    # ---- C. free nonterminals --------------------------------------------------
    add("free-nonterminal", "single", f'{T} = "{a}"')
    add("free-nonterminal", "start", f'<start> = "{isla_escape(prof.lit("<start>", 0))}"')
    add("free-nonterminal", "start-len", "str.len(<start>) > 2")
    add("free-nonterminal", "start-and-other", f'str.len(<start>) > 2 and {T} = "{a}"')
    add("free-nonterminal", "start-in-predicate", f"inside({T}, <start>)")
    add("free-nonterminal", "start-in-count", f'count(<start>, "{T}", "1")', "free-nonterminal:start-in-predicate")
    add("free-nonterminal", "two-types", f'{T} = "{a}" or str.len({U}) > 3')
    add("free-nonterminal", "same-type-twice", f'{T} = "{a}" or {T} = "{b}"')
    add("free-nonterminal", "in-clause", f'forall {T} x in {U}: x = "{a}"')
    add("free-nonterminal", "in-clause-start", f'forall {T} x in <start>: x = "{a}"')
    add("free-nonterminal", "in-predicate", f"exists {T} x: before(x, {T})")
    add("free-nonterminal", "under-negation", f'not ({T} = "{a}")')
    add("free-nonterminal", "nameless-quantifier", f'forall {T}: {T} = "{a}"')
    add("free-nonterminal", "nameless-exists-in", f'exists {T} in {U}: {T} = "{a}"')
    add("free-nonterminal", "nameless-nested", f'forall {U}: exists {T} in {U}: {T} = "{a}"')
    add("free-nonterminal", "count-needle", f'count({U}, "{T}", "1")')

    # ---- D. XPath expressions ---------------------------------------------------
    heads = [p for p in prof.nts if p != "<start>" and prof.lits[p]]
    if tier == "quick":
        heads = heads[:3]
    for p in heads:
        for c, k in prof.children[p][:2]:
            la = isla_escape(prof.lit(c, 0))
            xc = _xpath_class(prof, p, c)
            sg = "xpath:child" if xc == "plain" else f"xpath:child:generated-mexpr-terminal-{xc}"
            add("xpath", "child-free", f'{p}.{c} = "{la}"', sg)
            add("xpath", "child-bound", f'exists {p} v: v.{c} = "{la}"', sg)
            add("xpath", "child-index-1", f'{p}.{c}[1] = "{la}"', sg)
            if k >= 2:
                add("xpath", "child-index-2", f'{p}.{c}[2] = "{la}"', sg)
                add("xpath", "child-index-1-and-2", f"forall {p} v: v.{c}[1] = v.{c}[2]", sg)
            add("xpath", "child-in-predicate", f"forall {p} v: inside(v.{c}, v)", sg)
            for d, _ in prof.children[c][:1]:
                ld = isla_escape(prof.lit(d, 0))
                xd = _xpath_class(prof, c, d)
                sg2 = "xpath:child-child" if (xc, xd) == ("plain", "plain") else f"xpath:child-child:generated-mexpr-terminal-{xc}/{xd}"
                if sg2 == "xpath:child-child" and _adjacent(prof, p, c, d):
                    sg2 = "xpath:child-child:adjacent-terminals-in-generated-mexpr"
                add("xpath", "child-child", f'{p}.{c}.{d} = "{ld}"', sg2)
                add("xpath", "child-descendant", f'{p}.{c}..{d} = "{ld}"', sg.replace("xpath:child", "xpath:child-descendant"))
        for d in prof.desc[p][-2:]:
            ld = isla_escape(prof.lit(d, 0))
            add("xpath", "descendant-free", f'{p}..{d} = "{ld}"', "xpath:descendant")
            add("xpath", "descendant-bound", f'forall {p} v: v..{d} = "{ld}"', "xpath:descendant-on-named-variable")
            for e, _ in prof.children[d][:1]:
                add("xpath", "descendant-child", f'{p}..{d}.{e} = "{isla_escape(prof.lit(e, 0))}"', "xpath:descendant-child")
    if prof.children.get("<start>"):
        c0 = prof.children["<start>"][0][0]
        add("xpath", "start-child", f'<start>.{c0} = "{isla_escape(prof.lit(c0, 0))}"')
        add("xpath", "start-constant-child", f'start.{c0} = "{isla_escape(prof.lit(c0, 0))}"')

    # ---- E. match expressions ---------------------------------------------------
    for p in prof.nts:
        if not prof.lits[p]:
            continue
        for ai, alt in enumerate(_alts_with_nts(prof, p)[: (3 if tier == "quick" else 8)]):
            nt_pos = [i for i, s in enumerate(alt) if s in prof.rules]
            tc = _terminal_class(alt, prof.rules)
            sg = f"mexpr:terminal-{tc}"
            q = "forall" if ai % 2 == 0 else "exists"
            mv = "s0" if p == "<start>" else "m"
            first = nt_pos[0]
            la = isla_escape(prof.lit(alt[first], 0))
            add("mexpr", f"{tc}:bind-first", f'{q} {p} {mv}="{_mexpr_text(alt, {first: "e1"}, prof.rules)}": e1 = "{la}"', sg)
            add("mexpr", f"{tc}:bind-none", f'{q} {p} {mv}="{_mexpr_text(alt, {}, prof.rules)}": str.len({mv}) > 1', sg)
            if len(nt_pos) >= 2:
                add("mexpr", f"{tc}:bind-two",
                    f'{q} {p} {mv}="{_mexpr_text(alt, {nt_pos[0]: "e1", nt_pos[1]: "e2"}, prof.rules)}": e1 = e2', sg)
                add("mexpr", f"{tc}:bind-last",
                    f'{q} {p} {mv}="{_mexpr_text(alt, {nt_pos[-1]: "e_0"}, prof.rules)}": str.len(e_0) > 0', sg)
    if name == "assgn":
        add("mexpr", "optional", 'forall <stmt> s="{<assgn> x}[ ; <stmt>]": str.len(x) > 5')
        add("mexpr", "optional-deeper", 'exists <stmt> s="<assgn>[ ; <assgn>]": str.len(s) > 6', "mexpr:optional")
        add("mexpr", "optional-and-bound", 'forall <stmt> s="{<var> l} := {<rhs> r}[ ; <stmt>]": l = r', "mexpr:optional")
        add("mexpr", "two-optionals", 'exists <stmt> s="<assgn>[ ; <assgn>][ ; <stmt>]": str.len(s) > 0', "mexpr:optional")
        add("mexpr", "deep", 'forall <assgn> x="<var> := {<var> r}": r = "a"')
        add("mexpr", "nested-quantifier-in", 'forall <stmt> s="{<assgn> x} ; {<stmt> t}": exists <var> v in t: x = v')
        add("mexpr", "whole", 'forall <var> v="{<var> w}": w = "a"')
    if name == "nullable":
        add("mexpr", "optional-nullable", 'forall <start> s0="[-]{<body> b}<tail>": str.len(b) > 1', "mexpr:optional")
        add("mexpr", "terminal-dot", 'exists <tail> t=".{<body> b}": b = "n"')
    if name == "csvish":
        add("mexpr", "optional-with-escape-n", 'forall <csv> c="{<row> r}[\\n<csv>]": str.len(r) > 0', "mexpr:optional-with-escape")
        add("mexpr", "raw-newline", 'exists <csv> c="{<row> r}\n{<csv> d}": str.len(r) > 0')
    if name == "multichar":
        add("mexpr", "keywords", 'forall <stmt> s="if {<cond> c} then <stmt> else <stmt>": c = "true"')
        add("mexpr", "optional-keyword", 'forall <cond> c="[not ]{<cond> d}": str.len(d) > 3', "mexpr:optional")

    # ---- F. numeric quantifiers -------------------------------------------------
    add("numeric", "exists-count", f'exists int n: count(start, "{T}", n)')
    add("numeric", "exists-count-bounds", f'exists int n: (str.to.int(n) >= 2 and count(start, "{T}", n))')
    add("numeric", "forall-int", f'forall int n: (str.to.int(n) > 3 implies not count(start, "{T}", n))')
    add("numeric", "nested", f'exists int n: exists int m: (count(start, "{T}", n) and count(start, "{U}", m) and str.to.int(n) >= str.to.int(m))')
    add("numeric", "under-tree-quantifier", f'forall {U} u: exists int n: (count(u, "{T}", n) and str.to.int(n) > 0)')
    add("numeric", "tree-quantifier-under-int", f'exists int n: forall {U} u: count(u, "{T}", n)')
    add("numeric", "free-nonterminal-under-int", f'exists int n: count({U}, "{T}", n)')
    add("numeric", "pure-smt", "exists int n: str.to.int(n) = 3")
    add("numeric", "negated", f'not (exists int n: (count(start, "{T}", n) and str.to.int(n) > 1))')

    # ---- G. predicates ----------------------------------------------------------
    for pred in ("before", "after", "inside", "same_position", "different_position", "direct_child", "consecutive"):
        add("predicate", pred, f"forall {T} x: exists {T} y: {pred}(x, y)")
    add("predicate", "inside-free", f"inside({T}, {U})")
    add("predicate", "count-literal", f'count(start, "{T}", "2")')
    add("predicate", "count-int-literal", f'count(start, "{T}", 2)')
    add("predicate", "count-free", f'count({U}, "{T}", "1")')
    add("predicate", "nth-string", f'forall {U} u: exists {T} x in u: nth("1", x, u)')
    add("predicate", "nth-int", f"forall {U} u: exists {T} x in u: nth(1, x, u)")
    add("predicate", "nth-two", f'forall {U} u: forall {T} x in u: (nth("2", x, u) implies not x = "{a}")')
    for op in ("EQ", "GE", "LE", "GT", "LT"):
        add("predicate", f"level-{op}", f'forall {T} x: forall {T} y: (level("{op}", "{U}", x, y) or not before(x, y))', "predicate:level")
    add("predicate", "unknown-predicate", f"forall {T} x: frobnicate(x)")

    # ---- H. SMT-LIB operators ---------------------------------------------------
    if name != "num":
        for op, notation, tmpl in SMT_OPS:
            sg = f"smt-op:{op}" + ("-unindexed" if "old-style" in notation else "")
            add("smt-op", f"{op}:{notation}", f"forall {T} x: " + tmpl.format(x="x", a=a, b=b), sg)
        for op, notation, tmpl in SMT_OPS[:40:3]:
            add("smt-op-free", f"{op}:{notation}", tmpl.format(x=T, a=a, b=b), f"smt-op:{op}")
    else:
        for op, notation, tmpl in SMT_OPS_NUM:
            add("smt-op", f"{op}:{notation}", "forall <digit> x: " + tmpl.format(x="x"), f"smt-op:{op}")
            add("smt-op", f"{op}:{notation}:digits", "forall <digits> x: " + tmpl.format(x="x"), f"smt-op:{op}")

    # ---- I. propositional structure, layout --------------------------------------
    A, B, C = f'{T} = "{a}"', f'{T} = "{b}"', f"str.len({U}) > 3"
    add("structure", "and-3", f"{A} and {B} and {C}")
    add("structure", "or-3", f"{A} or {B} or {C}")
    add("structure", "and-or-precedence", f"{A} and {B} or {C}")
    add("structure", "or-and-precedence", f"{A} or {B} and {C}")
    add("structure", "implies", f"{A} implies {C}")
    add("structure", "iff", f"{A} iff {C}")
    add("structure", "xor", f"{A} xor {C}")
    add("structure", "not-not", f"not not {A}")
    add("structure", "not-and", f"not ({A} and {C})")
    add("structure", "not-quantifier", f'not (exists {T} x: x = "{a}")')
    add("structure", "not-forall-mix", f'forall {U} u: not (forall {T} x in u: (x = "{a}" or x = "{b}"))')
    add("structure", "parens", f"(({A}))")
    add("structure", "comment", f"# leading comment\n{A} # trailing\n")
    add("structure", "layout", f'forall   {T}\n\tx\n:\n  x   =   "{a}"')
    add("structure", "const-decl", f"const start: <start>;\n{A}")
    add("structure", "const-decl-other-name", f'const c: <start>;\nforall {T} x in c: x = "{a}"')
    add("structure", "true-conjunct", f"true and {A}")
    add("structure", "false-disjunct", f"false or {A}")
    add("structure", "same-twice", f"{A} and {A}")
    add("structure", "contradiction", f'forall {T} x: (x = "{a}" and not x = "{a}")')
    add("structure", "quantifier-binds-tighter", f'forall {T} x: x = "{a}" or {C}')
    return cases
