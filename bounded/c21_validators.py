"""Independent validators for property C21 (shipped formalizations).

Nothing in this module imports ISLa.  Every validator takes the *string* of a
solution (plus, for reST, plain-JSON "facts" that the worker extracted from the
derivation tree by its own traversal) and returns a list of breaches

    [(rule_class, detail), ...]          # empty list == valid

`rule_class` is a short stable identifier without spaces; it becomes part of
the violation signature `solve:<formalization>:<rule_class>`.

What each validator demands is what the shipped constraint formalizes
(/repo/src/isla_formalizations/{csv,xml_lang,rest,simple_tar}.py), read from
the constraint texts and re-implemented from their wording:

CSV   (CSV_COLNO_PROPERTY)  every record, header included, has the same number
      >= 1 of fields; record = fields separated by `;` terminated by `\\n`;
      a field is either unquoted (no `"`, `;`, newline) or `"`...`"` whose
      body may contain `;` and newlines but no `"` (the shipped grammar has no
      `""` escape).
XML   (WELLFORMEDNESS & NAMESPACE & NO_ATTR_REDEF)
      tag-mismatch       open tag name == close tag name
      undeclared-prefix  a prefix p of an element name `p:x` or of an
                         attribute name `p:a` (p != xmlns) is declared by an
                         attribute `xmlns:p` on that element or on an ancestor
                         (the XML rule; the shipped constraint is even stricter:
                         it wants the declaring element to be an open/close
                         element); the prefix `xmlns` can never be declared
      xmlns-redeclared   no attribute `xmlns:xmlns`
      duplicate-attribute no two attributes of one element with the same
                         (textual, qualified) name
reST  (LENGTH_UNDERLINE & DEF_LINK_TARGETS & NO_LINK_TARGET_REDEF &
       LIST_NUMBERING_CONSECUTIVE)
      short-underline    len(underline) >= len(title text) > 0
      undefined-link-target  every reference `x_` has a label `.. _x:`
      duplicate-link-target  no two labels with the same id
      list-numbering     adjacent items of one enumeration are numbered n, n+1
                         with n > 0
      docutils-*         see `rest_docutils_messages`
TAR   (TAR_CONSTRAINTS of simple_tar)  entry = file_name[100] checksum[8]
      typeflag[1] linked_file_name[100] "CONTENT"
      field-length / field-encoding / checksum / dangling-link
"""
from __future__ import annotations

import csv as _pycsv
import io
import re
import string
from typing import Any, Dict, List, Optional, Tuple

Breach = Tuple[str, str]


# ---------------------------------------------------------------------------
# CSV
# ---------------------------------------------------------------------------

class CsvSyntaxError(Exception):
    pass


def csv_read(s: str) -> List[List[str]]:
    """Own reader for the shipped CSV dialect: delimiter `;`, record terminator
    `\\n`, quoted fields `"..."` (body: anything but `"`), unquoted fields may
    not contain `"`.  Returns the list of records (list of raw field texts)."""
    rows: List[List[str]] = []
    i, n = 0, len(s)
    if n == 0:
        raise CsvSyntaxError("empty file")
    while i < n:
        row: List[str] = []
        while True:
            if i < n and s[i] == '"':
                j = s.find('"', i + 1)
                if j < 0:
                    raise CsvSyntaxError(f"unterminated quoted field at {i}")
                row.append(s[i:j + 1])
                i = j + 1
                if i >= n or s[i] not in ";\n":
                    raise CsvSyntaxError(f"garbage after quoted field at {i}")
            else:
                j = i
                while j < n and s[j] not in ';\n':
                    if s[j] == '"':
                        raise CsvSyntaxError(f"quote inside unquoted field at {j}")
                    j += 1
                if j >= n:
                    raise CsvSyntaxError("last record not terminated by newline")
                row.append(s[i:j])
                i = j
            # s[i] is ';' or '\n'
            if s[i] == ';':
                i += 1
                if i >= n:
                    raise CsvSyntaxError("file ends after delimiter")
                continue
            i += 1  # newline: record finished
            break
        rows.append(row)
    return rows


def csv_pyreader_counts(s: str) -> Optional[List[int]]:
    """Column counts according to Python's csv module (cross-check only)."""
    try:
        rd = _pycsv.reader(io.StringIO(s, newline=""), delimiter=";", quotechar='"',
                           doublequote=True, strict=True, lineterminator="\n")
        return [len(r) for r in rd]
    except Exception:
        return None


def validate_csv(s: str) -> List[Breach]:
    try:
        rows = csv_read(s)
    except CsvSyntaxError as e:
        return [("syntax", str(e))]
    counts = [len(r) for r in rows]
    out: List[Breach] = []
    if not rows or min(counts) < 1:
        out.append(("no-columns", f"column counts {counts}"))
    if len(set(counts)) > 1:
        out.append(("ragged-columns", f"column counts per record {counts}"))
    return out


def csv_stats(s: str) -> Dict[str, Any]:
    try:
        rows = csv_read(s)
    except CsvSyntaxError:
        return {"rows": 0, "cols": 0, "quoted_special": False}
    return {"rows": len(rows), "cols": len(rows[0]) if rows else 0,
            "quoted_special": any((";" in f or "\n" in f) for r in rows for f in r
                                  if f.startswith('"'))}


# ---------------------------------------------------------------------------
# XML
# ---------------------------------------------------------------------------

class XmlSyntaxError(Exception):
    pass


_NAME = r"[A-Za-z_][-.A-Za-z0-9_]*"
_QNAME_RE = re.compile(rf"{_NAME}(?::{_NAME})?")
_ATTVAL_RE = re.compile(r'"([^"<]*)"')


class XmlElem:
    __slots__ = ("name", "attrs", "children", "close", "selfclosing")

    def __init__(self, name):
        self.name = name
        self.attrs: List[Tuple[str, str]] = []
        self.children: List[Any] = []      # XmlElem or str (text)
        self.close: Optional[str] = None
        self.selfclosing = False


def xml_tokenize(s: str) -> XmlElem:
    """Recursive-descent reader for the XML subset of the shipped grammar:
    one root element, attributes `name="value"` separated by single blanks,
    text without `<`; no comments/PIs/CDATA/doctype."""

    def element(i: int) -> Tuple[XmlElem, int]:
        if i >= len(s) or s[i] != "<":
            raise XmlSyntaxError(f"expected '<' at {i}")
        m = _QNAME_RE.match(s, i + 1)
        if not m:
            raise XmlSyntaxError(f"expected element name at {i + 1}")
        el = XmlElem(m.group(0))
        i = m.end()
        while i < len(s) and s[i] == " ":
            m = _QNAME_RE.match(s, i + 1)
            if not m:
                raise XmlSyntaxError(f"expected attribute name at {i + 1}")
            aname = m.group(0)
            i = m.end()
            if i >= len(s) or s[i] != "=":
                raise XmlSyntaxError(f"expected '=' at {i}")
            m = _ATTVAL_RE.match(s, i + 1)
            if not m:
                raise XmlSyntaxError(f"expected quoted attribute value at {i + 1}")
            el.attrs.append((aname, m.group(1)))
            i = m.end()
        if s.startswith("/>", i):
            el.selfclosing = True
            return el, i + 2
        if i >= len(s) or s[i] != ">":
            raise XmlSyntaxError(f"expected '>' at {i}")
        i += 1
        while True:
            if i >= len(s):
                raise XmlSyntaxError("unexpected end of input inside element " + el.name)
            if s.startswith("</", i):
                m = _QNAME_RE.match(s, i + 2)
                if not m:
                    raise XmlSyntaxError(f"expected close tag name at {i + 2}")
                el.close = m.group(0)
                i = m.end()
                if i >= len(s) or s[i] != ">":
                    raise XmlSyntaxError(f"expected '>' at {i}")
                return el, i + 1
            if s[i] == "<":
                child, i = element(i)
                el.children.append(child)
            else:
                j = s.find("<", i)
                if j < 0:
                    raise XmlSyntaxError("text runs to end of input")
                el.children.append(s[i:j])
                i = j

    root, end = element(0)
    if end != len(s):
        raise XmlSyntaxError(f"trailing input at {end}")
    return root


_ENTITY_RE = re.compile(r"&(?:quot|amp|lt|gt|apos|#[0-9]+|#x[0-9A-Fa-f]+);")


def _bad_ampersand(text: str) -> bool:
    return "&" in _ENTITY_RE.sub("", text)


def validate_xml_own(s: str) -> List[Breach]:
    try:
        root = xml_tokenize(s)
    except XmlSyntaxError as e:
        return [("malformed-markup", str(e))]
    out: List[Breach] = []

    def prefix(qn: str) -> Optional[str]:
        return qn.split(":", 1)[0] if ":" in qn else None

    def visit(el: XmlElem, declared: frozenset):
        here = set(declared)
        names = [a for a, _ in el.attrs]
        for a, v in el.attrs:
            if a.startswith("xmlns:"):
                p = a.split(":", 1)[1]
                if p == "xmlns":
                    out.append(("xmlns-redeclared", f"attribute {a} on <{el.name}>"))
                else:
                    here.add(p)
            if _bad_ampersand(v):
                out.append(("malformed-markup", f"bare & in attribute value {v!r}"))
        dups = sorted({a for a in names if names.count(a) > 1})
        if dups:
            out.append(("duplicate-attribute", f"<{el.name}> has attribute(s) {dups} more than once"))
        p = prefix(el.name)
        if p is not None and p not in here:
            out.append(("undeclared-prefix", f"element <{el.name}>: prefix {p!r} not declared "
                                              f"(in scope: {sorted(here)})"))
        for a in names:
            p = prefix(a)
            if p is not None and p != "xmlns" and p not in here:
                out.append(("undeclared-prefix", f"attribute {a} of <{el.name}>: prefix {p!r} not "
                                                  f"declared (in scope: {sorted(here)})"))
        if not el.selfclosing and el.close != el.name:
            out.append(("tag-mismatch", f"<{el.name}> closed by </{el.close}>"))
        for c in el.children:
            if isinstance(c, XmlElem):
                visit(c, frozenset(here))
            elif _bad_ampersand(c):
                out.append(("malformed-markup", f"bare & in text {c!r}"))

    visit(root, frozenset())
    return out


def xml_etree_verdict(s: str) -> Tuple[bool, str]:
    """(accepted, short class of the expat error)"""
    import xml.etree.ElementTree as ET
    try:
        ET.fromstring(s)
        return True, ""
    except ET.ParseError as e:
        msg = str(e)
        cls = re.sub(r":? line \d+, column \d+$", "", msg)
        cls = re.sub(r"[^a-z0-9]+", "-", cls.lower()).strip("-")
        return False, cls


# expat error classes -> our rule classes
_EXPAT_TO_RULE = {
    "mismatched-tag": "tag-mismatch",
    "unbound-prefix": "undeclared-prefix",
    "duplicate-attribute": "duplicate-attribute",
    "reserved-prefix-xmlns-must-not-be-declared-or-undeclared": "xmlns-redeclared",
}


def validate_xml(s: str) -> Tuple[List[Breach], Dict[str, Any]]:
    """own rule check + xml.etree cross-check.
    info: {'etree_ok', 'etree_class', 'outside': str|None, 'inconsistent': str|None}
      outside      etree rejects for a reason that none of the shipped constraints
                   formalizes (reserved prefix xml, duplicate *expanded* attribute name)
      inconsistent own checker and etree disagree in a way that means one of the two
                   validators is wrong (checker error, not a violation)"""
    own = validate_xml_own(s)
    ok, cls = xml_etree_verdict(s)
    info: Dict[str, Any] = {"etree_ok": ok, "etree_class": cls, "outside": None,
                            "inconsistent": None}
    breaches = list(own)
    own_classes = {c for c, _ in own}
    if not ok:
        mapped = _EXPAT_TO_RULE.get(cls)
        if mapped is not None:
            if mapped not in own_classes:
                if cls == "duplicate-attribute":
                    # expat compares expanded names (p:a / q:a with equal namespace names)
                    info["outside"] = "duplicate-expanded-attribute-name"
                elif not own:
                    info["inconsistent"] = f"etree says {cls} but own checker finds no breach"
        elif cls.startswith("reserved-prefix-xml-"):
            info["outside"] = "reserved-prefix-xml-bound"
        elif not own:
            breaches.append(("etree-not-wellformed:" + cls, f"xml.etree rejects: {cls}"))
    else:
        hard = own_classes & {"tag-mismatch", "duplicate-attribute", "malformed-markup",
                              "xmlns-redeclared"}
        if hard:
            info["inconsistent"] = f"own checker reports {sorted(hard)} but etree accepts"
        elif "undeclared-prefix" in own_classes:
            # only legitimate for the predeclared prefix `xml`
            if not all("prefix 'xml'" in d for c, d in own if c == "undeclared-prefix"):
                info["inconsistent"] = "own checker reports undeclared prefix but etree accepts"
    return breaches, info


def xml_stats(s: str) -> Dict[str, Any]:
    try:
        root = xml_tokenize(s)
    except XmlSyntaxError:
        return {}
    st = {"elements": 0, "openclose_pairs": 0, "prefixed_names": 0, "multi_attr": 0,
          "xmlns_decls": 0, "depth": 0}

    def visit(el, d):
        st["elements"] += 1
        st["depth"] = max(st["depth"], d)
        if not el.selfclosing:
            st["openclose_pairs"] += 1
        if ":" in el.name:
            st["prefixed_names"] += 1
        if len(el.attrs) > 1:
            st["multi_attr"] += 1
        for a, _ in el.attrs:
            if a.startswith("xmlns:"):
                st["xmlns_decls"] += 1
            elif ":" in a:
                st["prefixed_names"] += 1
        for c in el.children:
            if isinstance(c, XmlElem):
                visit(c, d + 1)

    visit(root, 1)
    return st


# ---------------------------------------------------------------------------
# reST
# ---------------------------------------------------------------------------

def rest_string_links(s: str) -> Tuple[List[str], List[str], List[str]]:
    """(reference ids, label ids, malformed) from the *string* alone.  In the
    shipped grammar `_` only occurs in a label `.. _x:` or in a reference `x_`
    (it is removed from every other character class), so every underscore is
    classified by its neighbours."""
    refs, labels, bad = [], [], []
    for j, ch in enumerate(s):
        if ch != "_":
            continue
        prev = s[j - 1] if j > 0 else ""
        if prev and prev in string.ascii_lowercase:
            refs.append(prev)
        elif s[max(0, j - 3):j] == ".. " and (j == 3 or s[j - 4] == "\n") \
                and j + 2 < len(s) and s[j + 1] in string.ascii_lowercase and s[j + 2] == ":":
            labels.append(s[j + 1])
        else:
            bad.append(f"underscore at offset {j} is neither label nor reference")
    return refs, labels, bad


def validate_rest_rules(s: str, facts: Optional[Dict[str, Any]]) -> List[Breach]:
    """facts (from the worker's own traversal of the derivation tree):
       titles: [[title_text, underline], ...]
       enumerations: [[number_str, ...], ...]   (items of one <enumeration>, in order)
       refs / labels: [id, ...]
    Link rules are checked on the string (unambiguous) and compared with the
    tree facts; underline/numbering rules are anchored on the tree facts
    because the shipped grammar is ambiguous at string level (a paragraph may
    spell `abc\\n--`), and each fact must occur in the string as whole lines."""
    out: List[Breach] = []
    refs, labels, bad = rest_string_links(s)
    for b in bad:
        out.append(("malformed-link-markup", b))
    lab = set(labels)
    missing = sorted({r for r in refs if r not in lab})
    if missing:
        out.append(("undefined-link-target", f"reference(s) {[m + '_' for m in missing]} without "
                                              f"label; labels defined: {sorted(lab)}"))
    dup = sorted({l for l in labels if labels.count(l) > 1})
    if dup:
        out.append(("duplicate-link-target", f"label(s) {dup} defined more than once"))
    if facts is not None:
        if sorted(facts.get("refs", [])) != sorted(refs) or sorted(facts.get("labels", [])) != sorted(labels):
            out.append(("facts-mismatch", f"tree refs/labels {facts.get('refs')}/{facts.get('labels')} "
                                          f"!= string refs/labels {refs}/{labels}"))
        lines = s.split("\n")
        for title, underline in facts.get("titles", []):
            if not (len(title) > 0 and len(underline) >= len(title)):
                out.append(("short-underline", f"title {title!r} (len {len(title)}) underlined by "
                                               f"{underline!r} (len {len(underline)})"))
            if not any(lines[i] == title and lines[i + 1] == underline
                       for i in range(len(lines) - 1)):
                out.append(("facts-mismatch", f"title {title!r}/{underline!r} not found as two lines"))
        for nums in facts.get("enumerations", []):
            vals = []
            for x in nums:
                if not re.fullmatch(r"[0-9]+", x):
                    out.append(("list-numbering", f"item number {x!r} is not a numeral"))
                    vals = None
                    break
                vals.append(int(x))
            if vals is None:
                continue
            for a, b in zip(vals, vals[1:]):
                if not (b == a + 1 and a > 0):
                    out.append(("list-numbering", f"adjacent items numbered {a} then {b} in "
                                                  f"enumeration {nums}"))
                    break
    return out


_DOCUTILS_HDR = re.compile(r"^<string>:(?:(\d+):)? \((DEBUG|INFO|WARNING|ERROR|SEVERE)/(\d)\) (.*)$")


def _msg_class(text: str) -> str:
    first = text.strip().split("\n", 1)[0]
    first = re.split(r'[:"]', first, 1)[0]
    return re.sub(r"[^a-z0-9]+", "-", first.lower()).strip("-")[:60] or "empty"


def rest_docutils_messages(s: str) -> Tuple[List[Tuple[int, str, str]], Dict[str, int]]:
    """All docutils system messages (level, short class, first line) for the
    input, INFO included, and counts of rendered node kinds."""
    from docutils import nodes
    from docutils.core import publish_doctree
    stream = io.StringIO()
    doc = publish_doctree(s, settings_overrides={
        "input_encoding": "unicode", "report_level": 1, "halt_level": 5,
        "warning_stream": stream, "file_insertion_enabled": False, "raw_enabled": False,
        "traceback": True})   # let exceptions propagate instead of sys.exit(1)
    seen, msgs = set(), []
    for m in list(doc.findall(nodes.system_message)) + list(doc.transform_messages):
        if id(m) in seen:
            continue
        seen.add(id(m))
        # system_message.astext() prepends "<source>:<line>: (LEVEL/n) "; the message
        # proper is the first child paragraph
        text = m.children[0].astext() if len(m.children) else m.astext()
        h = _DOCUTILS_HDR.match(text.split("\n", 1)[0])
        if h:
            text = h.group(4)
        msgs.append((int(m["level"]), _msg_class(text), text.split("\n", 1)[0][:120]))
    # the warning stream is what the authors' render_rst looks at: make sure the
    # object view did not miss a reported message
    for line in stream.getvalue().split("\n"):
        h = _DOCUTILS_HDR.match(line)
        if h:
            lvl, cls = int(h.group(3)), _msg_class(h.group(4))
            if not any(l == lvl and c == cls for l, c, _ in msgs):
                msgs.append((lvl, cls, h.group(4)[:120]))
    kinds = {"title": 0, "subtitle": 0, "enumerated_list": 0, "target": 0, "reference": 0}
    for n in doc.findall():
        t = getattr(n, "tagname", None)
        if t in kinds:
            kinds[t] += 1
    return msgs, kinds


# docutils message classes that are the string-level face of a formalized rule
REST_DOCUTILS_RULE_CLASSES = {
    "title-underline-too-short": "short-underline",
    "unknown-target-name": "undefined-link-target",
    "duplicate-explicit-target-name": "duplicate-link-target",
}


# ---------------------------------------------------------------------------
# simple TAR
# ---------------------------------------------------------------------------

# file name characters: printable ASCII without whitespace = 0x21..0x7e ("!-~")
_TAR_FNAME_RE = re.compile(r"[A-Za-z0-9_][!-~]*\x00*\Z")
_TAR_LINK_RE = re.compile(r"(?:[A-Za-z0-9_][!-~]*\x00*|\x00+)\Z")
_TAR_CK_RE = re.compile(r"[0-7]{6}\x00 \Z")
TAR_ENTRY_LEN = 100 + 8 + 1 + 100 + len("CONTENT")
# loose sequential reader used only to diagnose entries whose fields have wrong widths
_TAR_LOOSE_RE = re.compile(
    r"(?P<fn>[A-Za-z0-9_][!-~]*?\x00*)(?P<ck>[0-7]+\x00 )(?P<tf>[02])"
    r"(?P<ln>[A-Za-z0-9_][!-~]*?\x00*|\x00+)CONTENT")


def tar_checksum_of(file_name: str, typeflag: str, linked: str) -> str:
    total = sum((file_name + " " * 8 + typeflag + linked).encode("latin-1"))
    return "%06o\x00 " % total


def tar_split(s: str) -> List[Dict[str, str]]:
    if len(s) == 0 or len(s) % TAR_ENTRY_LEN != 0:
        raise ValueError(f"length {len(s)} is not a positive multiple of {TAR_ENTRY_LEN}")
    ents = []
    for o in range(0, len(s), TAR_ENTRY_LEN):
        e = s[o:o + TAR_ENTRY_LEN]
        ents.append({"file_name": e[0:100], "checksum": e[100:108], "typeflag": e[108],
                     "linked_file_name": e[109:209], "content": e[209:]})
    return ents


def validate_tar(s: str) -> List[Breach]:
    out: List[Breach] = []
    try:
        ents = tar_split(s)
    except ValueError as e:
        # diagnose with the loose reader
        pos, widths = 0, []
        while pos < len(s):
            m = _TAR_LOOSE_RE.match(s, pos)
            if not m:
                break
            widths.append((len(m.group("fn")), len(m.group("ck")), len(m.group("ln"))))
            pos = m.end()
        return [("field-length", f"{e}; (file_name, checksum, linked_file_name) widths seen by a "
                                 f"loose reader: {widths[:6]}")]
    for k, e in enumerate(ents):
        if e["content"] != "CONTENT":
            out.append(("field-length", f"entry {k}: content field is {e['content']!r} "
                                        f"(fields are not 100/8/1/100 wide)"))
            continue
        if not _TAR_FNAME_RE.match(e["file_name"]):
            out.append(("field-encoding", f"entry {k}: file_name {e['file_name'].rstrip(chr(0))!r}"
                                          f" is not name chars then NUL padding"))
        if not _TAR_LINK_RE.match(e["linked_file_name"]):
            out.append(("field-encoding", f"entry {k}: linked_file_name "
                                          f"{e['linked_file_name'].rstrip(chr(0))!r} is not name "
                                          f"chars then NUL padding / all NUL"))
        if e["typeflag"] not in "02":
            out.append(("field-encoding", f"entry {k}: typeflag {e['typeflag']!r}"))
        if not _TAR_CK_RE.match(e["checksum"]):
            out.append(("field-encoding", f"entry {k}: checksum field {e['checksum']!r} is not six "
                                          f"octal digits, NUL, space"))
        want = tar_checksum_of(e["file_name"], e["typeflag"], e["linked_file_name"])
        if e["checksum"] != want:
            out.append(("checksum", f"entry {k}: checksum field {e['checksum']!r}, recomputed "
                                    f"{want!r}"))
    if not out:
        names = [e["file_name"].rstrip("\x00") for e in ents]
        for k, e in enumerate(ents):
            tgt = e["linked_file_name"].rstrip("\x00")
            if e["typeflag"] == "2" and tgt != "":
                if not any(j != k and names[j] == tgt for j in range(len(ents))):
                    out.append(("dangling-link", f"entry {k} is a link to {tgt!r} but no other "
                                                 f"entry has that file name (names: {names[:6]})"))
    return out


def tar_stats(s: str) -> Dict[str, Any]:
    try:
        ents = tar_split(s)
    except ValueError:
        return {}
    return {"entries": len(ents),
            "links": sum(1 for e in ents if e["typeflag"] == "2"),
            "links_with_target": sum(1 for e in ents if e["typeflag"] == "2"
                                     and e["linked_file_name"].rstrip("\x00") != "")}


# ---------------------------------------------------------------------------
# sanity corpus: (formalization, input, facts, expected set of rule classes)
# ---------------------------------------------------------------------------

def _tar_entry(name: str, flag: str, link: str, ck: Optional[str] = None) -> str:
    fn = name.ljust(100, "\x00")
    ln = link.ljust(100, "\x00")
    return fn + (ck if ck is not None else tar_checksum_of(fn, flag, ln)) + flag + ln + "CONTENT"


SANITY: List[Tuple[str, str, Optional[Dict[str, Any]], set]] = [
    ("csv", 'a;b;c\n1;"x;y\nz";3\n', None, set()),
    ("csv", '"";  q ;r\n', None, set()),
    ("csv", 'a;b;c\n1;2\n', None, {"ragged-columns"}),
    ("csv", 'a;"b;c"\n1;2;3\n', None, {"ragged-columns"}),
    ("csv", 'a;b\n1;2', None, {"syntax"}),
    ("csv", 'a;b"c\n', None, {"syntax"}),
    ("xml", '<a xmlns:p="u" q="1"><p:b p:c="2" d="3">t</p:b><e/></a>', None, set()),
    ("xml", '<p:a xmlns:p="u">x</p:a>', None, set()),
    ("xml", '<a><b>t</c></a>', None, {"tag-mismatch"}),
    ("xml", '<a x="1" x="2"/>', None, {"duplicate-attribute"}),
    ("xml", '<a><p:b/></a>', None, {"undeclared-prefix"}),
    ("xml", '<a p:x="1"/>', None, {"undeclared-prefix"}),
    ("xml", '<a><b xmlns:p="u"/><p:c/></a>', None, {"undeclared-prefix"}),
    ("xml", '<a xmlns:xmlns="u"/>', None, {"xmlns-redeclared"}),
    ("rest", "Title\n=====\n\n.. _a:\n\nsee a_ here\n\n3. x\n4. y\n",
     {"titles": [["Title", "====="]], "enumerations": [["3", "4"]], "refs": ["a"], "labels": ["a"]},
     set()),
    ("rest", "Title\n===\n", {"titles": [["Title", "==="]], "enumerations": [], "refs": [],
                              "labels": []}, {"short-underline"}),
    ("rest", "Longer title\n-------\n", {"titles": [["Longer title", "-------"]],
                                         "enumerations": [], "refs": [], "labels": []},
     {"short-underline", "docutils-warning:title-underline-too-short"}),
    ("rest", "x b_ y\n", {"titles": [], "enumerations": [], "refs": ["b"], "labels": []},
     {"undefined-link-target", "docutils-error:unknown-target-name"}),
    ("rest", ".. _a:\n\nfoo\n\n.. _a:\n\nbar\n",
     {"titles": [], "enumerations": [], "refs": [], "labels": ["a", "a"]},
     {"duplicate-link-target", "docutils-warning:duplicate-explicit-target-name"}),
    ("rest", "1. x\n3. y\n", {"titles": [], "enumerations": [["1", "3"]], "refs": [],
                              "labels": []}, {"list-numbering"}),
    ("rest", "0. x\n1. y\n", {"titles": [], "enumerations": [["0", "1"]], "refs": [],
                              "labels": []}, {"list-numbering"}),
    ("tar", _tar_entry("file.txt", "0", ""), None, set()),
    ("tar", _tar_entry("a", "0", "") + _tar_entry("b", "2", "a"), None, set()),
    ("tar", _tar_entry("file.txt", "0", "", ck="000000\x00 "), None, {"checksum"}),
    ("tar", _tar_entry("file.txt", "0", "", ck="0123\x00 "), None, {"field-length"}),
    ("tar", _tar_entry("x" * 120, "0", ""), None, {"field-length"}),
    ("tar", _tar_entry("a", "0", "") + _tar_entry("b", "2", "zz"), None, {"dangling-link"}),
    ("tar", _tar_entry("a b", "0", ""), None, {"field-encoding"}),
]
