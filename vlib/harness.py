"""Harness side of the proved tier (runs under /venv/bin/python, which has the
repo installed in editable mode, so it sees /repo's working tree).

 * starts the prover (python3-vt -m pyvc.prove) for the property,
 * records every obligation in the report,
 * replays each counter-model on the real function and evaluates the contract
   natively (one contract text, two interpreters),
 * runs the CPython cross-check of the encoder and the bounded *shadow* of each
   contract (same clauses, enumerated concrete inputs).
"""
from __future__ import annotations

import ast
import importlib
import itertools
import json
import os
import random
import subprocess
import sys
import tempfile
import traceback
from typing import Any, Callable, Dict, List, Optional, Tuple

ROOT = os.path.dirname(os.path.dirname(os.path.abspath(__file__)))
sys.path.insert(0, ROOT)

from pyvc import contracts as C  # noqa: E402
from pyvc import extract  # noqa: E402
from vlib.report import Report  # noqa: E402

PROVER_PY = os.environ.get("PYVC_PROVER_PY", "python3-vt")


# --------------------------------------------------------------------------
# JSON value <-> native value
# --------------------------------------------------------------------------

def to_native(val: Any, reg) -> Any:
    if isinstance(val, (bool, int)) or val is None:
        return val
    if isinstance(val, str):
        return val
    if isinstance(val, list):
        return [to_native(x, reg) for x in val]
    t = val.get("t")
    if t == "none" or t == "any":
        return None
    if t in ("nstr", "str"):
        return val["v"]
    if t == "str_codepoints":
        raise ValueError("string with code points outside chr() range")
    if t == "tuple":
        return tuple(to_native(x, reg) for x in val["v"])
    if t == "list":
        return [to_native(x, reg) for x in val["v"]]
    if t == "rec":
        r = reg.records[val["cls"]]
        mod = importlib.import_module(r.module)
        fields = {k: to_native(v, reg) for k, v in val["fields"].items()}
        return eval(r.construct, dict(vars(mod)), fields)
    raise ValueError(f"cannot build native value from {val!r}")


def from_native(x: Any) -> Any:
    if isinstance(x, (bool, int)) or x is None:
        return x if x is not None else {"t": "none"}
    if isinstance(x, str):
        return {"t": "str", "v": x}
    if isinstance(x, tuple):
        return {"t": "tuple", "v": [from_native(y) for y in x]}
    if isinstance(x, list):
        return {"t": "list", "v": [from_native(y) for y in x]}
    if hasattr(x, "__dataclass_fields__"):
        return {"t": "rec", "cls": type(x).__name__,
                "fields": {k: from_native(getattr(x, k)) for k in x.__dataclass_fields__}}
    return {"t": "repr", "v": repr(x)}


def same_value(a: Any, b: Any) -> bool:
    """JSON-level comparison; nstr and str compare by content, bool/int by value"""
    def norm(v):
        if isinstance(v, dict):
            if v.get("t") in ("nstr", "str"):
                return ("s", v["v"])
            if v.get("t") in ("tuple", "list"):
                return (v["t"], tuple(norm(x) for x in v["v"]))
            if v.get("t") == "none":
                return None
            if v.get("t") == "rec":
                return ("rec", v["cls"], tuple(sorted((k, norm(x)) for k, x in v["fields"].items())))
            return ("d", json.dumps(v, sort_keys=True))
        if isinstance(v, bool):
            return int(v)
        return v
    return norm(a) == norm(b)


# --------------------------------------------------------------------------
# native function lookup
# --------------------------------------------------------------------------

# ---- z3 terms for the operator-binding (guard) contracts of C05 -----------------------------------------------
_Z3OP_NATIVE: Dict[str, int] = {}


def native_z3op(name: str) -> int:
    if name not in _Z3OP_NATIVE:
        _Z3OP_NATIVE[name] = 1000 + len(_Z3OP_NATIVE)
    return _Z3OP_NATIVE[name]


class NativeZ3Expr:
    """a real z3 term together with the abstract view (op category, declaration name) the contracts speak about"""
    def __init__(self, term):
        import z3
        self.term = term
        self.declname = term.decl().name() if z3.is_app(term) else ""
        kind = None
        if z3.is_string_value(term): kind = "VALUE:is_string_value"
        elif z3.is_int_value(term): kind = "VALUE:is_int_value"
        elif z3.is_rational_value(term): kind = "VALUE:is_rational_value"
        elif z3.is_app(term):
            k = term.decl().kind()
            names = [n for n in dir(z3) if n.startswith("Z3_OP_") and getattr(z3, n) == k]
            kind = names[0] if names else f"KIND:{k}"
        self.op_name = kind or "OTHER"
        self.op = native_z3op(self.op_name)

    def __repr__(self):
        return f"<z3 term {self.term.sexpr()} : {self.op_name}>"


def sample_z3_term(op_name: Optional[str], declname: str = ""):
    """a z3 term whose head symbol has the requested category (for replaying guard counter-models)"""
    import z3
    x, y = z3.Int("x"), z3.Int("y")
    s, t = z3.String("s"), z3.String("t")
    r = z3.Re("a")
    b, c = z3.Bool("b"), z3.Bool("c")
    table = {
        "Z3_OP_NOT": z3.Not(b), "Z3_OP_AND": z3.And(b, c), "Z3_OP_OR": z3.Or(b, c), "Z3_OP_EQ": x == y,
        "Z3_OP_LT": x < y, "Z3_OP_LE": x <= y, "Z3_OP_GT": x > y, "Z3_OP_GE": x >= y, "Z3_OP_ADD": x + y,
        "Z3_OP_SUB": x - y, "Z3_OP_MUL": x * y, "Z3_OP_DIV": z3.Real("p") / z3.Real("q"), "Z3_OP_IDIV": x / y,
        "Z3_OP_MOD": x % y, "Z3_OP_POWER": x ** y, "Z3_OP_SEQ_LENGTH": z3.Length(s), "Z3_OP_SEQ_CONCAT": z3.Concat(s, t),
        "Z3_OP_SEQ_AT": s.at(x), "Z3_OP_SEQ_EXTRACT": z3.SubString(s, x, y), "Z3_OP_STR_TO_CODE": z3.StrToCode(s),
        "Z3_OP_SEQ_TO_RE": z3.Re(s), "Z3_OP_RE_CONCAT": z3.Concat(r, z3.Re("b")), "Z3_OP_SEQ_IN_RE": z3.InRe(s, r),
        "Z3_OP_RE_STAR": z3.Star(r), "Z3_OP_RE_PLUS": z3.Plus(r), "Z3_OP_RE_OPTION": z3.Option(r),
        "Z3_OP_RE_UNION": z3.Union(r, z3.Re("b")), "Z3_OP_RE_FULL_SET": z3.Full(z3.ReSort(z3.StringSort())),
        "Z3_OP_FALSE": z3.BoolVal(False), "Z3_OP_TRUE": z3.BoolVal(True), "Z3_OP_STR_TO_INT": z3.StrToInt(s),
        "Z3_OP_RE_LOOP": z3.Loop(r, 1, 2), "Z3_OP_RE_RANGE": z3.Range("a", "b"), "Z3_OP_RE_COMPLEMENT": z3.Complement(r),
        "VALUE:is_string_value": z3.StringVal("a"), "VALUE:is_int_value": z3.IntVal(3),
        "VALUE:is_rational_value": z3.RealVal("1/2"), "Z3_OP_UMINUS": -x, "Z3_OP_ITE": z3.If(b, x, y),
        "Z3_OP_SEQ_PREFIX": z3.PrefixOf(s, t), "Z3_OP_SEQ_CONTAINS": z3.Contains(s, t), "Z3_OP_REM": z3.ToInt(z3.Real("p")),
    }
    if op_name in table:
        return table[op_name]
    by_name = {"re.range": z3.Range("a", "b"), "re.comp": z3.Complement(r)}
    if declname in by_name:
        return by_name[declname]
    return None


def call_native_guard(c, reg, combo: Dict[str, Any]) -> Dict[str, Any]:
    """replay of a guard counter-model: build a real term with the model's head-symbol category, call the real
    case function on it and evaluate the contract natively"""
    import z3
    from returns.maybe import Nothing
    modname, attr = c.native[len("guard:"):].split(":")
    fn = getattr(importlib.import_module(modname), attr)
    ev = getattr(importlib.import_module(modname), "evaluate_z3_expression")
    spec = combo.get("expr", {})
    decl = spec.get("fields", {}).get("declname", {})
    declname = decl.get("v", "") if isinstance(decl, dict) else ""
    cands = []
    term = sample_z3_term(spec.get("op_name"), declname)
    if term is not None:
        cands.append(term)
    else:
        # the model's category is none of the named ones: any term of a category the contract does not name
        cands = [t_ for t_ in (sample_z3_term(n) for n in ("Z3_OP_UMINUS", "Z3_OP_ITE", "Z3_OP_SEQ_PREFIX", "Z3_OP_IDIV",
                                                          "Z3_OP_SEQ_CONTAINS")) if t_ is not None]
    out: Dict[str, Any] = {"pre": True}
    for term in cands:
        expr = NativeZ3Expr(term)
        try:
            children = tuple(ev(ch).unwrap() for ch in term.children())
        except Exception:  # noqa
            children = tuple(((), None) for _ in term.children())
        try:
            res = fn(term, children)
        except BaseException as exc:  # noqa
            res = ("raised", repr(exc))
        result = None if res is Nothing or res == Nothing else res
        env = {"expr": expr, "children_results": children, "result": result}
        out.update(term=term.sexpr(), category=expr.op_name, result_repr=repr(res)[:200])
        ok = True
        for cname, ctext in c.ensures_items():
            if not bool(C.eval_clause(ctext, reg, env, extra={"z3op": native_z3op})):
                ok = False
                out.update(ok=False, failed_clause=cname,
                           why=f"{attr}({term.sexpr()}) {'answers' if result is not None else 'declines'}: "
                               f"post-condition {cname} `{ctext}` is false (term category {expr.op_name})")
                return out
        out["ok"] = ok
    return out


def resolve_native(c, reg) -> Callable:
    spec = c.native
    if spec.startswith("lambda:"):
        # the real lambda text, compiled in the real module's globals
        modname = spec[len("lambda:"):]
        mod = importlib.import_module(modname)
        node, seg, sha, lineno = extract.find(c.file, c.qualname)
        expr = ast.Expression(body=node)
        ast.fix_missing_locations(expr)
        glob = dict(vars(mod))
        return lambda *args, _code=compile(expr, f"<{c.key}>", "eval"), _g=glob, **closure: \
            eval(_code, {**_g, **closure})(*args)
    modname, path = spec.split(":")
    obj = importlib.import_module(modname)
    for p in path.split("."):
        obj = getattr(obj, p)
    return obj


def call_native(c, reg, combo: Dict[str, Any]) -> Dict[str, Any]:
    """call the real function on JSON-described arguments and evaluate the
    contract natively.  Returns dict(pre, post, result/exc, ok)."""
    if c.native.startswith("guard:"):
        return call_native_guard(c, reg, combo)
    fn = resolve_native(c, reg)
    names = c.arg_order or list(c.types.keys())
    args = {n: to_native(combo[n], reg) for n in combo}
    out: Dict[str, Any] = {}
    try:
        pre = bool(C.eval_clause(c.requires, reg, args))
    except Exception as exc:  # noqa
        out.update(pre=None, pre_error=repr(exc))
        return out
    out["pre"] = pre
    if not pre:
        return out
    closure = {n: args[n] for n in c.closure if n in args}
    try:
        if c.native.startswith("lambda:"):
            res = fn(*[args[n] for n in names if n not in c.closure], **closure)
        else:
            res = fn(*[args[n] for n in names])
        out["result"] = from_native(res)
        out["result_repr"] = repr(res)[:300]
    except BaseException as exc:  # noqa
        if isinstance(exc, (KeyboardInterrupt, SystemExit)):
            raise
        out["exc"] = type(exc).__name__
        out["exc_repr"] = repr(exc)[:300]
        allowed = c.raises.get(type(exc).__name__)
        if allowed is None:
            out["ok"] = False
            out["why"] = f"raised {type(exc).__name__} which the contract does not allow"
        else:
            try:
                out["ok"] = bool(C.eval_clause(allowed, reg, args))
                if not out["ok"]:
                    out["why"] = f"raised {type(exc).__name__} outside the condition `{allowed}`"
            except Exception as exc2:  # noqa
                out["ok"] = None
                out["why"] = f"raises-clause not evaluable natively: {exc2!r}"
        return out
    ok = True
    why = ""
    try:
        env = dict(args)
        env["result"] = res
        if c.result_is is not None:
            exp = C.eval_clause(c.result_is, reg, args)
            same = (res == exp) and (type(res) is type(exp) or isinstance(res, (bool, int)) and isinstance(exp, (bool, int)))
            if not same:
                ok, why = False, f"result {res!r} differs from contract value {exp!r}"
        for cname, ctext in c.ensures_items():
            if ok and not bool(C.eval_clause(ctext, reg, env)):
                ok, why = False, f"post-condition {cname + ': ' if cname else ''}`{ctext}` is false for result {res!r}"
                out["failed_clause"] = cname
        # a raises-clause also says: under that condition the exception MUST be raised
        for exc_name, cond in c.raises.items():
            if ok and bool(C.eval_clause(cond, reg, args)):
                ok, why = False, f"contract demands {exc_name} under `{cond}`, function returned {res!r}"
    except Exception as exc:  # noqa
        ok, why = None, f"contract not evaluable natively: {exc!r}"
    out["ok"] = ok
    if why:
        out["why"] = why
    return out


# --------------------------------------------------------------------------
# proved tier
# --------------------------------------------------------------------------

def stable_sig(c_key: str, oname: str) -> str:
    """signature of an obligation that survives line shifts:
    qualname + obligation name with the @L<line> part removed"""
    q = c_key.split("::")[-1]
    import re
    return f"{q}:{re.sub(r'(#[0-9]+)?@L[0-9]+', '', oname)}"


def shadow_sig(c, nat: Dict[str, Any]) -> str:
    """same signature scheme as the proved tier, so one KNOWN_FINDINGS line covers both"""
    if "exc" in nat:
        return f"{c.qualname}:exc:{nat['exc']}"
    return f"{c.qualname}:post" + (":" + nat["failed_clause"] if nat.get("failed_clause") else "")


def run_prover(pid: str, seed: int, jobs: int = 16, only: Optional[str] = None) -> Dict[str, Any]:
    fd, path = tempfile.mkstemp(prefix=f"pyvc_{pid}_", suffix=".json")
    os.close(fd)
    try:
        cmd = [PROVER_PY, "-m", "pyvc.prove", "--property", pid, "--out", path, "--seed", str(seed), "--jobs", str(jobs)]
        if only:
            cmd += ["--only", only]
        env = dict(os.environ)
        env.pop("PYTHONPATH", None)
        r = subprocess.run(cmd, cwd=ROOT, capture_output=True, text=True, env=env)
        if r.returncode != 0:
            raise RuntimeError(f"prover failed ({r.returncode}): {r.stderr[-2000:]}")
        with open(path, encoding="utf-8") as fh:
            return json.load(fh)
    finally:
        if os.path.exists(path):
            os.unlink(path)


def proved_tier(rep: Report, pid: str, seed: int, expected_min_obligations: int = 1,
                only: Optional[str] = None, backstop: bool = True) -> Dict[str, Any]:
    """backstop: the calling check also runs a bounded part for the same property; a function that has left
    the verified subset and has no bounded shadow of its own is then decided by that part (recorded as not
    proved), instead of leaving the check undecided -- a harmless refactoring must not raise an alarm."""
    reg = C.load_all()
    try:
        data = run_prover(pid, seed, only=only)
    except Exception as exc:  # noqa
        rep.checker_error(f"prover: {exc}")
        return {}
    n_obl = 0
    for r in data["results"]:
        key = r["key"]
        c = reg.contracts.get(key)
        if r["status"] == "assumed":
            rep.assume(f"assumed contract (not verified): {key} -- {r.get('reason', '')}")
            continue
        if r["status"] in ("unsupported", "not_found"):
            # the function left the verified subset (or vanished): not proved,
            # the bounded shadow of the same contract decides; never a violation by itself
            rep.obligation("whole-function", "unsupported", key, "unsupported", "-", 0.0, r.get("reason", ""))
            rep.assume(f"{key} is outside the verified subset in this tree ({r.get('reason', '')[:200]}); "
                       "only its bounded shadow was checked")
            if c is not None and c.native:
                shadow(rep, c, reg, seed, n=400)
            elif backstop:
                rep.assume(f"{key}: not proved in this tree and no bounded shadow of its own; the bounded part of this "
                           "check is the only decision for the behaviour it covers")
            else:
                rep.undecided_obligation(f"{key}: {r['status']} and no bounded shadow")
            continue
        if r["status"] == "error":
            rep.checker_error(f"{key}: {r.get('reason', '')[-1500:]}")
            continue
        rep.function_under_contract(key, r.get("source_hash", "-"))
        for d in r.get("dropped", []):
            rep.assume(f"{key}: extraction drops `{d}`")
        reachable = 0
        loops: Dict[str, List[str]] = {}
        for o in r["obligations"]:
            if o["kind"] == "cover" and o["name"].startswith("cover-loop"):
                loops.setdefault(o["name"], []).append(o["verdict"])
                continue
            if o["kind"] == "cover":
                if o["verdict"] in ("reachable", "cover-unknown"):
                    reachable += 1
                    if o["verdict"] == "cover-unknown":
                        rep.assume(f"{key}: reachability of {o['name']} not decided by the solver (not dead, not confirmed)")
                elif o["verdict"] == "dead" and o["name"] in ("cover-requires", "cover-hyps"):
                    rep.checker_error(f"{key}: vacuous contract, pre-condition unsatisfiable")
                continue
            n_obl += 1
            rep.obligation(o["name"], o["kind"], key, o["verdict"], o["backend"], o["time_s"], o.get("detail"))
            if o["verdict"] == "proved":
                continue
            if o["verdict"] == "unknown":
                if c is not None and c.native:
                    bad = shadow(rep, c, reg, seed, n=400)
                    rep.assume(f"{key}::{o['name']} undecided by the solvers; bounded shadow run instead ({'violations' if bad else 'clean'})")
                    if not bad:
                        rep.undecided_obligation(f"{key}::{o['name']} ({o.get('reason', '')})")
                else:
                    rep.undecided_obligation(f"{key}::{o['name']} ({o.get('reason', '')})")
                continue
            if o["verdict"] == "refuted":
                handle_refuted(rep, reg, c, key, o, r)
        if reachable == 0 and r["obligations"]:
            rep.checker_error(f"{key}: no reachable path (vacuous)")
        for lname, verdicts in loops.items():
            if all(v == "dead" for v in verdicts):
                rep.checker_error(f"{key}: every path through the loop body {lname} is infeasible -- vacuous invariant or havoc error")
        # cross-check of the encoder against CPython + contract on the same inputs
        if c is not None and c.native and r.get("crosscheck"):
            crosscheck(rep, reg, c, r["crosscheck"])
    if n_obl < expected_min_obligations:
        rep.checker_error(f"only {n_obl} obligations generated (expected >= {expected_min_obligations})")
    return data


def handle_refuted(rep: Report, reg, c, key: str, o: Dict[str, Any], r: Dict[str, Any]):
    sig = stable_sig(key, o["name"])
    model = o.get("model")
    base = dict(obligation=o["name"], kind=o["kind"], function=key, source_hash=r.get("source_hash"),
                solver=o["backend"], solver_verdict="sat (negated obligation satisfiable)", model=model,
                detail=o.get("detail"), contract=dict(requires=getattr(c, "requires", None),
                                                        ensures=getattr(c, "ensures", None),
                                                        result_is=getattr(c, "result_is", None),
                                                        raises=getattr(c, "raises", None)) if c else None)
    if key.startswith("lemma::"):
        rep.checker_error(f"lemma {key} refuted: {json.dumps(model)[:300]} (a lemma is about spec functions only; "
                          "its failure is a specification error, not a code violation)")
        return
    if c is None or not c.native or model is None:
        rep.violation(sig, f"obligation {o['name']} of {key} refuted by {o['backend']}", base, no_failing_input=True)
        return
    try:
        nat = call_native(c, reg, model)
    except Exception as exc:  # noqa
        base["replay_error"] = traceback.format_exc(limit=4)
        rep.violation(sig, f"obligation {o['name']} of {key} refuted; model not replayable ({exc!r})", base,
                      no_failing_input=True)
        return
    base["native"] = nat
    base["replay"] = dict(function=c.native, args=model)
    if nat.get("pre") is False or nat.get("pre") is None:
        rep.checker_error(f"{key}::{o['name']}: counter-model violates the pre-condition natively -- encoder/contract mismatch: {json.dumps(model)[:300]}")
        return
    if nat.get("ok") is False:
        rep.violation(sig, f"{c.qualname}({json.dumps(model)[:200]}): {nat.get('why')}", base)
        return
    if nat.get("ok") is None:
        rep.violation(sig, f"obligation {o['name']} of {key} refuted; {nat.get('why')}", base, no_failing_input=True)
        return
    # replay does not reproduce: try the bounded shadow before blaming the encoder
    bad = shadow(rep, c, reg, 0, n=600, sig_override=sig)
    if not bad:
        rep.checker_error(f"{key}::{o['name']}: refuted by the solver but the model replays without violating the "
                          f"contract -- encoding disagrees with CPython: {json.dumps(model)[:300]}")


def crosscheck(rep: Report, reg, c, items: List[Dict[str, Any]]):
    n = 0
    for it in items:
        pred = it["pred"]
        if pred.get("pre") is None:
            continue
        try:
            nat = call_native(c, reg, it["input"])
        except Exception as exc:  # noqa
            rep.checker_error(f"crosscheck {c.key}: native call failed on {it['input']}: {exc!r}")
            continue
        n += 1
        if nat.get("pre") is None:
            continue
        if bool(nat["pre"]) != bool(pred["pre"]):
            rep.checker_error(f"crosscheck {c.key}: pre-condition native={nat['pre']} encoder={pred['pre']} on {json.dumps(it['input'])[:200]}")
            continue
        if not nat["pre"]:
            continue
        rep.case(key=("x", c.key, json.dumps(it["input"], sort_keys=True)), nontrivial=True,
                 sample={"function": c.qualname, "input": it["input"], "native": nat.get("result", nat.get("exc"))})
        if nat.get("ok") is False:
            rep.violation(shadow_sig(c, nat),
                          f"{c.qualname}({json.dumps(it['input'])[:200]}): {nat.get('why')}",
                          dict(function=c.key, replay=dict(function=c.native, args=it["input"]), native=nat))
            continue
        feas = [f for f in pred.get("feasible", []) if f["kind"] != "unknown"]
        if "exc" in nat:
            if any(f["kind"] == "return" for f in feas) and not any(f["kind"] == "raise" for f in feas):
                rep.checker_error(f"crosscheck {c.key}: CPython raised {nat['exc']} but the encoder predicts a normal return on {json.dumps(it['input'])[:200]}")
            continue
        rets = [f for f in feas if f["kind"] == "return"]
        if not rets:
            if not any(f["kind"] == "unknown" for f in pred.get("feasible", [])):
                rep.checker_error(f"crosscheck {c.key}: CPython returned {nat.get('result_repr')} but the encoder has no feasible return path on {json.dumps(it['input'])[:200]}")
            continue
        if len(rets) == 1 and rets[0].get("determined") is True:
            if not same_value(rets[0]["value"], nat["result"]):
                rep.checker_error(f"crosscheck {c.key}: CPython={nat.get('result_repr')} encoder={rets[0]['value']} on {json.dumps(it['input'])[:200]}")
    rep.section("crosscheck", inputs=n)


# --------------------------------------------------------------------------
# bounded shadow of a contract (same clauses, enumerated inputs)
# --------------------------------------------------------------------------

def _enum_json(tname: str, rng: random.Random, n: int) -> List[Any]:
    t = tname.strip()
    if t == "Int":
        return [0, 1, -1, 2, 3, -2, 4, 27, 28, 29, 30][:max(n, 6)]
    if t == "Bool":
        return [True, False]
    if t in ("Any", "None"):
        return [{"t": "none"}]
    if t in ("Str", "NStr"):
        tag = "str" if t == "Str" else "nstr"
        alpha = ["a", "b", "\x01", "\x02", "\x03", "\n", "\"", "0"]
        out = [""]
        for ln in (1, 2, 3):
            for _ in range(n):
                out.append("".join(rng.choice(alpha) for _ in range(ln)))
        return [{"t": tag, "v": x} for x in dict.fromkeys(out)]
    if t == "Path":
        out = [()]
        for ln in (1, 2, 3, 4):
            for _ in range(n):
                out.append(tuple(rng.choice([0, 1, 2]) for _ in range(ln)))
        return [{"t": "tuple", "v": list(x)} for x in dict.fromkeys(out)]
    if t.startswith("Rec:"):
        r = C.REG.records.get(t[4:])
        return [{"t": "rec", "cls": t[4:], "fields": f} for f in (r.enum if r else [])]
    import re
    m = re.match(r"^(\w+)\[(.*)\]$", t)
    if m:
        head, inner = m.group(1), m.group(2)
        if head in ("List", "TupleOf"):
            el = _enum_json(inner, rng, 4)
            kind = "list" if head == "List" else "tuple"
            out = [{"t": kind, "v": []}]
            for ln in (1, 2, 3):
                for _ in range(n):
                    out.append({"t": kind, "v": [rng.choice(el) for _ in range(ln)]})
            return out
        if head == "Tuple":
            from pyvc.contracts import Contract  # noqa
            parts, depth, cur = [], 0, ""
            for ch in inner:
                if ch == "[": depth += 1
                if ch == "]": depth -= 1
                if ch == "," and depth == 0:
                    parts.append(cur); cur = ""
                else:
                    cur += ch
            parts.append(cur)
            cols = [_enum_json(p, rng, 4) for p in parts]
            return [{"t": "tuple", "v": [rng.choice(col) for col in cols]} for _ in range(n * 3)]
        if head == "Opt":
            return [{"t": "none"}] + _enum_json(inner, rng, n)
    return []


def shadow(rep: Report, c, reg, seed: int, n: int = 300, sig_override: Optional[str] = None) -> int:
    """bounded stand-in: evaluate the contract natively on enumerated inputs"""
    rng = random.Random(seed * 104729 + 17)
    names = list(c.types.keys())
    cols = []
    for nm in names:
        vals = (c.path_hints or {}).get("enum", {}).get(nm) or _enum_json(c.types[nm], rng, 8)
        if not vals:
            rep.assume(f"no bounded shadow for {c.key}: cannot enumerate type {c.types[nm]}")
            return 0
        cols.append(vals)
    total = 1
    for col in cols:
        total *= len(col)
    combos: List[Dict[str, Any]] = []
    if total <= n:
        for tup in itertools.product(*cols):
            combos.append(dict(zip(names, tup)))
    else:
        seen = set()
        for _ in range(n * 3):
            combo = {nm: rng.choice(col) for nm, col in zip(names, cols)}
            k = json.dumps(combo, sort_keys=True)
            if k not in seen:
                seen.add(k)
                combos.append(combo)
            if len(combos) >= n:
                break
    bad = 0
    for combo in combos:
        try:
            nat = call_native(c, reg, combo)
        except Exception as exc:  # noqa
            rep.note_inconclusive(f"shadow {c.key}: {exc!r}")
            continue
        if not nat.get("pre"):
            continue
        rep.case(key=("s", c.key, json.dumps(combo, sort_keys=True)), nontrivial=True)
        if nat.get("ok") is False:
            bad += 1
            rep.violation(sig_override or (shadow_sig(c, nat)),
                          f"{c.qualname}({json.dumps(combo)[:200]}): {nat.get('why')}",
                          dict(function=c.key, replay=dict(function=c.native, args=combo), native=nat))
    rep.section("shadow", **{c.qualname: len(combos)})
    rep.bound(f"shadow of {c.qualname}: {len(combos)} enumerated argument tuples (paths <= 4 over 0..2, small ints, strings <= 3)")
    return bad


# --------------------------------------------------------------------------
# replay
# --------------------------------------------------------------------------

def replay_file(path: str) -> int:
    reg = C.load_all()
    with open(path, encoding="utf-8") as fh:
        d = json.load(fh)
    rp = d.get("replay")
    print(json.dumps({k: d.get(k) for k in ("property", "signature", "what")}, indent=1))
    if not rp or "function" not in rp or d.get("function") not in reg.contracts:
        print("replay: no concrete input recorded for this obligation (see 'model' / 'solver' in the file)")
        return 1 if d.get("no_failing_input_found") else 0
    c = reg.contracts[d["function"]]
    nat = call_native(c, reg, rp["args"])
    print("native re-execution on the current tree:", json.dumps(nat, indent=1))
    return 1 if nat.get("ok") is False else 0
