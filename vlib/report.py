"""Evidence / verdict bookkeeping shared by the prover driver and the bounded
harness.  Pure stdlib so that it runs under both interpreters.

Exit codes (DESIGN.md section 3):
  0 property held on everything explored / every obligation discharged
  1 violation (a VIOLATION line was printed)
  2 undecided (solver unknown/timeout on an obligation, no refutation)
  3 the checker itself failed (trace-back, vacuous contract, cross-check)
"""
from __future__ import annotations

import hashlib
import json
import os
import re
import sys
import time
from typing import Any, Dict, List, Optional

ROOT = os.path.dirname(os.path.dirname(os.path.abspath(__file__)))
EVIDENCE_DIR = os.path.join(ROOT, "evidence")
REPLAY_DIR = os.path.join(ROOT, "replays")
KNOWN_FINDINGS = os.path.join(ROOT, "KNOWN_FINDINGS.txt")


def load_known_findings(pid: str) -> Dict[str, str]:
    """signature -> description, for `finding:` lines of this property.
    `fixed:` lines suppress nothing and are ignored here."""
    out: Dict[str, str] = {}
    if not os.path.exists(KNOWN_FINDINGS):
        return out
    for line in open(KNOWN_FINDINGS, encoding="utf-8"):
        line = line.strip()
        m = re.match(r"finding:\s+property=(\S+)\s+signature=(\S+)\s*(.*)$", line)
        if m and m.group(1) == pid:
            out[m.group(2)] = m.group(3)
    return out


def msg_slug(msg: str, words: int = 5) -> str:
    """stable identification of an exception message: its first words, with
    numbers, quoted text and generated names removed"""
    msg = re.sub(r"'[^']*'|\"[^\"]*\"|\([^)]*\)|\[[^\]]*\]", " ", str(msg))
    toks = [t for t in re.findall(r"[A-Za-z]+", msg)]
    return "-".join(t.lower() for t in toks[:words]) or "no-message"


def jsonable(x: Any) -> Any:
    try:
        json.dumps(x)
        return x
    except Exception:
        if isinstance(x, dict):
            return {str(k): jsonable(v) for k, v in x.items()}
        if isinstance(x, (list, tuple, set, frozenset)):
            return [jsonable(v) for v in x]
        return repr(x)


class Report:
    def __init__(self, pid: str, tier: str, seed: int, level: str):
        self.pid = pid
        self.tier = tier
        self.seed = seed
        self.level = level
        self.t0 = time.time()
        self.obligations: List[Dict[str, Any]] = []
        self.functions: Dict[str, str] = {}
        self.evaluations = 0
        self.nontrivial_keys: set = set()
        self.samples: List[Any] = []
        self.inconclusive: List[str] = []
        self.assumptions: List[str] = []
        self.violations: List[Dict[str, Any]] = []
        self.known_hits: Dict[str, str] = {}
        self.undecided: List[str] = []
        self.checker_errors: List[str] = []
        self.extra: Dict[str, Any] = {}
        self.sections: Dict[str, Dict[str, Any]] = {}
        self.known = load_known_findings(pid)
        self.solver_time = 0.0
        self.exhaustive: Optional[bool] = None
        self.rule_texts: List[str] = []
        self.bounds: List[str] = []

    # -- proved tier ------------------------------------------------------
    def obligation(self, name: str, kind: str, function: str, verdict: str,
                   backend: str, time_s: float, detail: Optional[str] = None):
        """verdict: proved | refuted | unknown | error"""
        self.obligations.append(dict(name=name, kind=kind, function=function,
                                     verdict=verdict, backend=backend,
                                     time_s=round(time_s, 4),
                                     **({"detail": detail} if detail else {})))
        self.solver_time += time_s

    def function_under_contract(self, qualname: str, source_hash: str):
        self.functions[qualname] = source_hash

    # -- bounded tier -----------------------------------------------------
    def case(self, key: Any = None, nontrivial: bool = True, sample: Any = None):
        self.evaluations += 1
        if nontrivial:
            if key is None:
                key = self.evaluations
            if not isinstance(key, (str, int)):
                key = repr(key)
            if isinstance(key, str) and len(key) > 64:
                key = hashlib.sha1(key.encode("utf-8", "replace")).hexdigest()
            self.nontrivial_keys.add(key)
        if sample is not None and len(self.samples) < 12:
            self.samples.append(jsonable(sample))

    def section(self, name: str, **kw):
        """free-form per-family counters, kept under coverage.sections"""
        d = self.sections.setdefault(name, {})
        for k, v in kw.items():
            if isinstance(v, (int, float)) and isinstance(d.get(k), (int, float)) \
                    and not isinstance(v, bool):
                d[k] = d[k] + v
            else:
                d[k] = jsonable(v)

    def note_inconclusive(self, what: str):
        self.inconclusive.append(what)

    def assume(self, text: str):
        if text not in self.assumptions:
            self.assumptions.append(text)

    def rule(self, text: str):
        if text not in self.rule_texts:
            self.rule_texts.append(text)

    def bound(self, text: str):
        if text not in self.bounds:
            self.bounds.append(text)

    def undecided_obligation(self, name: str):
        self.undecided.append(name)

    def checker_error(self, what: str):
        self.checker_errors.append(what)

    # -- violations -------------------------------------------------------
    def violation(self, signature: str, what: str, replay: Dict[str, Any],
                  no_failing_input: bool = False) -> bool:
        """Record a violation.  Returns True when it is a new (unlisted)
        violation.  A violation whose signature is listed in
        KNOWN_FINDINGS.txt is reported as KNOWN-FINDING (once per signature)
        and does not affect the exit status."""
        signature = re.sub(r"\s+", "_", signature)
        if signature in self.known:
            if signature not in self.known_hits:
                self.known_hits[signature] = what
                print(f"KNOWN-FINDING: property={self.pid} {signature} {what}",
                      flush=True)
            return False
        for v in self.violations:
            if v["signature"] == signature:
                v["count"] += 1
                return False
        os.makedirs(os.path.join(REPLAY_DIR, self.pid), exist_ok=True)
        fname = re.sub(r"[^A-Za-z0-9_.-]+", "_", signature)[:120] + ".json"
        path = os.path.join(REPLAY_DIR, self.pid, fname)
        payload = dict(property=self.pid, signature=signature, what=what,
                       no_failing_input_found=no_failing_input)
        payload.update(jsonable(replay))
        with open(path, "w", encoding="utf-8") as fh:
            json.dump(payload, fh, indent=1, ensure_ascii=True)
        self.violations.append(dict(signature=signature, what=what, replay=path,
                                    count=1, no_failing_input=no_failing_input))
        tail = " no-failing-input-found" if no_failing_input else ""
        print(f"VIOLATION property={self.pid} replay={path}{tail}", flush=True)
        print(f"  {signature}: {what}", flush=True)
        return True

    # -- finish -----------------------------------------------------------
    def finish(self) -> int:
        n_obl = len(self.obligations)
        n_dis = sum(1 for o in self.obligations if o["verdict"] == "proved")
        coverage: Dict[str, Any] = {}
        if n_obl:
            by_kind: Dict[str, int] = {}
            by_backend: Dict[str, int] = {}
            for o in self.obligations:
                by_kind[o["kind"]] = by_kind.get(o["kind"], 0) + 1
                by_backend[o["backend"]] = by_backend.get(o["backend"], 0) + 1
            coverage.update(
                obligations=n_obl, discharged=n_dis,
                obligations_by_kind=by_kind, obligations_by_backend=by_backend,
                solver_time_s=round(self.solver_time, 3),
                functions_under_contract=self.functions,
                checker_cmd=f"./check {self.pid} --tier {self.tier}",
                trusted_base=[
                    "z3 5.1.0 (python3-vt), /usr/bin/cvc5 1.0.3 for z3 unknowns",
                    "pyvc VC generator (/verif/pyvc), cross-checked against CPython on every run",
                    "CPython 3.12 semantics as listed in DESIGN.md 2.2",
                ],
                not_proved=[o for o in self.obligations if o["verdict"] != "proved"][:40],
                obligation_list=[f'{o["function"]}::{o["name"]} [{o["kind"]}] {o["verdict"]} {o["backend"]} {o["time_s"]}s'
                                 for o in self.obligations][:400],
            )
        if self.evaluations or not n_obl:
            coverage.update(
                evaluations=self.evaluations,
                distinct_nontrivial=len(self.nontrivial_keys),
                rule=" | ".join(self.rule_texts) or "see sections",
                samples=self.samples,
                inconclusive=len(self.inconclusive),
                inconclusive_examples=self.inconclusive[:10],
                bounds=self.bounds,
            )
            if self.exhaustive is not None:
                coverage["exhaustive"] = self.exhaustive
        elif n_obl:
            coverage.setdefault("samples", [o["function"] + "::" + o["name"] for o in self.obligations[:8]])
        if self.sections:
            coverage["sections"] = self.sections
        coverage.update(self.extra)
        proved_part = f"{n_dis}/{n_obl} obligations discharged by the prover (all inputs)" if n_obl else "no obligation is proved"
        bounded_part = (f"{self.evaluations} bounded contract evaluations "
                        f"({len(self.nontrivial_keys)} distinct non-trivial)") if self.evaluations else "no bounded cases"
        coverage.setdefault("explanation", f"{proved_part}; {bounded_part}. "
                            "Bounded results are a stand-in and are not counted as proved.")
        coverage["violations_detail"] = [dict(signature=v["signature"], what=v["what"][:400], count=v["count"],
                                              replay=v["replay"], no_failing_input=v["no_failing_input"])
                                         for v in self.violations]
        coverage["known_findings_hit"] = self.known_hits
        coverage["undecided"] = self.undecided
        coverage["checker_errors"] = self.checker_errors
        level = self.level
        if level == "proof" and (n_obl == 0 or n_dis != n_obl):
            level = "other"
        ev = dict(property_id=self.pid, tier=self.tier, seed=self.seed,
                  level=level, coverage=coverage,
                  assumptions=self.assumptions,
                  wall_s=round(time.time() - self.t0, 2),
                  violations=len(self.violations))
        os.makedirs(EVIDENCE_DIR, exist_ok=True)
        with open(os.path.join(EVIDENCE_DIR, f"{self.pid}.json"), "w", encoding="utf-8") as fh:
            json.dump(jsonable(ev), fh, indent=1, ensure_ascii=True)
        if self.violations:
            code = 1
        elif self.checker_errors:
            code = 3
        elif self.undecided:
            code = 2
        elif n_obl == 0 and self.evaluations == 0:
            self.checker_errors.append("zero obligations and zero cases")
            code = 3
        else:
            code = 0
        summary = (f"[{self.pid}] tier={self.tier} obligations={n_dis}/{n_obl} "
                   f"cases={self.evaluations} nontrivial={len(self.nontrivial_keys)} "
                   f"inconclusive={len(self.inconclusive)} known={len(self.known_hits)} "
                   f"violations={len(self.violations)} undecided={len(self.undecided)} "
                   f"errors={len(self.checker_errors)} wall={ev['wall_s']}s exit={code}")
        print(summary, flush=True)
        for e in self.checker_errors[:10]:
            print("  CHECKER-ERROR:", e, flush=True)
        for u in self.undecided[:10]:
            print("  UNDECIDED:", u, flush=True)
        return code
