#!/bin/sh
# offline set-up: nothing is fetched or compiled; self-test of the VC generator
set -e
cd "$(dirname "$0")"
mkdir -p evidence replays
python3-vt -c "import z3; assert z3.get_version_string().startswith('5.')"
/venv/bin/python -c "import isla, z3" 2>/dev/null
python3-vt -m pyvc.selftest
