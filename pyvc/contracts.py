"""Sidecar contract registry.  Pure stdlib: loaded by the prover (python3-vt)
*and* by the native replay / bounded harness (/venv/bin/python) -- one contract
text, two interpreters (DESIGN.md section 5).

Contract files live in /verif/contracts/*.py and call the functions below.
Clause language: Python expressions over the parameters, `result`, spec
functions, and the quantifier forms
    forall(i, lo, hi, body)   exists(i, lo, hi, body)   implies(a, b)
"""
from __future__ import annotations

import ast
import glob
import os
from typing import Any, Callable, Dict, List, Optional

ROOT = os.path.dirname(os.path.dirname(os.path.abspath(__file__)))


class Contract:
    def __init__(self, key: str, **kw):
        self.key = key                      # "isla/x.py::qualname"
        self.file, self.qualname = key.split("::")
        self.props: List[str] = kw.pop("props", [])
        self.types: Dict[str, str] = kw.pop("types", {})
        self.returns: str = kw.pop("returns", "Any")
        self.requires: str = kw.pop("requires", "True")
        # str, or {clause_name: clause} -- named clauses give one obligation each
        self.ensures: Any = kw.pop("ensures", None)
        # functional contract: result == <expr>; call sites substitute expr
        self.result_is: Optional[str] = kw.pop("result_is", None)
        # {"ExcName": "condition under which it may (and must be allowed to) be raised"}
        self.raises: Dict[str, str] = kw.pop("raises", {})
        self.decreases: Optional[str] = kw.pop("decreases", None)
        self.loops: Dict[int, Dict[str, str]] = kw.pop("loops", {})
        self.assumed: bool = kw.pop("assumed", False)   # contract trusted, body not verified
        self.why_assumed: str = kw.pop("why_assumed", "")
        self.native: Optional[str] = kw.pop("native", None)  # "module:attr.path" for replay
        self.arg_order: Optional[List[str]] = kw.pop("arg_order", None)
        self.crosscheck: bool = kw.pop("crosscheck", True)
        self.fragment: Optional[Dict[str, Any]] = kw.pop("fragment", None)
        self.locals_types: Dict[str, str] = kw.pop("locals_types", {})
        self.closure: Dict[str, str] = kw.pop("closure", {})   # free variables of lambdas: name -> type
        self.hints: List[str] = kw.pop("hints", [])            # extra lemma instances assumed after being proved
        self.note: str = kw.pop("note", "")
        self.self_type: Optional[str] = kw.pop("self_type", None)
        self.pure: bool = kw.pop("pure", True)
        self.path_hints: Dict[str, Any] = kw.pop("path_hints", {})
        self.is_property: bool = kw.pop("is_property", False)
        if kw:
            raise TypeError(f"unknown contract fields {list(kw)} in {key}")

    def ensures_items(self):
        if not self.ensures:
            return []
        if isinstance(self.ensures, dict):
            return list(self.ensures.items())
        return [("", self.ensures)]

    def ensures_text(self) -> Optional[str]:
        items = self.ensures_items()
        if not items:
            return None
        return " and ".join(f"({c})" for _, c in items)


class Spec:
    def __init__(self, name: str, params: str, body: str, types: Optional[Dict[str, str]] = None,
                 returns: str = "Bool", recursive: bool = False, opaque: bool = False):
        # opaque: callers see an uninterpreted predicate plus its definitional axiom (instantiated by
        # pattern on applications) instead of the inlined body -- hides quantifiers the proof does not need
        self.opaque = opaque
        self.name = name
        self.params = [p.strip() for p in params.split(",") if p.strip()]
        self.body = body
        self.types = types or {}
        self.returns = returns
        self.recursive = recursive


class Record:
    def __init__(self, name: str, module: str, fields: Dict[str, str], construct: Optional[str] = None,
                 invariant: Optional[str] = None, file: Optional[str] = None,
                 enum: Optional[List[Dict[str, Any]]] = None, value_eq: bool = True,
                 mutable: Optional[List[str]] = None, subclasses: Optional[Dict[str, Dict[str, Any]]] = None,
                 tag_field: str = "kind", defaults: Optional[Dict[str, str]] = None,
                 bases: Optional[List[str]] = None):
        self.bases = bases or []         # base classes whose method contracts are inherited
        self.defaults = defaults or {}   # constructor defaults of trailing fields (clause text)
        # class hierarchy folded into one record sort: subclasses[name] = dict(tags=[ints], ctor=[field names,
        # a trailing "*" gathers the remaining positional arguments into a tuple], min_args=n)
        self.subclasses = subclasses or {}
        self.tag_field = tag_field
        self.mutable = mutable or []    # fields that methods other than the constructor may write (caches)
        self.enum = enum or []          # small field assignments for cross-check / shadow inputs
        self.value_eq = value_eq        # dataclass-style structural __eq__
        self.name = name
        self.module = module
        self.fields = fields
        self.construct = construct
        self.invariant = invariant
        self.file = file


class Lemma:
    def __init__(self, name: str, props: List[str], types: Dict[str, str], hyps: str, goal: str, note: str = "",
                 ih: Optional[Dict[str, Any]] = None, uses: Optional[List[Any]] = None,
                 cases: Optional[List[str]] = None):
        # cases: proof by case split -- one obligation per case plus one showing the cases are exhaustive
        self.cases = cases or []
        # uses: [(lemma_name, {var: expr})] -- instances of other (separately proved) lemmas assumed here;
        # the prover rejects cycles.
        self.uses = uses or []
        # ih: structural induction.  dict(guard=<clause>, subst={var: <expr>}, measure=<int expr>):
        # under `guard`, the lemma itself may be assumed for the substituted (smaller) arguments;
        # an extra obligation shows measure[subst] < measure and measure >= 0.
        self.ih = ih
        self.name = name
        self.props = props
        self.types = types
        self.hyps = hyps
        self.goal = goal
        self.note = note


class Axiom:
    def __init__(self, name: str, types: Dict[str, str], body: str, why: str = "", props: Optional[List[str]] = None):
        self.name, self.types, self.body, self.why = name, types, body, why
        self.props = props      # if given: the axiom is added to exactly the contracts/lemmas of these properties


class Registry:
    def __init__(self):
        self.axioms: Dict[str, Axiom] = {}
        self.contracts: Dict[str, Contract] = {}
        self.specs: Dict[str, Spec] = {}
        self.records: Dict[str, Record] = {}
        self.lemmas: Dict[str, Lemma] = {}
        self.syntactic: List[Dict[str, Any]] = []

    def by_name(self, name: str, prefer_file: Optional[str] = None) -> Optional[Contract]:
        cands = [c for c in self.contracts.values() if c.qualname == name]
        if not cands:
            cands = [c for c in self.contracts.values() if c.qualname.split(".")[-1].split("@")[0] == name]
        if prefer_file:
            same = [c for c in cands if c.file == prefer_file]
            if same:
                return same[0]
        return cands[0] if len(cands) == 1 else None


REG = Registry()


def contract(key: str, **kw) -> Contract:
    c = Contract(key, **kw)
    REG.contracts[key] = c
    return c


def spec(name: str, params: str, body: str, **kw) -> Spec:
    s = Spec(name, params, body, **kw)
    REG.specs[name] = s
    return s


def record(name: str, **kw) -> Record:
    r = Record(name, **kw)
    REG.records[name] = r
    return r


def lemma(name: str, **kw) -> Lemma:
    l = Lemma(name, **kw)
    REG.lemmas[name] = l
    return l


def axiom(name: str, **kw) -> Axiom:
    """an ASSUMED fact about the data model (listed among the assumptions in the evidence)"""
    a = Axiom(name, **kw)
    REG.axioms[name] = a
    return a


def syntactic(kind: str, **kw):
    """callshape / frame / exc-site obligations decided on the AST alone"""
    d = dict(kind=kind, **kw)
    REG.syntactic.append(d)
    return d


_loaded = False


def load_all() -> Registry:
    global _loaded
    if _loaded:
        return REG
    _loaded = True
    env = dict(contract=contract, spec=spec, record=record, lemma=lemma, syntactic=syntactic, axiom=axiom)
    for path in sorted(glob.glob(os.path.join(ROOT, "contracts", "*.py"))):
        with open(path, encoding="utf-8") as fh:
            code = compile(fh.read(), path, "exec")
        exec(code, dict(env))
    return REG


# --------------------------------------------------------------------------
# Native evaluation of clauses (the replay oracle)
# --------------------------------------------------------------------------

class _QuantRewriter(ast.NodeTransformer):
    def visit_Call(self, node: ast.Call):
        self.generic_visit(node)
        if isinstance(node.func, ast.Name) and node.func.id in ("forall", "exists") and len(node.args) == 4 \
                and isinstance(node.args[0], ast.Name):
            var = node.args[0].id
            lo, hi, body = node.args[1], node.args[2], node.args[3]
            gen = ast.GeneratorExp(
                elt=body,
                generators=[ast.comprehension(
                    target=ast.Name(id=var, ctx=ast.Store()),
                    iter=ast.Call(func=ast.Name(id="range", ctx=ast.Load()), args=[lo, hi], keywords=[]),
                    ifs=[], is_async=0)])
            fn = "all" if node.func.id == "forall" else "any"
            return ast.Call(func=ast.Name(id=fn, ctx=ast.Load()), args=[gen], keywords=[])
        if isinstance(node.func, ast.Name) and node.func.id == "implies" and len(node.args) == 2:
            return ast.BoolOp(op=ast.Or(), values=[ast.UnaryOp(op=ast.Not(), operand=node.args[0]), node.args[1]])
        return node


def compile_clause(text: str):
    tree = ast.parse(text.strip(), mode="eval")
    tree = _QuantRewriter().visit(tree)
    ast.fix_missing_locations(tree)
    return compile(tree, "<clause>", "eval")


def native_env(reg: Registry, extra: Optional[Dict[str, Any]] = None) -> Dict[str, Any]:
    env: Dict[str, Any] = {}

    def mk_spec(s: Spec):
        code = compile_clause(s.body)

        def f(*args):
            loc = dict(env)
            loc.update(dict(zip(s.params, args)))
            return eval(code, loc)
        return f

    for s in reg.specs.values():
        env[s.name] = mk_spec(s)
    env["py_mod"] = lambda a, b: a % b
    env["count_eq"] = lambda s_, x, k: sum(1 for i in range(max(0, min(k, len(s_)))) if s_[i] == x)
    env["ite"] = lambda c, a, b: a if c else b

    def _clause_of(which):
        def f(name, **bind):
            cc = reg.by_name(name)
            text = cc.requires if which == "pre" else (cc.ensures_text() or "True")
            return bool(eval_clause(text, reg, bind))
        return f
    env.update(_native_smt_ops())
    env["post"] = _clause_of("post")
    env["pre"] = _clause_of("pre")
    if extra:
        env.update(extra)
    return env


class _Unspecified:
    """value of an SMT-LIB term that the theory leaves unspecified (x mod 0)"""
    def __eq__(self, other): return False
    def __ne__(self, other): return True
    def __repr__(self): return "<unspecified by SMT-LIB>"
    __hash__ = object.__hash__


def _native_smt_ops() -> Dict[str, Any]:
    """the specification side evaluated by the repo's own z3 (only under /venv/bin/python)"""
    try:
        import z3
    except Exception:       # pragma: no cover
        return {}

    def val(e):
        r = z3.simplify(e)
        if z3.is_int_value(r): return r.as_long()
        if z3.is_string_value(r):
            s = r.as_string()
            # z3 prints non-ASCII / control characters as \u{..}
            import re as _re
            return _re.sub(r"\\u\{([0-9a-fA-F]+)\}", lambda m: chr(int(m.group(1), 16)), s)
        if z3.is_true(r): return True
        if z3.is_false(r): return False
        return _Unspecified()

    def S(x):
        out = ""
        for ch in x:
            o = ord(ch)
            out += ch if 32 <= o < 127 and ch not in "\\" else "\\u{%x}" % o
        return z3.StringVal(out)
    I = z3.IntVal
    return {
        "smt_mod": lambda a, b: val(I(a) % I(b)),
        "smt_div": lambda a, b: val(I(a) / I(b)),
        "smt_abs": lambda a: abs(a),
        "smt_len": lambda s: val(z3.Length(S(s))),
        "smt_concat": lambda s, t: val(z3.Concat(S(s), S(t))),
        "smt_at": lambda s, i: val(S(s).at(I(i))),
        "smt_substr": lambda s, i, n: val(z3.SubString(S(s), I(i), I(n))),
        "smt_to_code": lambda s: val(z3.StrToCode(S(s))),
        "smt_str_lt": lambda s, t: val(S(s) < S(t)),
    }


def eval_clause(text: str, reg: Registry, bindings: Dict[str, Any], extra: Optional[Dict[str, Any]] = None):
    env = native_env(reg, extra)
    env.update(bindings)
    return eval(compile_clause(text), env)
