"""Mutation adequacy of the contracts (thorough tier, evidence only).

For every verified (non-assumed) contract of a property, the real function is
mutated mechanically on a scratch copy of /repo/src (outside /repo and /verif,
removed afterwards): comparison flips and boundary shifts, +/-1 on integer
constants, dropped `not`, and/or swaps, swapped first two call arguments,
`return` of a negated Boolean.  A mutant is *killed* if some obligation of the
contract is no longer discharged (refuted or undecided); a *survivor* is either
an equivalent mutant or a weakness of the contract -- survivors are listed in
the evidence.  Nothing here can raise a violation.

usage: python3-vt -m pyvc.mutate --property C04 --out FILE [--max-per-function N]
"""
from __future__ import annotations

import argparse
import ast
import copy
import json
import multiprocessing as mp
import os
import shutil
import sys
import tempfile
import time
from typing import Any, Dict, List, Tuple

sys.path.insert(0, os.path.dirname(os.path.dirname(os.path.abspath(__file__))))

CMP_SWAPS = {ast.Lt: [ast.LtE, ast.Gt], ast.LtE: [ast.Lt], ast.Gt: [ast.GtE, ast.Lt], ast.GtE: [ast.Gt],
             ast.Eq: [ast.NotEq], ast.NotEq: [ast.Eq], ast.Is: [ast.IsNot], ast.IsNot: [ast.Is]}


def mutants_of(fn_node: ast.AST) -> List[Tuple[str, ast.AST]]:
    """list of (description, mutated copy of fn_node)"""
    out: List[Tuple[str, ast.AST]] = []
    nodes = list(ast.walk(fn_node))

    def emit(desc: str, idx: int, mutate):
        clone = copy.deepcopy(fn_node)
        target = list(ast.walk(clone))[idx]
        if mutate(target) is not False:
            out.append((desc, clone))

    for idx, n in enumerate(nodes):
        ln = getattr(n, "lineno", 0)
        if isinstance(n, ast.Compare):
            for k, op in enumerate(n.ops):
                for new in CMP_SWAPS.get(type(op), []):
                    emit(f"L{ln}: {type(op).__name__} -> {new.__name__}", idx,
                         lambda t, k=k, new=new: t.ops.__setitem__(k, new()))
        elif isinstance(n, ast.Constant) and isinstance(n.value, int) and not isinstance(n.value, bool) \
                and abs(n.value) < 100:
            for d in (1, -1):
                emit(f"L{ln}: constant {n.value} -> {n.value + d}", idx,
                     lambda t, d=d: setattr(t, "value", t.value + d))
        elif isinstance(n, ast.UnaryOp) and isinstance(n.op, ast.Not):
            emit(f"L{ln}: dropped `not`", idx, lambda t: (setattr(t, "op", ast.UAdd()) or True) and _not_to_bool(t))
        elif isinstance(n, ast.BoolOp):
            new = ast.Or if isinstance(n.op, ast.And) else ast.And
            emit(f"L{ln}: {type(n.op).__name__} -> {new.__name__}", idx, lambda t, new=new: setattr(t, "op", new()))
        elif isinstance(n, ast.Call) and len(n.args) >= 2 and not any(isinstance(a, ast.Starred) for a in n.args):
            emit(f"L{ln}: swapped first two arguments of {ast.unparse(n.func)}", idx,
                 lambda t: t.args.__setitem__(slice(0, 2), [t.args[1], t.args[0]]))
        elif isinstance(n, ast.BinOp) and isinstance(n.op, (ast.Add, ast.Sub)) \
                and not isinstance(n.left, (ast.Tuple, ast.List)) and not isinstance(n.right, (ast.Tuple, ast.List)):
            new = ast.Sub if isinstance(n.op, ast.Add) else ast.Add
            emit(f"L{ln}: {type(n.op).__name__} -> {new.__name__}", idx, lambda t, new=new: setattr(t, "op", new()))
        elif isinstance(n, ast.Return) and isinstance(n.value, ast.Constant) and isinstance(n.value.value, bool):
            emit(f"L{ln}: return {n.value.value} -> {not n.value.value}", idx,
                 lambda t: setattr(t.value, "value", not t.value.value))
    return out


def _not_to_bool(t):
    # `not e` -> `bool(e)`
    e = t.operand
    t.__class__ = ast.Call
    t.func = ast.Name(id="bool", ctx=ast.Load())
    t.args = [e]
    t.keywords = []
    for a in ("op", "operand"):
        if hasattr(t, a):
            delattr(t, a)
    return True


def run_mutant(job) -> Dict[str, Any]:
    key, relpath, desc, new_src, scratch_root, idx = job
    d = os.path.join(scratch_root, f"m{idx}")
    shutil.copytree(os.path.join(scratch_root, "base"), d, symlinks=True)
    with open(os.path.join(d, relpath), "w", encoding="utf-8") as fh:
        fh.write(new_src)
    os.environ["PYVC_REPO_SRC"] = d
    os.environ["PYVC_TIMEOUT_MS"] = "20000"
    from pyvc import extract, prove
    extract.REPO_SRC = d
    extract._cache.clear()
    prove.TIMEOUT_MS = 20000
    t0 = time.time()
    try:
        r = prove.verify_contract((key, 0))
        obl = [o for o in r["obligations"] if o["kind"] != "cover"]
        bad = [o for o in obl if o["verdict"] != "proved"]
        status = r["status"]
        killed = bool(bad) or status != "ok"
        how = (bad[0]["name"] + ":" + bad[0]["verdict"]) if bad else status
    except Exception as exc:  # noqa
        killed, how = True, f"engine error {exc!r}"[:120]
    shutil.rmtree(d, ignore_errors=True)
    return dict(key=key, mutant=desc, killed=killed, how=how, time_s=round(time.time() - t0, 1))


def main():
    ap = argparse.ArgumentParser()
    ap.add_argument("--property", required=True)
    ap.add_argument("--out", required=True)
    ap.add_argument("--max-per-function", type=int, default=25)
    ap.add_argument("--jobs", type=int, default=min(16, os.cpu_count() or 4))
    a = ap.parse_args()
    from pyvc import contracts as C, extract
    reg = C.load_all()
    scratch_root = tempfile.mkdtemp(prefix="pyvc_mut_")
    try:
        shutil.copytree(extract.REPO_SRC, os.path.join(scratch_root, "base"), symlinks=True,
                        ignore=shutil.ignore_patterns("__pycache__", "*.pyc", "*.egg-info"))
        jobs = []
        idx = 0
        for key, c in reg.contracts.items():
            if a.property not in c.props or c.assumed:
                continue
            try:
                node, seg, sha, lineno = extract.find(c.file, c.qualname)
            except Exception:
                continue
            src, _ = extract.load_module(c.file)
            ms = mutants_of(node)
            # deterministic thinning
            if len(ms) > a.max_per_function:
                step = len(ms) / a.max_per_function
                ms = [ms[int(i * step)] for i in range(a.max_per_function)]
            for desc, mnode in ms:
                try:
                    new_seg = ast.unparse(mnode)
                except Exception:
                    continue
                if isinstance(node, ast.Lambda):
                    new_seg = "(" + new_seg + ")" if not new_seg.startswith("lambda") else new_seg
                # re-indent the unparsed function to the original column
                col = node.col_offset
                if not isinstance(node, ast.Lambda):
                    new_seg = "\n".join((" " * col + line) if k else line for k, line in enumerate(new_seg.splitlines()))
                if seg not in src:
                    continue
                new_src = src.replace(seg, new_seg, 1)
                try:
                    ast.parse(new_src)
                except SyntaxError:
                    continue
                jobs.append((key, c.file, desc, new_src, scratch_root, idx))
                idx += 1
        with mp.Pool(a.jobs) as pool:
            results = pool.map(run_mutant, jobs, chunksize=1)
    finally:
        shutil.rmtree(scratch_root, ignore_errors=True)
    killed = [r for r in results if r["killed"]]
    surv = [r for r in results if not r["killed"]]
    with open(a.out, "w") as fh:
        json.dump(dict(property=a.property, mutants=len(results), killed=len(killed), survived=len(surv),
                       survivors=[dict(function=r["key"].split("::")[-1], mutant=r["mutant"]) for r in surv],
                       sample_killed=[dict(function=r["key"].split("::")[-1], mutant=r["mutant"], by=r["how"]) for r in killed[:30]]),
                  fh, indent=1)
    print(f"pyvc.mutate: property={a.property} mutants={len(results)} killed={len(killed)} survived={len(surv)}")


if __name__ == "__main__":
    main()
