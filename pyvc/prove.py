"""Prover driver (runs under python3-vt: z3-solver 5.1).

usage: python3-vt -m pyvc.prove --property C04 --out FILE [--jobs N]

For every contract of the property: extract the real AST from /repo/src,
generate obligations, discharge them (z3 python API; z3 `unknown` goes to
/usr/bin/cvc5 and /usr/bin/z3 as SMT-LIB text), turn counter-models into
concrete arguments, and predict concrete results for the CPython cross-check.
The harness (/venv/bin/python) replays and compares.
"""
from __future__ import annotations

import argparse
import ast
import json
import multiprocessing as mp
import os
import random
import subprocess
import sys
import tempfile
import time
import traceback
from typing import Any, Dict, List, Optional, Tuple

import z3

sys.path.insert(0, os.path.dirname(os.path.dirname(os.path.abspath(__file__))))

from pyvc import contracts as C  # noqa: E402
from pyvc import extract  # noqa: E402
from pyvc.symexec import Engine, Obligation, Outcome  # noqa: E402
from pyvc.values import (TAny, TBool, TInt, TNone, TNStr, TOpt, TRec, TSeq, TTup, Unsupported, V, VAny, VBool,  # noqa: E402
                         VInt, VNone, VNStr, VOpt, VRec, VSeq, VTup, parse_type)

TIMEOUT_MS = int(os.environ.get("PYVC_TIMEOUT_MS", "120000"))     # full budget of the in-process solver
FIRST_MS = int(os.environ.get("PYVC_FIRST_MS", "15000"))           # first attempt before the portfolio
LEN_CAP = 12


# --------------------------------------------------------------------------
# model -> concrete JSON values
# --------------------------------------------------------------------------

def concretize(v: V, m: z3.ModelRef, eng: Engine, depth: int = 3) -> Any:
    ev = lambda t: m.eval(t, model_completion=True)
    if isinstance(v, VInt):
        r = ev(v.t)
        return r.as_long() if z3.is_int_value(r) else str(r)
    if isinstance(v, VBool):
        return z3.is_true(ev(v.t))
    if isinstance(v, VNone):
        return {"t": "none"}
    if isinstance(v, VNStr):
        r = ev(v.t)
        return {"t": "nstr", "v": r.as_string() if z3.is_string_value(r) else str(r)}
    if isinstance(v, VOpt):
        if z3.is_true(ev(v.is_none)):
            return {"t": "none"}
        return concretize(v.val, m, eng, depth)
    if isinstance(v, VTup):
        return {"t": v.kind, "v": [concretize(x, m, eng, depth) for x in v.items]}
    if isinstance(v, VSeq):
        n = ev(v.length)
        n = n.as_long() if z3.is_int_value(n) else 0
        trunc = n > LEN_CAP
        items = [concretize(v.at(z3.IntVal(k)), m, eng, depth) for k in range(max(0, min(n, LEN_CAP)))]
        if v.kind == "str":
            try:
                return {"t": "str", "v": "".join(chr(c) for c in items), **({"truncated_from": n} if trunc else {})}
            except (ValueError, TypeError):
                return {"t": "str_codepoints", "v": items}
        return {"t": v.kind, "v": items, **({"truncated_from": n} if trunc else {})}
    if isinstance(v, VRec):
        r = eng.reg.records.get(v.cls)
        out = {"t": "rec", "cls": v.cls, "fields": {}}
        if r is not None and depth > 0:
            for f in r.fields:
                try:
                    out["fields"][f] = concretize(eng.fac.field(v, f), m, eng, depth - 1)
                except Exception as exc:  # noqa
                    out["fields"][f] = f"<{exc}>"
        if v.cls == "Z3Expr":
            from pyvc.symexec import _Z3OP_IDS
            inv = {i: n for n, i in _Z3OP_IDS.items()}
            out["op_name"] = inv.get(out["fields"].get("op"))
        return out
    if isinstance(v, VAny):
        return {"t": "any", "v": str(ev(v.t))}
    return repr(v)


def size_terms(v: V, eng: Engine, out: List[Any], ints: List[Any], depth: int = 2):
    if isinstance(v, VInt):
        ints.append(v.t)
    elif isinstance(v, VSeq):
        out.append(v.length)
        if depth > 0:
            for k in range(3):
                size_terms(v.at(z3.IntVal(k)), eng, out, ints, depth - 1)
    elif isinstance(v, VTup):
        for x in v.items:
            size_terms(x, eng, out, ints, depth)
    elif isinstance(v, VOpt):
        size_terms(v.val, eng, out, ints, depth)
    elif isinstance(v, VNStr):
        out.append(z3.Length(v.t))


# --------------------------------------------------------------------------
# solving
# --------------------------------------------------------------------------

def run_external(smt2: str, timeout_s: int = int(os.environ.get("PYVC_EXT_TIMEOUT_S", "45"))) -> Tuple[str, str]:
    """returns (verdict, backend) from cvc5 / system z3 on SMT-LIB text"""
    with tempfile.NamedTemporaryFile("w", suffix=".smt2", delete=False) as fh:
        fh.write(smt2)
        path = fh.name
    try:
        # both external solvers run concurrently; the first definite answer wins
        procs = []
        for name, cmd in (("cvc5-1.0.3", ["/usr/bin/cvc5", f"--tlimit={timeout_s * 1000}", "--strings-exp", path]),
                          ("z3-4.8.12", ["/usr/bin/z3", f"-T:{timeout_s}", path])):
            try:
                procs.append((name, subprocess.Popen(cmd, stdout=subprocess.PIPE, stderr=subprocess.DEVNULL, text=True)))
            except Exception:
                continue
        deadline = time.time() + timeout_s + 5
        verdict, backend = "unknown", "none"
        pending = list(procs)
        while pending and time.time() < deadline and verdict == "unknown":
            for name, pr in list(pending):
                if pr.poll() is not None:
                    pending.remove((name, pr))
                    out = (pr.stdout.read() or "").strip().splitlines()
                    if out and out[0] in ("sat", "unsat"):
                        verdict, backend = out[0], name
                        break
            else:
                time.sleep(0.05)
        for name, pr in procs:
            if pr.poll() is None:
                pr.kill()
        return verdict, backend
    finally:
        os.unlink(path)


def bounded_sat(s: z3.Solver, eng: Engine):
    """satisfiability search helped by small size bounds (sat answers are real models)"""
    sizes: List[Any] = []
    ints: List[Any] = []
    for v in eng.inputs.values():
        size_terms(v, eng, sizes, ints)
    for bound in (2, 3):
        s.push()
        for t in sizes:
            s.add(t <= bound)
        for t in ints:
            s.add(t >= -bound - 1, t <= bound + 1)
        s.set("timeout", 5000)
        r = s.check()
        s.pop()
        if r == z3.sat:
            return r
    return z3.unknown


def finite_scope_model(s: z3.Solver, eng: Engine):
    from pyvc.values import _sorts
    sizes: List[Any] = []
    ints: List[Any] = []
    for v in eng.inputs.values():
        size_terms(v, eng, sizes, ints)
    for nobj, bound in ((3, 2), (4, 2)):
        s.push()
        try:
            for name, srt in _sorts.items():
                cs = [z3.Const(f"{name}!obj{k}", srt) for k in range(nobj)]
                x = z3.Const(f"{name}!x", srt)
                s.add(z3.ForAll([x], z3.Or(*[x == c for c in cs])))
            for t in sizes:
                s.add(t <= bound)
            for t in ints:
                s.add(t >= -1, t <= bound + 1)
            s.set("timeout", 30000)
            if s.check() == z3.sat:
                return s.model()
        finally:
            s.pop()
    return None


def split_goal(g) -> List[Any]:
    """conjunctive goals are proved conjunct by conjunct (also under a universal
    quantifier with an implication): smaller queries, more stable verdicts"""
    if z3.is_and(g):
        out = []
        for ch in g.children():
            out += split_goal(ch)
        return out
    if z3.is_quantifier(g) and g.is_forall() and g.num_vars() == 1:
        body = g.body()
        if z3.is_implies(body) and z3.is_and(body.arg(1)) :
            v = z3.Const(g.var_name(0), g.var_sort(0))
            ante = z3.substitute_vars(body.arg(0), v)
            parts = []
            for ch in body.arg(1).children():
                parts += split_goal(z3.ForAll([v], z3.Implies(ante, z3.substitute_vars(ch, v))))
            return parts
    return [g]


def solve_obligation(o: Obligation, eng: Engine) -> Dict[str, Any]:
    t0 = time.time()
    if o.kind not in ("cover",):
        parts = split_goal(o.goal)
        if len(parts) > 1:
            worst = None
            for k, gpart in enumerate(parts):
                sub = Obligation(o.name, o.kind, o.hyps, gpart, o.lineno, detail=o.detail)
                r = _solve_one(sub, eng)
                if r["verdict"] != "proved":
                    r["detail"] = (r.get("detail") or "") + f" [conjunct {k + 1}/{len(parts)}]"
                    if r["verdict"] == "refuted":
                        r["time_s"] = time.time() - t0
                        return r
                    worst = worst or r
            if worst is not None:
                worst["time_s"] = time.time() - t0
                return worst
            return dict(name=o.name, kind=o.kind, lineno=o.lineno, detail=o.detail, verdict="proved",
                        backend="z3-5.1.0", time_s=time.time() - t0, conjuncts=len(parts))
    return _solve_one(o, eng)


def _solve_one(o: Obligation, eng: Engine) -> Dict[str, Any]:
    t0 = time.time()
    res: Dict[str, Any] = dict(name=o.name, kind=o.kind, lineno=o.lineno, detail=o.detail)
    if o.kind != "cover" and z3.is_true(z3.simplify(o.goal)):
        res.update(verdict="proved", backend="syntactic", time_s=0.0)
        return res
    s = z3.Solver()
    s.set("timeout", FIRST_MS if o.kind != "cover" else 3000)
    for a in eng.axioms:
        s.add(a)
    for h in o.hyps:
        s.add(h)
    if o.kind != "cover":
        s.add(z3.Not(o.goal))
    r = s.check()
    backend = "z3-5.1.0"
    if o.kind == "cover":
        if r == z3.unknown:
            r = bounded_sat(s, eng)
        res.update(verdict={"sat": "reachable", "unsat": "dead", "unknown": "cover-unknown"}[str(r)],
                   backend=backend, time_s=time.time() - t0)
        return res
    verdict = str(r)
    if r == z3.unknown:
        # portfolio: the short first attempt was undecided -> the two external solvers (concurrently), then the
        # in-process solver again with the full budget
        v2, b2 = run_external(s.to_smt2())
        if v2 != "unknown":
            verdict, backend = v2, b2
        else:
            s.set("timeout", TIMEOUT_MS)
            r = s.check()
            verdict = str(r)
            seed_try = 0
            while r == z3.unknown and seed_try < 3:
                # quantifier instantiation is sensitive to the solver's random choices: a fresh solver with another
                # seed (same query, same budget) -- `unsat` and `sat` remain what they are, only `unknown` is retried
                seed_try += 1
                s2 = z3.Solver()
                s2.set("timeout", TIMEOUT_MS // 2)
                s2.set("random_seed", 17 * seed_try)
                for a in eng.axioms:
                    s2.add(a)
                for h in o.hyps:
                    s2.add(h)
                s2.add(z3.Not(o.goal))
                r = s2.check()
                verdict = str(r)
                if r != z3.unknown:
                    s = s2
                    backend = f"z3-5.1.0 (seed {17 * seed_try})"
    if verdict == "unsat":
        res.update(verdict="proved", backend=backend, time_s=time.time() - t0)
        return res
    if verdict == "unknown":
        # finite-scope refutation: a model with at most 4 objects per record sort, sequences of
        # length <= 2 and small integers is still a genuine counter-model of the obligation
        m = finite_scope_model(s, eng)
        if m is None:
            res.update(verdict="unknown", backend=backend, time_s=time.time() - t0,
                       reason=s.reason_unknown() if r == z3.unknown else "")
            return res
        res.update(verdict="refuted", backend=backend + " (finite scope)", time_s=time.time() - t0)
        try:
            res["model"] = {n: concretize(v, m, eng) for n, v in eng.inputs.items()}
        except Exception as exc:  # noqa
            res["model_error"] = repr(exc)
        return res
    # refuted: find a small model
    model = s.model() if r == z3.sat else None
    sizes: List[Any] = []
    ints: List[Any] = []
    for v in eng.inputs.values():
        size_terms(v, eng, sizes, ints)
    for bound in (1, 2, 3, 4, 6):
        s.push()
        for t in sizes:
            s.add(t <= bound)
        for t in ints:
            s.add(t >= -bound - 1, t <= bound + 1)
        s.set("timeout", 3000)
        if s.check() == z3.sat:
            model = s.model()
            s.pop()
            break
        s.pop()
    res.update(verdict="refuted", backend=backend, time_s=time.time() - t0)
    if model is not None:
        try:
            res["model"] = {n: concretize(v, model, eng) for n, v in eng.inputs.items()}
        except Exception as exc:  # noqa
            res["model_error"] = repr(exc)
    else:
        res["model"] = None
    return res


# --------------------------------------------------------------------------
# cross-check inputs
# --------------------------------------------------------------------------

def enum_type(t, rng: random.Random, n: int) -> List[Any]:
    """small concrete JSON values of a type (deterministic for a seed)"""
    if isinstance(t, TInt):
        base = [0, 1, -1, 2, 3, -2, 5, 28, 29]
        return base[:n]
    if isinstance(t, TBool):
        return [True, False]
    if isinstance(t, TNone) or isinstance(t, TAny):
        return [{"t": "none"}]
    if isinstance(t, TNStr):
        return [{"t": "nstr", "v": x} for x in ["", "a", "ab", "ba", "abc", "\n", "a\"b"]][:n]
    if isinstance(t, TSeq):
        if t.kind == "str":
            pool = ["", "a", "b", "ab", "ba", "\x01", "\x01\x02", "\x01\x03\x02", "\x02", "abc"]
            return [{"t": "str", "v": x} for x in pool[:n]]
        inner = enum_type(t.elt, rng, 4)
        out = [{"t": t.kind, "v": []}]
        for ln in (1, 2, 3):
            for _ in range(max(1, n // 3)):
                out.append({"t": t.kind, "v": [rng.choice(inner) for _ in range(ln)]})
        # dedupe
        seen, res = set(), []
        for x in out:
            k = json.dumps(x, sort_keys=True)
            if k not in seen:
                seen.add(k)
                res.append(x)
        return res[:n]
    if isinstance(t, TTup):
        cols = [enum_type(it, rng, 4) for it in t.items]
        out = []
        for _ in range(n):
            out.append({"t": t.kind, "v": [rng.choice(c) for c in cols]})
        return out
    if isinstance(t, TOpt):
        return [{"t": "none"}] + enum_type(t.t, rng, n - 1)
    if isinstance(t, TRec):
        r = C.REG.records.get(t.name)
        return [{"t": "rec", "cls": t.name, "fields": f} for f in (r.enum if r else [])]
    return []


def bind(v: V, val: Any, eng: Engine) -> List[Any]:
    if isinstance(v, VInt):
        return [v.t == int(val)]
    if isinstance(v, VBool):
        return [v.t == bool(val)]
    if isinstance(v, VNone) or isinstance(v, VAny):
        return []
    if isinstance(v, VNStr):
        return [v.t == z3.StringVal(val["v"])]
    if isinstance(v, VOpt):
        if isinstance(val, dict) and val.get("t") == "none":
            return [v.is_none]
        return [z3.Not(v.is_none)] + bind(v.val, val, eng)
    if isinstance(v, VTup):
        out = []
        for x, y in zip(v.items, val["v"]):
            out += bind(x, y, eng)
        return out
    if isinstance(v, VSeq):
        if val["t"] == "str":
            items = [ord(ch) for ch in val["v"]]
        else:
            items = val["v"]
        out = [v.length == len(items)]
        for k, it in enumerate(items):
            out += bind(v.at(z3.IntVal(k)), it, eng)
        return out
    if isinstance(v, VRec):
        out = []
        for f, fv in val["fields"].items():
            out += bind(eng.fac.field(v, f), fv, eng)
        return out
    raise Unsupported(f"bind {v!r}")


def crosscheck_inputs(c, eng: Engine, seed: int) -> List[Dict[str, Any]]:
    rng = random.Random(seed * 7919 + len(c.key))
    names = list(c.types.keys())
    cols = []
    for n in names:
        t = parse_type(c.types[n])
        vals = enum_type(t, rng, 10)
        hint = (c.path_hints or {}).get("enum", {}).get(n)
        if hint:
            vals = hint
        if not vals:
            return []
        cols.append(vals)
    out, seen = [], set()
    tries = 0
    want = int((c.path_hints or {}).get("crosscheck_n", 24))
    while len(out) < want and tries < want * 10:
        tries += 1
        combo = {n: rng.choice(col) for n, col in zip(names, cols)}
        k = json.dumps(combo, sort_keys=True)
        if k in seen:
            continue
        seen.add(k)
        out.append(combo)
    return out


def predict(eng: Engine, outcomes: List[Outcome], combo: Dict[str, Any]) -> Dict[str, Any]:
    binds: List[Any] = []
    for n, val in combo.items():
        binds += bind(eng.inputs[n], val, eng)
    # precondition must hold for the prediction to be meaningful
    s = z3.Solver()
    s.set("timeout", 3000)
    for a in eng.axioms:
        s.add(a)
    s.add(*binds)
    s.push()
    s.add(*eng.requires_pc)
    pre = s.check()
    s.pop()
    if pre != z3.sat:
        return {"pre": False if pre == z3.unsat else None}
    feasible = []
    for o in outcomes:
        s.push()
        s.add(*o.st.pc)
        r = s.check()
        if r == z3.sat:
            m = s.model()
            if o.kind == "return":
                val = concretize(o.value, m, eng)
                # uniqueness of the predicted value
                uniq = True
                try:
                    from pyvc.symexec import Engine as _E  # noqa
                    neq = z3.Not(eng.eq(o.value, const_value(val, o.value, eng)))
                    s.add(neq)
                    uniq = s.check() == z3.unsat
                except Unsupported:
                    uniq = None
                feasible.append({"kind": "return", "value": val, "determined": uniq})
            else:
                feasible.append({"kind": "raise", "exc": o.exc})
        elif r == z3.unknown:
            feasible.append({"kind": "unknown"})
        s.pop()
    return {"pre": True, "feasible": feasible}


def const_value(val: Any, like: V, eng: Engine) -> V:
    """a V holding the concrete JSON value, shaped like `like`"""
    if isinstance(like, VInt): return VInt(int(val))
    if isinstance(like, VBool): return VBool(bool(val))
    if isinstance(like, VNone): return VNone()
    if isinstance(like, VNStr): return VNStr(val["v"])
    if isinstance(like, VTup): return VTup([const_value(x, y, eng) for x, y in zip(val["v"], like.items)], like.kind)
    if isinstance(like, VSeq):
        if isinstance(val, dict) and val.get("t") == "str":
            cps = [ord(ch) for ch in val["v"]]
            return VSeq("str", len(cps), lambda i, cps=cps: VInt(Engine._const_at(cps, i)), TInt())
        items = val["v"]
        if like.elt is None or isinstance(like.elt, TInt):
            return VSeq(like.kind, len(items), lambda i, items=items: VInt(Engine._const_at([int(x) for x in items], i)), TInt())
        raise Unsupported("const of nested sequence")
    if isinstance(like, VOpt):
        if isinstance(val, dict) and val.get("t") == "none":
            return VNone()
        return const_value(val, like.val, eng)
    if isinstance(like, VRec):
        obj = eng.fac.mk(TRec(like.cls), "const_rec")
        raise Unsupported("const of record")
    raise Unsupported("const value")


# --------------------------------------------------------------------------
# per-contract job
# --------------------------------------------------------------------------

def verify_contract(job: Tuple[str, int]) -> Dict[str, Any]:
    key, seed = job
    reg = C.load_all()
    c = reg.contracts[key]
    out: Dict[str, Any] = dict(key=key, props=c.props, status="ok", obligations=[], dropped=[], crosscheck=[],
                               assumed=c.assumed, native=c.native, note=c.note)
    t0 = time.time()
    try:
        node, seg, sha, lineno = extract.find(c.file, c.qualname)
        out.update(source_hash=sha, lineno=lineno, source_lines=seg.count("\n") + 1)
    except (extract.NotFound, OSError, SyntaxError) as exc:
        if c.assumed:
            out.update(status="assumed", reason=c.why_assumed + " [no explicit definition in the source: generated or library code]")
            return out
        out.update(status="not_found", reason=str(exc))
        return out
    if c.assumed:
        out.update(status="assumed", reason=c.why_assumed)
        return out
    try:
        eng = Engine(reg, c, node)
        eng.native_strings = bool((c.path_hints or {}).get("native_strings"))
        outcomes = eng.run()
        out["paths"] = eng.n_paths
        out["dropped"] = eng.dropped + [f"decorator @{ast.unparse(d)}" for d in getattr(node, "decorator_list", [])]
        for o in eng.obls:
            out["obligations"].append(solve_obligation(o, eng))
        # requires must be satisfiable (anti-vacuity)
        s = z3.Solver()
        s.set("timeout", 3000)
        s.add(*eng.axioms)
        s.add(*eng.requires_pc)
        r = s.check()
        if r == z3.unknown:
            r = bounded_sat(s, eng)
        out["obligations"].append(dict(name="cover-requires", kind="cover", lineno=lineno, detail="requires is satisfiable",
                                       verdict={"sat": "reachable", "unsat": "dead", "unknown": "cover-unknown"}[str(r)],
                                       backend="z3-5.1.0", time_s=0.0))
        if c.native and c.crosscheck:
            for combo in crosscheck_inputs(c, eng, seed):
                try:
                    pred = predict(eng, outcomes, combo)
                except Unsupported as exc:
                    pred = {"pre": None, "error": str(exc)}
                out["crosscheck"].append({"input": combo, "pred": pred})
    except Unsupported as exc:
        out.update(status="unsupported", reason=str(exc))
    except Exception:
        out.update(status="error", reason=traceback.format_exc(limit=8))
    out["time_s"] = round(time.time() - t0, 3)
    return out


def verify_lemma(job: Tuple[str, int]) -> Dict[str, Any]:
    name, seed = job
    reg = C.load_all()
    l = reg.lemmas[name]
    out: Dict[str, Any] = dict(key="lemma::" + name, props=l.props, status="ok", obligations=[], dropped=[],
                               crosscheck=[], assumed=False, native=None, note=l.note, source_hash="-", lineno=0)
    t0 = time.time()
    try:
        dummy = C.Contract("lemma::" + name, types=l.types, props=list(l.props))
        eng = Engine(reg, dummy, None)
        env = {}
        pc = []
        from pyvc.values import wf_facts
        for n, tn in l.types.items():
            v = eng.fac.mk(parse_type(tn), n)
            env[n] = v
            eng.inputs[n] = v
            pc += wf_facts(v)
        eng.entry_env = env
        hyp = eng.truthy(eng.ev_clause(l.hyps, env))
        goal = eng.truthy(eng.ev_clause(l.goal, env))
        for uname, usub in l.uses:
            ul = reg.lemmas[uname]
            seen, stack = set(), [uname]
            while stack:
                x = stack.pop()
                if x == name:
                    raise Unsupported(f"lemma cycle through {uname}")
                if x not in seen:
                    seen.add(x)
                    stack += [u for u, _ in reg.lemmas[x].uses]
            envu = {var: eng.ev_clause(ex, env) for var, ex in usub.items()}
            pc = pc + [z3.Implies(eng.truthy(eng.ev_clause(ul.hyps, envu)), eng.truthy(eng.ev_clause(ul.goal, envu)))]
        if l.ih:
            guard = eng.truthy(eng.ev_clause(l.ih["guard"], env))
            env2 = dict(env)
            for var, ex in l.ih["subst"].items():
                env2[var] = eng.ev_clause(ex, env)
            ih = z3.Implies(eng.truthy(eng.ev_clause(l.hyps, env2)), eng.truthy(eng.ev_clause(l.goal, env2)))
            m0 = eng.as_int(eng.ev_clause(l.ih["measure"], env))
            m1 = eng.as_int(eng.ev_clause(l.ih["measure"], env2))
            od = Obligation("lemma-ih-decreases:" + name, "decreases", pc + [guard], z3.And(m0 >= 0, m1 < m0))
            out["obligations"].append(solve_obligation(od, eng))
            pc = pc + [z3.Implies(guard, ih)]
        if l.cases:
            cs = [eng.truthy(eng.ev_clause(ct, env)) for ct in l.cases]
            oe = Obligation("lemma-cases-exhaustive:" + name, "lemma", pc + [hyp], z3.Or(*cs))
            out["obligations"].append(solve_obligation(oe, eng))
            for k, cz in enumerate(cs):
                o = Obligation(f"lemma:{name}#case{k}", "lemma", pc + [hyp, cz], goal)
                out["obligations"].append(solve_obligation(o, eng))
        else:
            o = Obligation("lemma:" + name, "lemma", pc + [hyp], goal)
            out["obligations"].append(solve_obligation(o, eng))
        s = z3.Solver()
        s.set("timeout", 3000)
        s.add(*eng.axioms)
        s.add(*pc)
        s.add(hyp)
        r = s.check()
        if r == z3.unknown:
            r = bounded_sat(s, eng)
        out["obligations"].append(dict(name="cover-hyps", kind="cover", lineno=0, detail="lemma hypotheses satisfiable",
                                       verdict={"sat": "reachable", "unsat": "dead", "unknown": "cover-unknown"}[str(r)],
                                       backend="z3-5.1.0", time_s=0.0))
    except Unsupported as exc:
        out.update(status="unsupported", reason=str(exc))
    except Exception:
        out.update(status="error", reason=traceback.format_exc(limit=8))
    out["time_s"] = round(time.time() - t0, 3)
    return out


def main():
    ap = argparse.ArgumentParser()
    ap.add_argument("--property", required=True)
    ap.add_argument("--out", required=True)
    ap.add_argument("--jobs", type=int, default=min(16, os.cpu_count() or 4))
    ap.add_argument("--seed", type=int, default=0)
    ap.add_argument("--only", default=None)
    a = ap.parse_args()
    reg = C.load_all()
    keys = [k for k, c in reg.contracts.items() if a.property in c.props or a.property == "ALL"]
    lem = [n for n, l in reg.lemmas.items() if a.property in l.props or a.property == "ALL"]
    if a.only:
        keys = [k for k in keys if a.only in k]
        lem = [n for n in lem if a.only in n]
    results: List[Dict[str, Any]] = []
    jobs = [(k, a.seed) for k in keys]
    ljobs = [(n, a.seed) for n in lem]
    if a.jobs <= 1 or len(jobs) + len(ljobs) <= 1:
        results = [verify_contract(j) for j in jobs] + [verify_lemma(j) for j in ljobs]
    else:
        with mp.Pool(a.jobs) as pool:
            r1 = pool.map_async(verify_contract, jobs, chunksize=1)
            r2 = pool.map_async(verify_lemma, ljobs, chunksize=1)
            results = r1.get() + r2.get()
    with open(a.out, "w", encoding="utf-8") as fh:
        json.dump(dict(property=a.property, results=results), fh, indent=1)
    n_obl = sum(len([o for o in r["obligations"] if o["kind"] != "cover"]) for r in results)
    n_ok = sum(len([o for o in r["obligations"] if o["kind"] != "cover" and o["verdict"] == "proved"]) for r in results)
    print(f"pyvc: property={a.property} contracts={len(keys)} lemmas={len(lem)} obligations={n_ok}/{n_obl}")


if __name__ == "__main__":
    main()
