"""Self-test of the VC generator on its own corpus (setup_cmd): correct
functions must verify completely, broken ones must have a refuted obligation
with a model.  Exit 0 iff all expectations hold."""
import os
import sys

HERE = os.path.dirname(os.path.abspath(__file__))
os.environ["PYVC_REPO_SRC"] = os.path.join(HERE, "corpus")
sys.path.insert(0, os.path.dirname(HERE))

from pyvc import contracts as C  # noqa: E402
from pyvc import prove  # noqa: E402

PFX = "len(p) <= len(q) and forall(j, 0, len(p), p[j] == q[j])"
PQ = {"p": "Path", "q": "Path"}
EXPECT = {}


def reg(key, expect, **kw):
    C.contract("corpus.py::" + key, props=["SELF"], **kw)
    EXPECT["corpus.py::" + key] = expect


reg("prefix_good", "proved", types=PQ, returns="Bool", ensures="result == (" + PFX + ")", decreases="len(p)")
reg("prefix_bad", "refuted", types=PQ, returns="Bool", ensures="result == (" + PFX + ")", decreases="len(p)")
reg("mod_good", "proved", types={"a": "Int", "b": "Int"}, returns="Int", requires="b != 0",
    ensures="(b > 0 and 0 <= result and result < b or b < 0 and b < result and result <= 0) and implies(b == 3 and a == 0 - 7, result == 2) and implies(b == 0 - 3 and a == 7, result == 0 - 2)")
reg("set_good", "proved", types={"xs": "Path", "i": "Int", "x": "Int"}, returns="Path",
    requires="0 <= i and i < len(xs)",
    ensures="len(result) == len(xs) and result[i] == x and forall(j, 0, len(xs), implies(j != i, result[j] == xs[j]))")
reg("set_bad", "refuted", types={"xs": "Path", "i": "Int", "x": "Int"}, returns="Path",
    requires="0 <= i and i < len(xs)",
    ensures="len(result) == len(xs) and result[i] == x and forall(j, 0, len(xs), implies(j != i, result[j] == xs[j]))")
reg("first_bad", "refuted", types={"xs": "Path"}, returns="Int", ensures="True")
reg("count_pos", "proved", types={"xs": "Path"}, returns="Int",
    ensures="0 <= result and result <= len(xs) and implies(forall(j, 0, len(xs), xs[j] > 0), result == len(xs))",
    loops={0: dict(invariant="0 <= n and n <= _k and implies(forall(j, 0, _k, xs[j] > 0), n == _k)")})
reg("count_pos_bad", "refuted", types={"xs": "Path"}, returns="Int",
    ensures="implies(forall(j, 0, len(xs), xs[j] <= 0), result == 0)",
    loops={0: dict(invariant="implies(forall(j, 0, _k, xs[j] <= 0), n == 0)")})
reg("sum_to", "proved", types={"n": "Int"}, returns="Int", requires="n >= 0", ensures="2 * result == n * (n + 1)",
    loops={0: dict(invariant="0 <= i and i <= n and 2 * s == i * (i + 1)", variant="n - i")})
reg("div_or_default", "proved", types={"a": "Int", "b": "Int"}, returns="Int",
    ensures="implies(b == 0, result == 0) and implies(b == 1, result == a)")
reg("div_or_default_bad", "refuted", types={"a": "Int", "b": "Int"}, returns="Int",
    ensures="implies(b == 0, result == 0) and implies(b == 1, result == a)")
reg("restore_after", "proved", types={"xs": "Path", "i": "Int"}, returns="Tuple[Int,Int]",
    requires="i >= 0", ensures="result[1] == i and implies(i + 1 >= len(xs), result[0] == 0 - 1) and "
                                "implies(i + 1 < len(xs), result[0] == xs[i + 1])")
reg("restore_after_bad", "refuted", types={"xs": "Path", "i": "Int"}, returns="Tuple[Int,Int]",
    requires="i >= 0", ensures="result[1] == i")


def main() -> int:
    C._loaded = True        # do not load /verif/contracts for the self-test
    bad = 0
    for key, exp in EXPECT.items():
        r = prove.verify_contract((key, 0))
        obl = [o for o in r["obligations"] if o["kind"] != "cover"]
        verdicts = {o["verdict"] for o in obl}
        if r["status"] != "ok":
            got = r["status"] + ": " + r.get("reason", "")[:200]
            ok = False
        elif exp == "proved":
            ok = verdicts == {"proved"} and len(obl) > 0
            got = verdicts
        else:
            ok = any(o["verdict"] == "refuted" and o.get("model") is not None for o in obl)
            got = verdicts
        print(("ok   " if ok else "FAIL ") + key, "expected", exp, "got", got, f"({len(obl)} obligations)")
        if not ok:
            bad += 1
            for o in obl:
                print("     ", o["name"], o["verdict"], o.get("model"))
    return 1 if bad else 0


if __name__ == "__main__":
    sys.exit(main())
