"""Symbolic execution of the real function AST into verification conditions.

State = (path condition, environment).  `if` forks; a potentially raising
operation emits an `exc` obligation (the exception edge must be infeasible, or
allowed by the contract's `raises` clause) and execution continues on the
normal edge with the safety condition assumed.  Calls to contracted functions
emit `pre@callsite`, then assume only the callee's contract.  Loops need an
invariant.  See DESIGN.md 2.2-2.5 for the semantics assumed.
"""
from __future__ import annotations

import ast
import copy
import os
from typing import Any, Callable, Dict, List, Optional, Tuple

import z3

from .values import (Factory, T, TAny, TBool, TInt, TNone, TNStr, TOpt, TRec, TSeq, TSet, TTup, Unsupported, V, VAny,
                     VBool, VClass, VExc, VFunc, VInt, VNone, VNStr, VOpt, VRec, VSeq, VSet, VTup, fresh_name, parse_type,
                     sort_of, wf_facts)

MAX_CP = 0x10FFFF


class Obligation:
    def __init__(self, name: str, kind: str, hyps: List[Any], goal, lineno: int = 0, expect: str = "unsat",
                 detail: str = ""):
        self.name, self.kind, self.hyps, self.goal = name, kind, list(hyps), goal
        self.lineno, self.expect, self.detail = lineno, expect, detail


class State:
    def __init__(self, pc: List[Any], env: Dict[str, V], heap: Optional[Dict[str, List[Tuple[Any, V]]]] = None):
        # heap: per field, the ordered list of writes (object term, value) made on this path.  A read of
        # o.f is the store chain  ite(o == o_n, v_n, ... ite(o == o_1, v_1, F_f(o)))  -- alias-aware; fields
        # never written are read from the uninterpreted field functions F_f (entry values).
        self.pc, self.env = pc, env
        self.heap = heap if heap is not None else {}

    def fork(self, cond=None) -> "State":
        s = State(list(self.pc), dict(self.env), {k: list(v) for k, v in self.heap.items()})
        if cond is not None:
            s.pc.append(cond)
        return s


class Outcome:
    def __init__(self, kind: str, st: State, value: Optional[V] = None, exc: str = "", lineno: int = 0):
        self.kind, self.st, self.value, self.exc, self.lineno = kind, st, value, exc, lineno


def is_true(b) -> bool:
    return z3.is_true(z3.simplify(b))


def is_false(b) -> bool:
    return z3.is_false(z3.simplify(b))


def py_mod(a, b):
    m = a % b        # SMT-LIB mod: 0 <= m < |b|
    return z3.If(b > 0, m, z3.If(m == 0, m, m + b))


def py_floordiv(a, b):
    q = a / b        # SMT-LIB div on Int terms
    m = a % b
    return z3.If(b > 0, q, z3.If(m == 0, q, q - 1))


_Z3OP_IDS: Dict[str, int] = {}
_Z3_PRED_KIND: Dict[str, str] = {}
Z3_PY = os.environ.get("PYVC_Z3_PY", "/venv/lib/python3.12/site-packages/z3/z3.py")


def z3op_id(name: str) -> int:
    """abstract head-symbol category of a z3 term: one integer per distinct Z3_OP_* name (and per value
    category such as VALUE:is_int_value); only equality between categories is ever used"""
    if name not in _Z3OP_IDS:
        _Z3OP_IDS[name] = 1000 + len(_Z3OP_IDS)
    return _Z3OP_IDS[name]


def z3_pred_kind(pred: str) -> str:
    """the Z3_OP_* constant that the repo's own z3.is_<x>(a) tests (read from the z3 package the repo runs with:
    `def is_mod(a): return is_app_of(a, Z3_OP_MOD)`); predicates that are not of this shape are value categories"""
    if not _Z3_PRED_KIND:
        import re as _re
        try:
            src = open(Z3_PY, encoding="utf-8").read()
        except OSError:
            src = ""
        for m in _re.finditer(r"^def (is_\w+)\(a\):\n((?:    .*\n|\n)+)", src, _re.M):
            body = m.group(2)
            k = _re.search(r"return is_app_of\(a, (Z3_OP_\w+)\)", body)
            _Z3_PRED_KIND[m.group(1)] = k.group(1) if k else "VALUE:" + m.group(1)
    return _Z3_PRED_KIND.get(pred, "VALUE:" + pred)


class VariantSet:
    """several type variants of one method contract; resolved at the call by the argument values"""
    def __init__(self, cands):
        self.cands = cands
        self.is_property = False


class Engine:
    def __init__(self, reg, contract, fnode, class_node=None, module_node=None):
        self.reg = reg
        self.c = contract
        self.fnode = fnode
        self.class_node = class_node
        self.module_node = module_node
        self.fac = Factory(reg.records)
        self.obls: List[Obligation] = []
        self.spec_mode = 0
        self.guards: List[Any] = []
        self.inputs: Dict[str, V] = {}
        self.dropped: List[str] = []
        self.assumed_notes: List[str] = []
        self.loop_ordinal = 0
        self.emit = True
        self.axioms: List[Any] = []
        self.n_paths = 0
        self._rec_spec_funcs: Dict[str, Any] = {}
        self.hints_used: set = set()
        self.comp_ctx: List[Any] = []         # index terms of the comprehensions being evaluated
        self.comp_collect: Optional[List[Any]] = None
        self.comp_calls = 0
        self.fold_ordinal = 0
        try:
            from . import extract as _ex
            if contract.file.endswith(".py"):
                for n_ in ast.walk(_ex.load_module(contract.file)[1]):
                    if isinstance(n_, ast.ClassDef) and len(n_.bases) == 1 and isinstance(n_.bases[0], ast.Name) \
                            and n_.name not in EXC_PARENT and (n_.bases[0].id in EXC_PARENT or n_.bases[0].id == "BaseException"):
                        EXC_PARENT[n_.name] = n_.bases[0].id
                        EXC_NAMES.add(n_.name)
        except Exception:
            pass
        mentioned = " ".join(list(contract.types.values()) + list((contract.closure or {}).values()) + [contract.returns or ""])
        for ax in getattr(reg, "axioms", {}).values():
            # data-model axioms are only added where their record sort occurs (they would otherwise burden
            # every satisfiability search with quantifiers over an unrelated sort)
            if getattr(ax, "props", None):
                if not set(ax.props) & set(contract.props or []) or contract.qualname in getattr(ax, "not_for", []):
                    continue
            else:
                rec_types = [t for t in ax.types.values() if t.startswith("Rec:")]
                if rec_types and not any(t in mentioned for t in rec_types):
                    continue
                if not rec_types and not any(t in mentioned for t in ax.types.values()):
                    continue
            env = {}
            bound = []
            for n, tn in ax.types.items():
                v = self.fac.mk(parse_type(tn), "ax_" + ax.name + "_" + n)
                if not isinstance(v, (VRec, VAny, VInt, VBool)):
                    raise Unsupported("axiom over non-scalar variable")
                env[n] = v
                bound.append(v.t)
            self._cur_state = State([], env)
            body = self.truthy(self.ev_clause(ax.body, env, heap={}))
            self.axioms.append(z3.ForAll(bound, body) if bound else body)

    # ------------------------------------------------------------------ util
    qdepth = 0

    def bound_var(self, base: str = "b"):
        """canonical bound-variable constant for the current quantifier nesting
        depth, so that two evaluations of the same clause give structurally
        identical z3 quantifiers (z3 does not identify alpha-variants)."""
        v = z3.Int(f"{base}@{self.qdepth}")
        self.qdepth += 1
        return v

    def unbind(self):
        self.qdepth -= 1

    def oblige(self, st: State, name: str, kind: str, goal, lineno: int = 0, detail: str = ""):
        if self.spec_mode or not self.emit:
            return
        if is_true(goal):
            # trivially safe: still counted (generated mechanically), discharged syntactically
            self.obls.append(Obligation(name, kind, [], z3.BoolVal(True), lineno, detail=detail + " [trivial]"))
            return
        self.obls.append(Obligation(name, kind, st.pc + self.guards, goal, lineno, detail=detail))

    def safety(self, st: State, cond, excname: str, lineno: int, what: str):
        """exception edge: `cond` must hold, unless `raises` allows excname under
        a stated condition.  Afterwards the normal edge assumes cond."""
        if self.spec_mode or not self.emit:
            return
        frame = self.catching_frame(excname)
        if frame is not None:
            # inside a `try` whose handlers catch excname: the exception edge is control flow, not an obligation
            if not is_true(cond):
                est = st.fork()
                est.pc += list(self.guards) + [z3.Not(cond)]
                frame["edges"].append((excname, est, lineno))
            if not self.guards:
                st.pc.append(cond)
            return
        allowed = self.c.raises.get(excname)
        goal = cond
        if allowed is not None:
            self.spec_mode += 1
            try:
                a = self.truthy(self.ev_clause(allowed, self.entry_env))
            finally:
                self.spec_mode -= 1
            goal = z3.Or(cond, a)
        self.oblige(st, f"exc@L{lineno}:{excname}:{what}", "exc", goal, lineno, detail=f"{excname} impossible")
        if not self.guards:
            st.pc.append(cond)

    def str_id(self, v: VSeq):
        """a scalar standing for the *value* of a string term, so that strings can be arguments of the
        specification's uninterpreted functions: one constant per distinct string term, with
        id(a) == id(b) <=> a == b stated for every pair of string terms registered so far"""
        if not hasattr(self, "_str_ids"):
            self._str_ids = []
        key = self._vkey(v)
        for k_, v_, c_ in self._str_ids:
            if k_ == key:
                return c_
        c = z3.Const(f"strid#{len(self._str_ids)}", sort_of("StrId"))
        for _, v_, c_ in self._str_ids:
            self.axioms.append((c == c_) == self.eq(v, v_))
        self._str_ids.append((key, v, c))
        return c

    def catching_frame(self, excname: str):
        for fr in reversed(getattr(self, "try_stack", [])):
            if any(exc_is_a(excname, h) for h in fr["catches"]):
                return fr
        return None

    # ------------------------------------------------------------ conversions
    def truthy(self, v: V):
        if isinstance(v, VBool): return v.t
        if isinstance(v, VInt): return v.t != 0
        if isinstance(v, VSeq): return v.length > 0
        if isinstance(v, VTup): return z3.BoolVal(len(v.items) > 0)
        if isinstance(v, VNone): return z3.BoolVal(False)
        if isinstance(v, VNStr): return z3.Length(v.t) > 0
        if isinstance(v, VOpt): return z3.And(z3.Not(v.is_none), self.truthy(v.val))
        if isinstance(v, VRec):
            m = self.method_contract(v.cls, "__bool__")
            if m is None:
                return z3.BoolVal(True)
            return self.truthy(self.call_contract(m, [v], self._cur_state, 0))
        if isinstance(v, (VFunc, VClass)): return z3.BoolVal(True)
        raise Unsupported(f"truthiness of {v!r}")

    def as_int(self, v: V):
        if isinstance(v, VInt): return v.t
        if isinstance(v, VBool): return z3.If(v.t, z3.IntVal(1), z3.IntVal(0))
        if isinstance(v, VOpt): return self.as_int(v.val)     # None-ness is a separate safety condition
        raise Unsupported(f"int expected, got {v!r}")

    def to_seq(self, v: V) -> VSeq:
        if isinstance(v, VSeq): return v
        if isinstance(v, VTup):
            items = v.items

            def at(i, items=items):
                if not items:
                    return VInt(0)        # out of range for every index; value is irrelevant
                if z3.is_int_value(z3.simplify(i)):
                    k = z3.simplify(i).as_long()
                    if 0 <= k < len(items):
                        return items[k]
                res = items[-1]
                for k in range(len(items) - 2, -1, -1):
                    res = self.merge(i == k, items[k], res)
                return res
            return VSeq(v.kind, len(items), at, None)
        if isinstance(v, VOpt):
            return self.to_seq(v.val)
        raise Unsupported(f"sequence expected, got {v!r}")

    def merge(self, c, a: V, b: V) -> V:
        if is_true(c): return a
        if is_false(c): return b
        if isinstance(a, VBool) and isinstance(b, VBool): return VBool(z3.If(c, a.t, b.t))
        if isinstance(a, (VInt, VBool)) and isinstance(b, (VInt, VBool)):
            return VInt(z3.If(c, self.as_int(a), self.as_int(b)))
        if isinstance(a, VNStr) and isinstance(b, VNStr): return VNStr(z3.If(c, a.t, b.t))
        if isinstance(a, VRec) and isinstance(b, VRec) and a.cls == b.cls: return VRec(a.cls, z3.If(c, a.t, b.t))
        if isinstance(a, VAny) and isinstance(b, VAny): return VAny(z3.If(c, a.t, b.t))
        if isinstance(a, VNone) and isinstance(b, VNone): return a
        if isinstance(a, VSet) and isinstance(b, VSet):
            return VSet(lambda x, a=a, b=b, c=c: z3.If(c, a.member(x), b.member(x)))
        if isinstance(a, VTup) and isinstance(b, VTup) and len(a.items) == len(b.items) and a.kind == b.kind:
            return VTup([self.merge(c, x, y) for x, y in zip(a.items, b.items)], a.kind)
        if isinstance(a, (VSeq, VTup)) and isinstance(b, (VSeq, VTup)):
            sa, sb = self.to_seq(a), self.to_seq(b)
            if sa.kind != sb.kind:
                raise Unsupported("merge of sequences of different kinds")
            return VSeq(sa.kind, z3.If(c, sa.length, sb.length), lambda i: self.merge(c, sa.at(i), sb.at(i)), sa.elt or sb.elt)
        if isinstance(a, VNone) and not isinstance(b, VNone):
            bo = b if isinstance(b, VOpt) else VOpt(z3.BoolVal(False), b)
            return VOpt(z3.If(c, z3.BoolVal(True), bo.is_none), bo.val)
        if isinstance(b, VNone):
            ao = a if isinstance(a, VOpt) else VOpt(z3.BoolVal(False), a)
            return VOpt(z3.If(c, ao.is_none, z3.BoolVal(True)), ao.val)
        if isinstance(a, VOpt) or isinstance(b, VOpt):
            ao = a if isinstance(a, VOpt) else VOpt(z3.BoolVal(False), a)
            bo = b if isinstance(b, VOpt) else VOpt(z3.BoolVal(False), b)
            return VOpt(z3.If(c, ao.is_none, bo.is_none), self.merge(c, ao.val, bo.val))
        raise Unsupported(f"cannot merge {a!r} / {b!r}")

    def ident(self, a: V, b: V):
        """the two values are the same value / object (used for facts about what a constructor stores,
        where user-defined __eq__ must not interfere)"""
        self._identity = getattr(self, "_identity", 0) + 1
        try:
            return self.eq(a, b)
        finally:
            self._identity -= 1

    def eq(self, a: V, b: V):
        """Python == as a z3 Bool"""
        if isinstance(a, VOpt) or isinstance(b, VOpt):
            if isinstance(a, VNone): return b.is_none
            if isinstance(b, VNone): return a.is_none
            ao = a if isinstance(a, VOpt) else VOpt(z3.BoolVal(False), a)
            bo = b if isinstance(b, VOpt) else VOpt(z3.BoolVal(False), b)
            return z3.Or(z3.And(ao.is_none, bo.is_none),
                         z3.And(z3.Not(ao.is_none), z3.Not(bo.is_none), self.eq(ao.val, bo.val)))
        if isinstance(a, VNone) or isinstance(b, VNone):
            return z3.BoolVal(isinstance(a, VNone) and isinstance(b, VNone))
        if isinstance(a, (VInt, VBool)) and isinstance(b, (VInt, VBool)):
            if isinstance(a, VBool) and isinstance(b, VBool): return a.t == b.t
            return self.as_int(a) == self.as_int(b)
        if isinstance(a, VNStr) and isinstance(b, VNStr): return a.t == b.t
        if isinstance(a, VRec) and isinstance(b, VRec):
            if a.cls != b.cls: return z3.BoolVal(False)
            if getattr(self, "_identity", 0):
                return a.t == b.t
            m = self.method_contract(a.cls, "__eq__")
            if m is not None:
                return self.truthy(self.call_contract(m, [a, b], self._cur_state, 0))
            r = self.reg.records.get(a.cls)
            if r is not None and getattr(r, "construct", None) and r.fields and getattr(r, "value_eq", True):
                # dataclass-style structural equality over the declared fields
                return z3.And(*[self.eq(self.fac.field(a, f), self.fac.field(b, f)) for f in r.fields])
            return a.t == b.t
        if isinstance(a, VAny) and isinstance(b, VAny): return a.t == b.t
        if isinstance(a, VSet) and isinstance(b, VSet):
            x = z3.Const(f"e@{self.qdepth}", sort_of("Any"))
            self.qdepth += 1
            try:
                return z3.ForAll([x], a.member(x) == b.member(x))
            finally:
                self.qdepth -= 1
        if isinstance(a, VTup) and isinstance(b, VTup):
            if a.kind != b.kind or len(a.items) != len(b.items): return z3.BoolVal(False)
            return z3.And(*[self.eq(x, y) for x, y in zip(a.items, b.items)]) if a.items else z3.BoolVal(True)
        if isinstance(a, (VSeq, VTup)) and isinstance(b, (VSeq, VTup)):
            if isinstance(a, VTup) or isinstance(b, VTup):
                # fixed arity on one side: ground, element-wise equality (gives the solver the ground
                # element terms it needs as instantiation triggers)
                tup, other = (a, b) if isinstance(a, VTup) else (b, a)
                so = self.to_seq(other)
                if so.kind != tup.kind: return z3.BoolVal(False)
                parts = [so.length == len(tup.items)]
                parts += [self.eq(so.at(z3.IntVal(k)), it) for k, it in enumerate(tup.items)]
                return z3.And(*parts)
            sa, sb = self.to_seq(a), self.to_seq(b)
            if sa.kind != sb.kind: return z3.BoolVal(False)
            i = self.bound_var()
            try:
                body = self.eq(sa.at(i), sb.at(i))
            finally:
                self.unbind()
            return z3.And(sa.length == sb.length,
                          z3.ForAll([i], z3.Implies(z3.And(i >= 0, i < sa.length), body)))
        if type(a) is not type(b):
            if isinstance(a, (VInt, VBool, VNStr, VSeq, VTup)) and isinstance(b, (VInt, VBool, VNStr, VSeq, VTup)):
                return z3.BoolVal(False)
            if (isinstance(a, VRec) and isinstance(b, (VInt, VBool, VNStr, VSeq, VTup))) or \
                    (isinstance(b, VRec) and isinstance(a, (VInt, VBool, VNStr, VSeq, VTup))):
                # an object of a modelled class never equals a number / string / tuple (none of the modelled
                # classes defines such an __eq__)
                return z3.BoolVal(False)
        raise Unsupported(f"== on {a!r} / {b!r}")

    def fresh_like(self, v: V, base: str) -> V:
        n = fresh_name(base)
        if isinstance(v, VInt): return VInt(z3.Int(n))
        if isinstance(v, VBool): return VBool(z3.Bool(n))
        if isinstance(v, VNStr): return VNStr(z3.String(n))
        if isinstance(v, VRec): return self.fac.mk(TRec(v.cls), n)
        if isinstance(v, VAny): return self.fac.mk(TAny(), n)
        if isinstance(v, VNone): return v
        if isinstance(v, VSet): return self.fac.mk(TSet(), n)
        if isinstance(v, VSeq):
            if v.elt is None:
                raise Unsupported(f"cannot havoc sequence {base} of unknown element type (declare it in locals_types)")
            return self.fac.mk(TSeq(v.kind, v.elt), n)
        if isinstance(v, VTup): return VTup([self.fresh_like(x, base) for x in v.items], v.kind)
        if isinstance(v, VOpt): return VOpt(z3.Bool(n + ".isnone"), self.fresh_like(v.val, base))
        if isinstance(v, (VFunc, VClass)): return v
        raise Unsupported(f"cannot havoc {v!r}")

    # ----------------------------------------------------------- contracts
    def find_subclass(self, name: str):
        for r in self.reg.records.values():
            if name in getattr(r, "subclasses", {}):
                return r, r.subclasses[name]
        return None, None

    def method_contract(self, cls: str, name: str, args: Optional[List[V]] = None):
        """contract of a method; several type variants `Cls.m@tag` are selected by the argument values"""
        cands = [c for c in self.reg.contracts.values()
                 if c.qualname == f"{cls}.{name}" or c.qualname.startswith(f"{cls}.{name}@")]
        exact = [c for c in cands if c.qualname == f"{cls}.{name}"]
        if exact:
            return exact[0]
        if not cands:
            # inherited method: the contract is attached to the base class that defines it
            r_ = self.reg.records.get(cls)
            for b in (getattr(r_, "bases", None) or []):
                m_ = self.method_contract_in(b, name)
                if m_ is not None:
                    return m_
        cands = [c for c in cands if (c.path_hints or {}).get("callable_variant", False)]
        if not cands:
            return None
        if len(cands) == 1 and args is None:
            return cands[0]
        if args is None:
            return VariantSet(cands)
        return self.select_variant(cands, args)

    def method_contract_in(self, cls: str, name: str):
        for c in self.reg.contracts.values():
            if c.qualname == f"{cls}.{name}":
                return c
        return None

    def select_variant(self, cands, args: List[V]):
        def fits(v: V, t: T) -> bool:
            if isinstance(t, TAny): return True
            if isinstance(t, TNone): return isinstance(v, VNone)
            if isinstance(v, VNone): return isinstance(t, TOpt)
            if isinstance(t, TOpt): return isinstance(v, (VNone, VOpt)) or fits(v, t.t)
            if isinstance(v, VOpt): return fits(v.val, t)
            if isinstance(t, TRec): return isinstance(v, VRec) and v.cls == t.name
            if isinstance(t, TInt): return isinstance(v, (VInt, VBool))
            if isinstance(t, TBool): return isinstance(v, VBool)
            if isinstance(t, TNStr): return isinstance(v, VNStr)
            if isinstance(t, TSeq): return isinstance(v, (VSeq, VTup)) and self.to_seq(v).kind == t.kind
            if isinstance(t, TTup):
                return isinstance(v, VTup) and len(v.items) == len(t.items) and v.kind == t.kind and \
                    all(fits(x, y) for x, y in zip(v.items, t.items))
            return False
        for c in cands:
            params = self.params_of(c)
            if len(args) <= len(params) and all(fits(a, parse_type(c.types[p])) for p, a in zip(params, args) if p in c.types):
                return c
        raise Unsupported(f"no contract variant of {cands[0].qualname.split('@')[0]} fits the argument types")

    def ev_clause(self, text: str, env: Dict[str, V], heap: Optional[Dict] = None) -> V:
        node = ast.parse(text.strip(), mode="eval").body
        saved = getattr(self, "_cur_state", None)
        if heap is None:
            heap = saved.heap if saved is not None else {}
        st = State([], dict(env), heap)
        self.spec_mode += 1
        try:
            return self.ev(node, st)
        finally:
            self.spec_mode -= 1
            self._cur_state = saved

    def params_of(self, c, fnode=None) -> List[str]:
        if c.arg_order:
            return list(c.arg_order)
        return list(c.types.keys())

    def call_contract(self, c, args: List[V], st: State, lineno: int, kwargs: Optional[Dict[str, V]] = None) -> V:
        params = self.params_of(c)
        if len(args) > len(params):
            raise Unsupported(f"call of {c.key} with {len(args)} args, contract declares {len(params)}")
        env: Dict[str, V] = {}
        for p, a in zip(params, args):
            env[p] = self.coerce(a, parse_type(c.types[p])) if p in c.types else a
        for k, v in (kwargs or {}).items():
            env[k] = v
        for p in params:
            if p not in env:
                d = (c.path_hints or {}).get("defaults", {}).get(p)
                if d is not None:
                    dv = self.ev_clause(d, {})
                    env[p] = self.coerce(dv, parse_type(c.types[p])) if p in c.types else dv
        missing = [p for p in params if p not in env]
        if missing:
            raise Unsupported(f"call of {c.key}: missing args {missing} (defaults not modelled)")
        # ghost parameters (closure) of the callee are universally quantified at the call site
        ghost_bound = []
        for gname, gtype in (c.closure or {}).items():
            if gname in env:
                env[gname] = self.coerce(env[gname], parse_type(gtype))
                continue                      # ghost argument supplied by the caller
            gv = self.fac.mk(parse_type(gtype), f"{gname}@{self.qdepth}")
            if not isinstance(gv, (VRec, VAny, VInt, VBool)):
                raise Unsupported("non-scalar ghost parameter at a call site")
            self.qdepth += 1
            ghost_bound.append(gv.t)
            env[gname] = gv
        # pre@callsite
        if c.requires.strip() != "True":
            pre = self.truthy(self.ev_clause(c.requires, env, heap=st.heap))
            if ghost_bound:
                pre = z3.ForAll(ghost_bound, pre)
            self.oblige(st, f"pre@L{lineno}:{c.qualname}", "pre@callsite", pre, lineno)
            if not self.spec_mode and not self.guards:
                st.pc.append(pre)
        # exceptions the callee may raise propagate: the exception edge must be
        # infeasible here, or allowed by the caller's own raises clause
        # (conditions are evaluated in the pre-state; the callee's writes -- applied below, BEFORE the exception edges
        # are created -- are visible on the exceptional exits as well: a callee may modify and then raise)
        mays = [(exc_name, self.truthy(self.ev_clause(cond, env, heap=st.heap))) for exc_name, cond in c.raises.items()]
        # decreases for recursion
        if (c is self.c or c.key == (self.c.path_hints or {}).get("recursion_via")) and not self.spec_mode and self.emit:
            c_dec = self.c
            if not c_dec.decreases:
                raise Unsupported("recursive call without `decreases`")
            m_callee = self.as_int(self.ev_clause(c_dec.decreases, env))
            m_caller = self.as_int(self.ev_clause(c_dec.decreases, self.entry_env))
            self.oblige(st, f"decreases@L{lineno}", "decreases", z3.And(m_caller >= 0, m_callee < m_caller), lineno)
        if c.result_is is not None:
            for exc_name, may in mays:
                self.safety(st, z3.Not(may), exc_name, lineno, f"callee-{c.qualname}")
            res = self.ev_clause(c.result_is, env, heap=st.heap)
            self.qdepth -= len(ghost_bound)
            return self.coerce(res, parse_type(c.returns)) if c.returns != "Any" else res
        # the callee may write the listed fields of its `self`: havoc them, the ensures speaks about the new values
        if not self.spec_mode and c.result_is is None:
            for pname, flds in self.modifies_of(c).items():
                obj = env.get(pname)
                if isinstance(obj, VOpt):
                    obj = obj.val
                if not isinstance(obj, VRec):
                    continue
                for f in flds:
                    ft = parse_type(self.reg.records[obj.cls].fields[f])
                    st.heap.setdefault(f"{obj.cls}.{f}", []).append((obj.t, self.fac.mk(ft, fresh_name(f"{obj.cls}.{f}.after"))))
        for exc_name, may in mays:
            self.safety(st, z3.Not(may), exc_name, lineno, f"callee-{c.qualname}")
        rt = parse_type(c.returns)
        if self.comp_ctx:
            # inside a comprehension the result is a function of the index (same symbol on every evaluation)
            self.comp_calls += 1
            res = self.fac.mk(rt, f"res_{c.qualname}@L{lineno}#{self.comp_calls}", list(self.comp_ctx))
        else:
            res = self.fac.mk(rt, fresh_name(f"res_{c.qualname}"))
        facts = wf_facts(res)
        if c.ensures:
            env2 = dict(env)
            env2["result"] = res
            ens = self.truthy(self.ev_clause(c.ensures_text(), env2, heap=st.heap))
            facts.append(z3.ForAll(ghost_bound, ens) if ghost_bound else ens)
        self.qdepth -= len(ghost_bound)
        upd = (c.path_hints or {}).get("updates_argument")
        if upd and not self.spec_mode:
            # the callee mutates this parameter in place and returns it: the caller's variable holding the argument
            # denotes the updated value afterwards (only a plain name is accepted as the actual argument)
            anode = getattr(self, "_call_arg_nodes", {}).get(upd)
            if not isinstance(anode, ast.Name):
                raise Unsupported("in-place updated parameter passed as a non-name expression")
            st.env[anode.id] = res
        if self.comp_collect is not None:
            self.comp_collect.extend(facts)
            return res
        for f in facts:
            if self.guards:
                st.pc.append(z3.Implies(z3.And(*self.guards), f))
            else:
                st.pc.append(f)
        return res

    def coerce(self, v: V, t: T) -> V:
        if isinstance(t, TInt) and isinstance(v, VBool): return VInt(self.as_int(v))
        if isinstance(t, TBool) and isinstance(v, VInt): return v
        if isinstance(t, TSeq) and isinstance(v, VTup) and not v.items:
            return VSeq(v.kind, 0, lambda i, t=t: self.fac.mk(t.elt, "empty.el", [i]), t.elt)
        if isinstance(t, TSeq) and isinstance(v, VTup):
            s = self.to_seq(v)
            return VSeq(s.kind, s.length, s.at, t.elt)
        if isinstance(t, TSeq) and isinstance(v, VSeq) and v.elt is None:
            return VSeq(v.kind, v.length, v.at, t.elt)
        if isinstance(t, TOpt) and not isinstance(v, VOpt):
            if isinstance(v, VNone):
                return VOpt(z3.BoolVal(True), self.fac.mk(t.t, fresh_name("none_pad")))
            return VOpt(z3.BoolVal(False), self.coerce(v, t.t))
        return v

    # ------------------------------------------------------------ expressions
    def ev(self, node: ast.AST, st: State) -> V:
        self._cur_state = st
        ghost = (self.c.path_hints or {}).get("ghost_exprs") if not self.spec_mode else None
        if ghost and isinstance(node, (ast.GeneratorExp, ast.ListComp, ast.Call, ast.Subscript, ast.Attribute)):
            # an expression outside the subset is replaced by a declared ghost parameter (its value is
            # unconstrained: the obligations then hold whatever the expression evaluates to)
            txt = ast.unparse(node)
            if txt in ghost:
                note = f"expression `{txt[:60]}` abstracted by ghost parameter `{ghost[txt]}`"
                if note not in self.dropped:
                    self.dropped.append(note)
                return st.env[ghost[txt]]
        untracked = (self.c.path_hints or {}).get("untracked_fields") if not self.spec_mode else None
        if untracked:
            tgt = None
            if isinstance(node, ast.Compare) and len(node.ops) == 1 and isinstance(node.ops[0], (ast.In, ast.NotIn)):
                tgt = node.comparators[0]
            elif isinstance(node, ast.Subscript):
                tgt = node.value
            if isinstance(tgt, ast.Attribute) and tgt.attr in untracked:
                note = f"reads of the untracked field `{tgt.attr}` are unconstrained (any value)"
                if note not in self.dropped: self.dropped.append(note)
                if isinstance(node, ast.Compare):
                    return VBool(z3.Bool(fresh_name("untracked_in")))
                return self.fac.mk(TAny(), fresh_name("untracked_read"))
        ghost_calls = (self.c.path_hints or {}).get("calls") if not self.spec_mode else None
        if ghost_calls and isinstance(node, (ast.Call, ast.Subscript, ast.Compare)):
            txt = ast.unparse(node)
            if txt in ghost_calls:
                return self.ghost_call(ghost_calls[txt], txt, node, st)
        m = getattr(self, "ev_" + type(node).__name__, None)
        if m is None:
            raise Unsupported(f"expression {type(node).__name__} at L{getattr(node, 'lineno', '?')}")
        return m(node, st)

    def ghost_call(self, g: str, txt: str, node, st):
        if g.startswith("call:"):
            # the expression is replaced by a call of a named (assumed) contract of the dependency:
            # "call:<contract qualname>|<argument expressions over the local names>"
            cname, _, argtxt = g[5:].partition("|")
            cname = cname.strip()
            cnode = ast.parse("f(" + argtxt + ")", mode="eval").body
            cc = self.reg.by_name(cname)
            if cc is None:
                raise Unsupported(f"ghost call of unknown contract {cname}")
            note = f"expression `{txt[:60]}` modelled by the contract of {cc.key}"
            if note not in self.dropped:
                self.dropped.append(note)
            cargs = [self.ev(a, st) for a in cnode.args]
            ckw = {k.arg: self.ev(k.value, st) for k in cnode.keywords if k.arg}     # ghost arguments by name
            self._call_arg_nodes = dict(zip(self.params_of(cc), cnode.args))
            try:
                return self.call_contract(cc, cargs, st, node.lineno, ckw)
            finally:
                self._call_arg_nodes = {}
        note = f"expression `{txt[:60]}` abstracted by the ghost term `{g[:60]}`"
        if note not in self.dropped:
            self.dropped.append(note)
        return st.env[g] if g in st.env else self.ev_clause(g, st.env, heap=st.heap)

    def ev_Constant(self, node, st):
        v = node.value
        if isinstance(v, bool): return VBool(v)
        if isinstance(v, int): return VInt(v)
        if v is None: return VNone()
        if isinstance(v, str):
            if self.native_strings:
                return VNStr(v)
            cps = [ord(ch) for ch in v]
            return VSeq("str", len(cps), lambda i, cps=cps: VInt(self._const_at(cps, i)), TInt())
        raise Unsupported(f"constant {v!r}")

    native_strings = False

    @staticmethod
    def _const_at(cps: List[int], i):
        if not cps:
            return z3.IntVal(0)
        res = z3.IntVal(cps[-1])
        si = z3.simplify(i) if not isinstance(i, int) else z3.IntVal(i)
        if z3.is_int_value(si):
            k = si.as_long()
            return z3.IntVal(cps[k]) if 0 <= k < len(cps) else z3.IntVal(0)
        for k in range(len(cps) - 2, -1, -1):
            res = z3.If(i == k, z3.IntVal(cps[k]), res)
        return res

    def ev_Name(self, node, st):
        n = node.id
        if n in st.env: return st.env[n]
        if n in ("True", "False"): return VBool(n == "True")
        if n == "str": return VClass("str")
        if n == "Nothing": return VNone()          # returns.maybe.Nothing modelled as None of an Optional
        if n in self.reg.specs: return VFunc(builtin="spec:" + n, name=n)
        if n in BUILTINS: return VFunc(builtin=n, name=n)
        if n in self.reg.records: return VClass(n)
        if self.find_subclass(n)[0] is not None: return VClass(n)
        c = self.reg.by_name(n, prefer_file=self.c.file)
        if c is not None: return VFunc(contract=c, name=n)
        if n in EXC_NAMES: return VExc(n)
        raise Unsupported(f"free name {n!r} at L{node.lineno}")

    def ev_Tuple(self, node, st):
        items = []
        for e in node.elts:
            if isinstance(e, ast.Starred):
                raise Unsupported("starred in tuple display")
            items.append(self.ev(e, st))
        return VTup(items, "tuple")

    def ev_List(self, node, st):
        items = []
        for e in node.elts:
            if isinstance(e, ast.Starred):
                raise Unsupported("starred in list display")
            items.append(self.ev(e, st))
        return VTup(items, "list")

    def ev_Set(self, node, st):
        items = []
        for e in node.elts:
            v = self.ev(e, st)
            if isinstance(v, VOpt): v = v.val
            if not isinstance(v, VAny):
                raise Unsupported("set display of non-opaque values")
            items.append(v.t)
        return VSet(lambda x, items=items: z3.Or(*[x == it for it in items]) if items else z3.BoolVal(False))

    def ev_Dict(self, node, st):
        if len(node.keys) != 1 or node.keys[0] is None:
            raise Unsupported("dict display (only single-entry displays {k: v} are modelled)")
        return VTup([self.ev(node.keys[0], st), self.ev(node.values[0], st)], "dict")

    def ev_UnaryOp(self, node, st):
        v = self.ev(node.operand, st)
        if isinstance(node.op, ast.Not): return VBool(z3.Not(self.truthy(v)))
        if isinstance(node.op, ast.USub):
            if isinstance(v, VRec):
                m = self.method_contract(v.cls, "__neg__")
                if m: return self.call_contract(m, [v], st, node.lineno)
            return VInt(-self.as_int(v))
        if isinstance(node.op, ast.UAdd): return VInt(self.as_int(v))
        raise Unsupported("unary op")

    def ev_BoolOp(self, node, st):
        is_and = isinstance(node.op, ast.And)
        vals: List[V] = []
        pushed = 0
        try:
            for e in node.values:
                v = self.ev(e, st)
                vals.append(v)
                g = self.truthy(v)
                if (is_and and is_false(g)) or (not is_and and is_true(g)):
                    break                   # statically decided: Python does not evaluate the rest either
                self.guards.append(g if is_and else z3.Not(g))
                pushed += 1
        finally:
            for _ in range(pushed):
                self.guards.pop()
        if all(isinstance(v, VBool) for v in vals):
            ts = [v.t for v in vals]
            return VBool(z3.And(*ts) if is_and else z3.Or(*ts))
        # value-returning and/or: x and y == (y if x else x)
        res = vals[-1]
        for v in reversed(vals[:-1]):
            t = self.truthy(v)
            try:
                res = self.merge(t, res, v) if is_and else self.merge(t, v, res)
            except Unsupported:
                ts = [self.truthy(x) for x in vals]
                return VBool(z3.And(*ts) if is_and else z3.Or(*ts))
        return res

    def ev_IfExp(self, node, st):
        c = self.truthy(self.ev(node.test, st))
        if is_true(c): return self.ev(node.body, st)
        if is_false(c): return self.ev(node.orelse, st)
        self.guards.append(c)
        try:
            a = self.ev(node.body, st)
        finally:
            self.guards.pop()
        self.guards.append(z3.Not(c))
        try:
            b = self.ev(node.orelse, st)
        finally:
            self.guards.pop()
        return self.merge(c, a, b)

    def ev_Compare(self, node, st):
        left = self.ev(node.left, st)
        conj = []
        pushed = 0
        try:
            for op, rn in zip(node.ops, node.comparators):
                right = self.ev(rn, st)
                t = self.compare(op, left, right, st, node.lineno)
                conj.append(t)
                self.guards.append(t)
                pushed += 1
                left = right
        finally:
            for _ in range(pushed):
                self.guards.pop()
        return VBool(z3.And(*conj) if len(conj) > 1 else conj[0])

    def compare(self, op, a: V, b: V, st, lineno):
        if isinstance(op, ast.Eq): return self.eq(a, b)
        if isinstance(op, ast.NotEq): return z3.Not(self.eq(a, b))
        if isinstance(op, (ast.Is, ast.IsNot)):
            if isinstance(b, VNone) or isinstance(a, VNone):
                other = a if isinstance(b, VNone) else b
                if isinstance(other, VOpt): r = other.is_none
                elif isinstance(other, VNone): r = z3.BoolVal(True)
                else: r = z3.BoolVal(False)
            elif isinstance(a, VBool) and isinstance(b, VBool):
                r = a.t == b.t
            elif isinstance(a, VOpt) and isinstance(b, VBool) and isinstance(a.val, VBool):
                r = z3.And(z3.Not(a.is_none), a.val.t == b.t)
            elif isinstance(a, VRec) and isinstance(b, VRec):
                r = a.t == b.t
            else:
                raise Unsupported(f"`is` on {a!r}/{b!r}")
            return r if isinstance(op, ast.Is) else z3.Not(r)
        if isinstance(op, (ast.Lt, ast.LtE, ast.Gt, ast.GtE)):
            if isinstance(a, VOpt):
                self.safety(st, z3.Not(a.is_none), "TypeError", lineno, "order-None")
                a = a.val
            if isinstance(b, VOpt):
                self.safety(st, z3.Not(b.is_none), "TypeError", lineno, "order-None")
                b = b.val
            if isinstance(a, (VInt, VBool)) and isinstance(b, (VInt, VBool)):
                x, y = self.as_int(a), self.as_int(b)
                return {ast.Lt: x < y, ast.LtE: x <= y, ast.Gt: x > y, ast.GtE: x >= y}[type(op)]
            if isinstance(a, VNStr) and isinstance(b, VNStr):
                # Python compares code points lexicographically = SMT-LIB str.< / str.<=
                return {ast.Lt: a.t < b.t, ast.LtE: a.t <= b.t, ast.Gt: b.t < a.t, ast.GtE: b.t <= a.t}[type(op)]
            raise Unsupported(f"ordering on {a!r}/{b!r}")
        if isinstance(op, (ast.In, ast.NotIn)) and isinstance(b, VSet):
            if isinstance(a, VOpt): a = a.val
            if not isinstance(a, VAny):
                raise Unsupported("membership of a non-opaque value in a set")
            r = b.member(a.t)
            return r if isinstance(op, ast.In) else z3.Not(r)
        if isinstance(op, (ast.In, ast.NotIn)):
            s = self.to_seq(b)
            if s.kind == "str":
                raise Unsupported("substring test")
            i = self.bound_var()
            try:
                r = z3.Exists([i], z3.And(i >= 0, i < s.length, self.eq(s.at(i), a)))
            finally:
                self.unbind()
            return r if isinstance(op, ast.In) else z3.Not(r)
        raise Unsupported("comparison operator")

    def ev_BinOp(self, node, st):
        a = self.ev(node.left, st)
        b = self.ev(node.right, st)
        return self.binop(node.op, a, b, st, node.lineno)

    def binop(self, op, a: V, b: V, st, lineno) -> V:
        if isinstance(a, VOpt):
            self.safety(st, z3.Not(a.is_none), "TypeError", lineno, "operand-None")
            a = a.val
        if isinstance(b, VOpt):
            self.safety(st, z3.Not(b.is_none), "TypeError", lineno, "operand-None")
            b = b.val
        if isinstance(a, VRec):
            name = {ast.BitAnd: "__and__", ast.BitOr: "__or__", ast.Add: "__add__", ast.Sub: "__sub__"}.get(type(op))
            m = self.method_contract(a.cls, name) if name else None
            if m: return self.call_contract(m, [a, b], st, lineno)
            raise Unsupported(f"operator on record {a.cls}")
        if isinstance(op, ast.BitOr) and isinstance(a, VSet) and isinstance(b, VSet):
            return VSet(lambda x, a=a, b=b: z3.Or(a.member(x), b.member(x)))
        if isinstance(op, ast.Add):
            if isinstance(a, (VInt, VBool)) and isinstance(b, (VInt, VBool)):
                return VInt(self.as_int(a) + self.as_int(b))
            if isinstance(a, VNStr) and isinstance(b, VNStr):
                return VNStr(z3.Concat(a.t, b.t))
            if isinstance(a, (VSeq, VTup)) and isinstance(b, (VSeq, VTup)):
                if isinstance(a, VTup) and isinstance(b, VTup) and a.kind == b.kind:
                    return VTup(a.items + b.items, a.kind)
                sa, sb = self.to_seq(a), self.to_seq(b)
                self.safety(st, z3.BoolVal(sa.kind == sb.kind), "TypeError", lineno, "concat-kinds")
                la = sa.length
                return VSeq(sa.kind, la + sb.length,
                            lambda i: self.merge(i < la, sa.at(i), sb.at(i - la)), sa.elt or sb.elt)
            self.safety(st, z3.BoolVal(False), "TypeError", lineno, "add-types")
            raise Unsupported(f"+ on {a!r}/{b!r}")
        if isinstance(op, (ast.BitAnd, ast.BitOr)) and isinstance(a, VBool) and isinstance(b, VBool):
            return VBool(z3.And(a.t, b.t) if isinstance(op, ast.BitAnd) else z3.Or(a.t, b.t))
        if isinstance(a, (VInt, VBool)) and isinstance(b, (VInt, VBool)):
            x, y = self.as_int(a), self.as_int(b)
            if isinstance(op, ast.Sub): return VInt(x - y)
            if isinstance(op, ast.Mult): return VInt(x * y)
            if isinstance(op, ast.Mod):
                self.safety(st, y != 0, "ZeroDivisionError", lineno, "mod-by-zero")
                return VInt(py_mod(x, y))
            if isinstance(op, ast.FloorDiv):
                self.safety(st, y != 0, "ZeroDivisionError", lineno, "div-by-zero")
                return VInt(py_floordiv(x, y))
        raise Unsupported(f"binary operator {type(op).__name__} on {a!r}/{b!r}")

    def norm_index(self, i, n):
        return z3.If(i < 0, i + n, i)

    def ev_Subscript(self, node, st):
        base = self.ev(node.value, st)
        if isinstance(base, VOpt):
            self.safety(st, z3.Not(base.is_none), "TypeError", node.lineno, "subscript-None")
            base = base.val
        if isinstance(node.slice, ast.Slice):
            return self.slice(base, node.slice, st, node.lineno)
        idx = self.ev(node.slice, st)
        if isinstance(base, VRec):
            m = self.method_contract(base.cls, "__getitem__")
            if m is None:
                raise Unsupported(f"subscript on record {base.cls}")
            return self.call_contract(m, [base, idx], st, node.lineno)
        if isinstance(base, VNStr):
            i = self.as_int(idx)
            n = z3.Length(base.t)
            self.safety(st, z3.And(i >= -n, i < n), "IndexError", node.lineno, "str-index")
            return VNStr(z3.SubString(base.t, self.norm_index(i, n), 1))
        if isinstance(base, VTup):
            si = z3.simplify(self.as_int(idx))
            if z3.is_int_value(si):
                k = si.as_long()
                ok = -len(base.items) <= k < len(base.items)
                self.safety(st, z3.BoolVal(ok), "IndexError", node.lineno, "tuple-index")
                if not ok:
                    raise Unsupported("constant index out of range")
                return base.items[k]
        s = self.to_seq(base)
        i = self.as_int(idx)
        n = s.length
        self.safety(st, z3.And(i >= -n, i < n), "IndexError", node.lineno, "index")
        el = s.at(self.norm_index(i, n))
        if s.kind == "str":
            cp = el
            return VSeq("str", 1, lambda _i, cp=cp: cp, TInt())
        return el

    def slice(self, base: V, sl: ast.Slice, st, lineno) -> V:
        if sl.step is not None:
            raise Unsupported("slice step")
        lo = self.as_int(self.ev(sl.lower, st)) if sl.lower is not None else None
        hi = self.as_int(self.ev(sl.upper, st)) if sl.upper is not None else None
        if isinstance(base, VNStr):
            n = z3.Length(base.t)
        else:
            s = self.to_seq(base)
            n = s.length

        def clamp(x):
            x = z3.If(x < 0, x + n, x)
            return z3.If(x < 0, z3.IntVal(0), z3.If(x > n, n, x))
        a = clamp(lo) if lo is not None else z3.IntVal(0)
        b = clamp(hi) if hi is not None else n
        ln = z3.If(b - a < 0, z3.IntVal(0), b - a)
        if isinstance(base, VNStr):
            return VNStr(z3.SubString(base.t, a, ln))
        return VSeq(s.kind, ln, lambda i: s.at(a + i), s.elt)

    def ev_Attribute(self, node, st):
        if isinstance(node.value, ast.Name) and node.value.id == "operator" and "operator" not in st.env:
            return VFunc(builtin="operator." + node.attr, name="operator." + node.attr)
        if isinstance(node.value, ast.Name) and node.value.id == "z3" and "z3" not in st.env:
            # model of the z3 term-inspection API (ASSUMED, listed): head-symbol categories
            if node.attr.startswith("Z3_OP_"):
                return VInt(z3op_id(node.attr))
            if node.attr.startswith("is_"):
                return VFunc(builtin="z3." + node.attr, name="z3." + node.attr)
            raise Unsupported(f"z3.{node.attr}")
        if isinstance(node.value, ast.Name) and node.value.id in self.reg.records and node.value.id not in st.env:
            cls = node.value.id
            const = self.class_const(cls, node.attr)
            if const is not None: return const
            m = self.method_contract(cls, node.attr)
            if m: return VFunc(contract=m, name=f"{cls}.{node.attr}")
            raise Unsupported(f"class attribute {cls}.{node.attr}")
        base = self.ev(node.value, st)
        if isinstance(base, VOpt):
            self.safety(st, z3.Not(base.is_none), "AttributeError", node.lineno, "attr-of-None")
            base = base.val
        if isinstance(base, VRec):
            r = self.reg.records.get(base.cls)
            attr = node.attr
            if r and attr.startswith("__") and not attr.endswith("__") and f"_{base.cls}{attr}" in r.fields:
                attr = f"_{base.cls}{attr}"
            if r and attr in r.fields:
                return self.read_field(base, attr, st.heap)
            const = self.class_const(base.cls, attr)
            if const is not None: return const
            m = self.method_contract(base.cls, attr)
            if m and m.is_property:
                return self.call_contract(m, [base], st, node.lineno)
            if m: return VFunc(contract=m, name=f"{base.cls}.{attr}", env={"__self__": base})
            raise Unsupported(f"attribute {base.cls}.{attr} at L{node.lineno}")
        raise Unsupported(f"attribute .{node.attr} on {base!r} at L{node.lineno}")

    def class_const(self, cls: str, name: str) -> Optional[V]:
        from . import extract
        r = self.reg.records.get(cls)
        if r is None or not r.file:
            return None
        try:
            cnode, _, _, _ = extract.find(r.file, cls)
        except extract.NotFound:
            return None
        for s in cnode.body:
            if isinstance(s, ast.Assign) and len(s.targets) == 1 and isinstance(s.targets[0], ast.Name) \
                    and s.targets[0].id == name and isinstance(s.value, ast.Constant):
                v = s.value.value
                if isinstance(v, bool): return VBool(v)
                if isinstance(v, int): return VInt(v)
        return None

    def ev_Lambda(self, node, st):
        return VFunc(node=node, env=dict(st.env), name="<lambda>")

    def ev_JoinedStr(self, node, st):
        raise Unsupported("f-string")

    # comprehension helpers ---------------------------------------------------
    def comp_parts(self, node, st):
        if len(node.generators) != 1:
            raise Unsupported("nested comprehension")
        g = node.generators[0]
        if g.is_async:
            raise Unsupported("async comprehension")
        it = self.iter_seq(g.iter, st)
        return g, it

    def iter_seq(self, it_node, st) -> VSeq:
        """the sequence iterated by a for/comprehension; range() and enumerate() supported"""
        if isinstance(it_node, ast.Call) and isinstance(it_node.func, ast.Name) and it_node.func.id not in st.env:
            fn = it_node.func.id
            if fn == "range":
                args = [self.as_int(self.ev(a, st)) for a in it_node.args]
                if len(args) == 1: lo, hi = z3.IntVal(0), args[0]
                elif len(args) == 2: lo, hi = args
                else: raise Unsupported("range with step")
                ln = z3.If(hi - lo < 0, z3.IntVal(0), hi - lo)
                return VSeq("list", ln, lambda i, lo=lo: VInt(lo + i), TInt())
            if fn == "enumerate" and len(it_node.args) == 1:
                s = self.to_seq(self.ev(it_node.args[0], st))
                return VSeq("list", s.length, lambda i, s=s: VTup([VInt(i), self.elem(s, i)]), None)
            if fn == "reversed" and len(it_node.args) == 1:
                s = self.to_seq(self.ev(it_node.args[0], st))
                return VSeq("list", s.length, lambda i, s=s: self.elem(s, s.length - 1 - i), s.elt)
        return self.to_seq(self.ev(it_node, st))

    def elem(self, s: VSeq, i) -> V:
        el = s.at(i)
        if s.kind == "str":
            return VSeq("str", 1, lambda _i, el=el: el, TInt())
        return el

    def read_field(self, obj: VRec, f: str, heap) -> V:
        val = self.fac.field(obj, f)
        for t, v in heap.get(f"{obj.cls}.{f}", []):
            if isinstance(t, str) and t == "ALLOBJ":
                ft, ver = v
                val = self.fac.mk(ft, ver, [obj.t])      # a havocked version of the whole field
            else:
                val = self.merge(obj.t == t, v, val)
        return val

    def resolve_field(self, cls: str, attr: str) -> Optional[str]:
        r = self.reg.records.get(cls)
        if r is None:
            return None
        if attr.startswith("__") and not attr.endswith("__") and f"_{cls}{attr}" in r.fields:
            return f"_{cls}{attr}"
        return attr if attr in r.fields else None

    def bind_target(self, target, val: V, st: State, lineno: int):
        if isinstance(target, ast.Name):
            st.env[target.id] = val
            return
        if isinstance(target, ast.Attribute):
            base = self.ev(target.value, st)
            if not isinstance(base, VRec):
                raise Unsupported(f"attribute store on {base!r} at L{lineno}")
            f = self.resolve_field(base.cls, target.attr)
            if f is None:
                raise Unsupported(f"store to undeclared field {base.cls}.{target.attr} at L{lineno}")
            if f in (self.c.path_hints or {}).get("untracked_fields", []):
                return
            self.check_frame(st, target.value, base, f, lineno)
            ft = parse_type(self.reg.records[base.cls].fields[f])
            if not self.c.qualname.split("@")[0].endswith("__init__") and f not in getattr(self.reg.records[base.cls], "mutable", []):
                raise Unsupported(f"store to immutable field {base.cls}.{f} outside the constructor")
            st.heap.setdefault(f"{base.cls}.{f}", []).append((base.t, self.coerce(val, ft)))
            return
        if isinstance(target, ast.Subscript) and isinstance(target.value, ast.Attribute) \
                and target.value.attr in (self.c.path_hints or {}).get("untracked_fields", []):
            note = f"stores into the untracked field `{target.value.attr}` are not modelled (its reads are unconstrained)"
            if note not in self.dropped: self.dropped.append(note)
            return
        if isinstance(target, ast.Subscript) and isinstance(target.value, ast.Name) and target.value.id in st.env \
                and not isinstance(target.slice, ast.Slice):
            # element store into a *local* list (never aliased: checked by the caller of the engine via `local_lists`)
            name = target.value.id
            if name not in (self.c.path_hints or {}).get("local_lists", []):
                raise Unsupported(f"subscript store to `{name}` (not declared as a local, unaliased list)")
            old = self.to_seq(st.env[name])
            i = self.as_int(self.ev(target.slice, st))
            n = old.length
            self.safety(st, z3.And(i >= -n, i < n), "IndexError", lineno, "store-index")
            j = self.norm_index(i, n)
            st.env[name] = VSeq(old.kind, n, lambda k, old=old, j=j, val=val: self.merge(k == j, val, old.at(k)), old.elt)
            return
        if isinstance(target, (ast.Tuple, ast.List)):
            elts = target.elts
            starred = [k for k, e in enumerate(elts) if isinstance(e, ast.Starred)]
            if isinstance(val, VTup) and not starred:
                self.safety(st, z3.BoolVal(len(val.items) == len(elts)), "ValueError", lineno, "unpack-arity")
                if len(val.items) != len(elts):
                    raise Unsupported("unpack arity mismatch")
                for e, v in zip(elts, val.items):
                    self.bind_target(e, v, st, lineno)
                return
            s = self.to_seq(val)
            if not starred:
                self.safety(st, s.length == len(elts), "ValueError", lineno, "unpack-arity")
                for k, e in enumerate(elts):
                    self.bind_target(e, self.elem(s, z3.IntVal(k)), st, lineno)
                return
            if len(starred) > 1:
                raise Unsupported("two starred targets")
            k0 = starred[0]
            nfix = len(elts) - 1
            self.safety(st, s.length >= nfix, "ValueError", lineno, "unpack-arity")
            for k, e in enumerate(elts):
                if k < k0:
                    self.bind_target(e, self.elem(s, z3.IntVal(k)), st, lineno)
                elif k == k0:
                    ln = s.length - nfix
                    self.bind_target(e.value, VSeq("list", ln, lambda i, k0=k0, s=s: s.at(i + k0), s.elt), st, lineno)
                else:
                    off = len(elts) - k
                    self.bind_target(e, self.elem(s, s.length - off), st, lineno)
            return
        raise Unsupported("assignment target")

    def modifies_of(self, c) -> Dict[str, List[str]]:
        """modifies clause: a list (fields of `self`) or a dict parameter name -> fields"""
        m = (c.path_hints or {}).get("modifies", [])
        return m if isinstance(m, dict) else {"self": list(m)}

    def check_frame(self, st: State, owner_node, owner: VRec, f: str, lineno: int):
        """frame: only fields listed in `modifies` for the parameter the owner expression names may be written
        (every field of `self` in a constructor)"""
        mods = self.modifies_of(self.c)
        pname = owner_node.id if isinstance(owner_node, ast.Name) else None
        ok = pname is not None and (f in mods.get(pname, []) or
                                    (pname == "self" and self.c.qualname.split("@")[0].endswith("__init__")))
        if not ok:
            self.oblige(st, f"frame@L{lineno}:{owner.cls}.{f}", "frame", z3.BoolVal(False), lineno,
                        detail="store outside the contract's modifies clause")

    def comp_body(self, node, g, it: VSeq, st: State, idx, elt_node) -> Tuple[Any, V]:
        """evaluate filter conjunction and element at symbolic index idx"""
        st2 = st.fork()
        self.bind_target(g.target, self.elem(it, idx), st2, node.lineno)
        conds = []
        pushed = 0
        self.comp_ctx.append(idx)
        saved_calls = self.comp_calls
        self.comp_calls = 0
        try:
            for c in g.ifs:
                t = self.truthy(self.ev(c, st2))
                conds.append(t)
                self.guards.append(t)
                pushed += 1
            val = self.ev(elt_node, st2)
        finally:
            for _ in range(pushed):
                self.guards.pop()
            self.comp_ctx.pop()
            self.comp_calls = saved_calls
        return (z3.And(*conds) if conds else z3.BoolVal(True)), val

    def ev_ListComp(self, node, st):
        g, it = self.comp_parts(node, st)
        # safety obligations of the body, for an arbitrary index in range
        k = z3.Int(fresh_name("comp_k"))
        self.guards.append(z3.And(k >= 0, k < it.length))
        try:
            _, sample = self.comp_body(node, g, it, st, k, node.elt)
        finally:
            self.guards.pop()
        if g.ifs:
            return self.filtered(node, g, it, st, sample)
        # facts assumed from contracted calls in the body hold for every index: one quantified hypothesis
        kb = self.bound_var()
        old_emit, old_col = self.emit, self.comp_collect
        self.emit, self.comp_collect = False, []
        try:
            self.comp_body(node, g, it, st, kb, node.elt)
            facts = self.comp_collect
        finally:
            self.emit, self.comp_collect = old_emit, old_col
            self.unbind()
        if facts and not self.spec_mode:
            st.pc.append(z3.ForAll([kb], z3.Implies(z3.And(kb >= 0, kb < it.length), z3.And(*facts))))

        def at(i):
            old, oc = self.emit, self.comp_collect
            self.emit, self.comp_collect = False, []
            try:
                return self.comp_body(node, g, it, st, i, node.elt)[1]
            finally:
                self.emit, self.comp_collect = old, oc
        return VSeq("list", it.length, at, self.type_of(sample))

    ev_GeneratorExp = ev_ListComp

    def type_of(self, v: V) -> Optional[T]:
        if isinstance(v, VInt): return TInt()
        if isinstance(v, VBool): return TBool()
        if isinstance(v, VNStr): return TNStr()
        if isinstance(v, VRec): return TRec(v.cls)
        if isinstance(v, VSeq) and v.elt is not None: return TSeq(v.kind, v.elt)
        if isinstance(v, VTup):
            ts = [self.type_of(x) for x in v.items]
            return TTup(ts, v.kind) if all(t is not None for t in ts) else None
        return None

    def filtered(self, node, g, it: VSeq, st, sample: V) -> VSeq:
        """[f(x) for x in xs if p(x)]: fresh sequence r with counting function
        cnt (cnt(0)=0, cnt(i+1)=cnt(i)+[p(i)]), len r = cnt(len xs),
        r[cnt(i)] = f(xs[i]) when p(i).  Inductive facts about cnt must come
        from contract hints."""
        et = self.type_of(sample)
        if et is None:
            raise Unsupported("filtered comprehension with untyped element")
        name = fresh_name("filt")
        cnt = z3.Function(name + ".cnt", z3.IntSort(), z3.IntSort())
        res = self.fac.mk(TSeq("list", et), name)

        def body(i):
            old, oc = self.emit, self.comp_collect
            self.emit, self.comp_collect = False, []
            try:
                return self.comp_body(node, g, it, st, i, node.elt)
            finally:
                self.emit, self.comp_collect = old, oc
        # facts assumed from contracted calls in the filter / element expressions hold for every source index
        kb = self.bound_var()
        old_emit, old_col = self.emit, self.comp_collect
        self.emit, self.comp_collect = False, []
        try:
            self.comp_body(node, g, it, st, kb, node.elt)
            cfacts = self.comp_collect
        finally:
            self.emit, self.comp_collect = old_emit, old_col
            self.unbind()
        if cfacts and not self.spec_mode:
            st.pc.append(z3.ForAll([kb], z3.Implies(z3.And(kb >= 0, kb < it.length), z3.And(*cfacts))))
        i = self.bound_var()
        try:
            p, f = body(i)
        finally:
            self.unbind()
        in_rng = z3.And(i >= 0, i < it.length)
        facts = [cnt(0) == 0,
                 z3.ForAll([i], z3.Implies(in_rng, cnt(i + 1) == cnt(i) + z3.If(p, 1, 0))),
                 z3.ForAll([i], z3.Implies(z3.And(in_rng, p), self.eq(res.at(cnt(i)), f))),
                 res.length == cnt(it.length)]
        # every element of the result comes from a source element that passed the filter (src: its index)
        src = z3.Function(name + ".src", z3.IntSort(), z3.IntSort())
        j = self.bound_var()
        try:
            pj, fj = body(src(j))
            facts.append(z3.ForAll([j], z3.Implies(z3.And(j >= 0, j < res.length),
                                                   z3.And(src(j) >= 0, src(j) < it.length, pj, self.eq(res.at(j), fj)))))
        finally:
            self.unbind()
        st.pc.extend(facts)
        self.filter_cnt = cnt
        for h in (self.c.path_hints or {}).get("filter_lemmas", []):
            # inductive fact about the counting function, proved here (base + step), then assumed
            def body_at(ix):
                env = dict(st.env)
                env[h["var"]] = VInt(ix)
                env["_cnt"] = VFunc(builtin="_cnt", name="_cnt")
                self._cnt_apply = lambda a: VInt(cnt(self.as_int(a)))
                return self.truthy(self.ev_clause(h["body"], env))
            lo = self.as_int(self.ev_clause(h["lo"], st.env))
            hi = self.as_int(self.ev_clause(h["hi"], st.env))
            self.oblige(st, f"filter-lemma-base@L{node.lineno}", "lemma", z3.Implies(lo < hi, body_at(lo)), node.lineno)
            j = z3.Int(fresh_name("fl_j"))
            self.oblige(st, f"filter-lemma-step@L{node.lineno}", "lemma",
                        z3.Implies(z3.And(j >= lo, j + 1 < hi, body_at(j)), body_at(j + 1)), node.lineno)
            b = self.bound_var()
            try:
                st.pc.append(z3.ForAll([b], z3.Implies(z3.And(b >= lo, b < hi), body_at(b))))
            finally:
                self.unbind()
        return res

    # calls ---------------------------------------------------------------------
    def ev_Call(self, node, st):
        # typing.cast(T, e) -> e   (dropped construct, logged)
        if isinstance(node.func, ast.Name) and node.func.id == "cast" and len(node.args) == 2 and "cast" not in st.env:
            if "typing.cast" not in self.dropped: self.dropped.append("typing.cast")
            return self.ev(node.args[1], st)
        # quantifiers of the clause language
        if isinstance(node.func, ast.Name) and node.func.id in ("forall", "exists") and len(node.args) == 4 \
                and isinstance(node.args[0], ast.Name):
            return self.quantifier(node, st)
        if isinstance(node.func, ast.Name) and node.func.id == "implies" and len(node.args) == 2:
            a = self.truthy(self.ev(node.args[0], st))
            if is_false(a):
                return VBool(True)          # statically false antecedent: the consequent need not be well-typed
            b = self.truthy(self.ev(node.args[1], st))
            return VBool(z3.Implies(a, b))
        if isinstance(node.func, ast.Name) and node.func.id in ("is_pybool", "is_record") and len(node.args) >= 1:
            v = self.ev(node.args[0], st)
            if isinstance(v, VOpt):
                v = v.val
            if node.func.id == "is_pybool":
                return VBool(isinstance(v, VBool))
            return VBool(isinstance(v, VRec) and (len(node.args) == 1 or v.cls == node.args[1].value))
        if isinstance(node.func, ast.Name) and node.func.id == "ite" and len(node.args) == 3:
            c = self.truthy(self.ev(node.args[0], st))
            return self.merge(c, self.ev(node.args[1], st), self.ev(node.args[2], st))
        if isinstance(node.func, ast.Name) and node.func.id in ("uf_bool", "uf_int", "uf_sort") and node.args \
                and isinstance(node.args[0], ast.Constant):
            # uninterpreted function of the specification: uf_bool("name", args...), uf_sort("name", "Sort", args...)
            which = node.func.id
            uname = node.args[0].value
            rest = node.args[1:]
            if which == "uf_sort":
                rng = sort_of(rest[0].value)
                rest = rest[1:]
            else:
                rng = z3.BoolSort() if which == "uf_bool" else z3.IntSort()
            zs = []
            for a in rest:
                v = self.ev(a, st)
                if isinstance(v, VOpt):
                    v = v.val
                if isinstance(v, VSeq) and v.kind == "str":
                    zs.append(self.str_id(v))
                    continue
                if not isinstance(v, (VRec, VAny, VInt, VBool)):
                    raise Unsupported("uf over non-scalar argument")
                zs.append(v.t)
            app = z3.Function("uf." + uname, *[z.sort() for z in zs], rng)(*zs) if zs else z3.Const("uf." + uname, rng)
            if which == "uf_sort" and rng.name() in self.reg.records:
                return VRec(rng.name(), app)
            return VBool(app) if which == "uf_bool" else VInt(app) if which == "uf_int" else VAny(app)
        if isinstance(node.func, ast.Name) and node.func.id == "z3op" and len(node.args) == 1 and isinstance(node.args[0], ast.Constant):
            return VInt(z3op_id(node.args[0].value))
        if isinstance(node.func, ast.Name) and node.func.id == "uf_str" and node.args and isinstance(node.args[0], ast.Constant):
            # string-valued uninterpreted function of the specification (e.g. the string of a tree)
            zs = []
            for a in node.args[1:]:
                v = self.ev(a, st)
                if isinstance(v, VOpt):
                    v = v.val
                if isinstance(v, VSeq) and v.kind == "str":
                    zs.append(self.str_id(v))
                elif isinstance(v, (VRec, VAny, VInt, VBool)):
                    zs.append(v.t)
                else:
                    raise Unsupported("uf_str over non-scalar argument")
            res = self.fac.mk(TSeq("str", TInt()), "uf." + node.args[0].value, zs)
            if not self.spec_mode:
                st.pc.append(res.length >= 0)
            else:
                self.axioms.append(res.length >= 0) if not any(a_.eq(res.length >= 0) for a_ in self.axioms) else None
            return res
        if isinstance(node.func, ast.Name) and node.func.id in ("forall_sort", "exists_sort") and len(node.args) == 3 \
                and isinstance(node.args[0], ast.Name) and isinstance(node.args[1], ast.Constant):
            var, sname = node.args[0].id, node.args[1].value
            bv = z3.Const(f"{var}@{self.qdepth}", sort_of(sname))
            self.qdepth += 1
            try:
                st2 = st.fork()
                st2.env[var] = VRec(sname, bv) if sname in self.reg.records else VAny(bv)
                body = self.truthy(self.ev(node.args[2], st2))
            finally:
                self.qdepth -= 1
            return VBool(z3.ForAll([bv], body) if node.func.id == "forall_sort" else z3.Exists([bv], body))
        if isinstance(node.func, ast.Name) and node.func.id == "count_eq" and len(node.args) == 3:
            seq = self.to_seq(self.ev(node.args[0], st))
            return self.count_eq(seq, self.ev(node.args[1], st), self.as_int(self.ev(node.args[2], st)))
        if isinstance(node.func, ast.Name) and node.func.id in ("post", "pre") and node.args \
                and isinstance(node.args[0], ast.Constant):
            cc = self.reg.by_name(node.args[0].value)
            if cc is None:
                raise Unsupported(f"post/pre of unknown contract {node.args[0].value}")
            env = {k.arg: self.ev(k.value, st) for k in node.keywords}
            for pn, tn in cc.types.items():
                if pn in env:
                    env[pn] = self.coerce(env[pn], parse_type(tn))
            if "result" in env and cc.returns != "Any":
                env["result"] = self.coerce(env["result"], parse_type(cc.returns))
            text = cc.requires if node.func.id == "pre" else (cc.ensures_text() or "True")
            return VBool(self.truthy(self.ev_clause(text, env)))
        if isinstance(node.func, ast.Name) and node.func.id in SMT_OPS and node.func.id not in st.env:
            return SMT_OPS[node.func.id](self, [self.ev(a, st) for a in node.args])
        # str.join
        if isinstance(node.func, ast.Attribute) and node.func.attr == "join" and len(node.args) == 1:
            sep = self.ev(node.func.value, st)
            return self.join(sep, self.ev(node.args[0], st), st, node.lineno)
        if any(isinstance(a, ast.Starred) for a in node.args):
            raise Unsupported("starred call argument")
        if isinstance(node.func, ast.Attribute) and node.func.attr == "append" and len(node.args) == 1 \
                and isinstance(node.func.value, ast.Attribute):
            # append to a list held in a (mutable) record field: a heap write  o.f := o.f + [x]
            owner = self.ev(node.func.value.value, st)
            if isinstance(owner, VRec):
                f = self.resolve_field(owner.cls, node.func.value.attr)
                if f is not None and f in getattr(self.reg.records[owner.cls], "mutable", []):
                    self.check_frame(st, node.func.value.value, owner, f, node.lineno)
                    old_l = self.to_seq(self.read_field(owner, f, st.heap))
                    x = self.ev(node.args[0], st)
                    n = old_l.length
                    new_l = VSeq(old_l.kind, n + 1, lambda k, old_l=old_l, n=n, x=x: self.merge(k == n, x, old_l.at(k)), old_l.elt)
                    st.heap.setdefault(f"{owner.cls}.{f}", []).append((owner.t, new_l))
                    return VNone()
        if isinstance(node.func, ast.Attribute) and isinstance(node.func.value, ast.Name) \
                and node.func.value.id in (self.c.path_hints or {}).get("local_lists", []) \
                and node.func.value.id in st.env and node.func.attr in ("append", "pop"):
            name = node.func.value.id
            old = self.to_seq(st.env[name])
            if node.func.attr == "append" and len(node.args) == 1:
                x = self.ev(node.args[0], st)
                n = old.length
                st.env[name] = VSeq(old.kind, n + 1, lambda k, old=old, n=n, x=x: self.merge(k == n, x, old.at(k)), old.elt)
                return VNone()
            if node.func.attr == "pop" and not node.args:
                n = old.length
                self.safety(st, n >= 1, "IndexError", node.lineno, "pop-empty")
                st.env[name] = VSeq(old.kind, n - 1, old.at, old.elt)
                return old.at(n - 1)
            raise Unsupported("list method form")
        if isinstance(node.func, ast.Attribute) and node.func.attr in ("endswith", "startswith") and len(node.args) == 1 \
                and not node.keywords:
            base = self.ev(node.func.value, st)
            if isinstance(base, VSeq) and base.kind == "str":
                # str.endswith / startswith(t): CPython semantics -- t is a suffix / prefix (element-wise)
                t = self.to_seq(self.ev(node.args[0], st))
                if t.kind != "str":
                    raise Unsupported("endswith/startswith with a non-string argument")
                off = base.length - t.length if node.func.attr == "endswith" else z3.IntVal(0)
                i = self.bound_var()
                try:
                    same = z3.ForAll([i], z3.Implies(z3.And(i >= 0, i < t.length),
                                                     self.as_int(base.at(off + i)) == self.as_int(t.at(i))))
                finally:
                    self.unbind()
                return VBool(z3.And(t.length <= base.length, same))
        if isinstance(node.func, ast.Attribute) and node.func.attr in ("ljust", "rjust") and len(node.args) == 2 \
                and not node.keywords:
            base = self.ev(node.func.value, st)
            if isinstance(base, VSeq) and base.kind == "str":
                # str.ljust/rjust(width, fillchar): CPython semantics (assumed library contract):
                # TypeError unless len(fillchar) == 1; pads to max(len, width)
                w = self.as_int(self.ev(node.args[0], st))
                fc = self.to_seq(self.ev(node.args[1], st))
                self.safety(st, fc.length == 1, "TypeError", node.lineno, "fillchar-len")
                n = base.length
                pad = z3.If(w - n > 0, w - n, z3.IntVal(0))
                c0 = fc.at(z3.IntVal(0))
                if node.func.attr == "ljust":
                    at = lambda i, base=base, n=n, c0=c0: self.merge(i < n, base.at(i), c0)
                else:
                    at = lambda i, base=base, pad=pad, c0=c0: self.merge(i < pad, c0, base.at(i - pad))
                note = "str.ljust/rjust modelled by their CPython semantics (assumed library contract)"
                if note not in self.dropped: self.dropped.append(note)
                return VSeq("str", n + pad, at, TInt())
        f = self.ev(node.func, st)
        if isinstance(f, VFunc) and f.builtin in ("any", "all") and len(node.args) == 1 \
                and isinstance(node.args[0], (ast.GeneratorExp, ast.ListComp)):
            return self.any_all(f.builtin, node.args[0], st)
        args = [self.ev(a, st) for a in node.args]
        kwargs = {k.arg: self.ev(k.value, st) for k in node.keywords if k.arg}
        return self.apply(f, args, kwargs, st, node.lineno)

    def _vkey(self, v: V) -> str:
        if isinstance(v, (VInt, VBool, VNStr, VRec, VAny)):
            return v.t.sexpr()
        if isinstance(v, VSeq):
            return "seq(" + v.length.sexpr() + "," + self._vkey(v.at(z3.Int("PROBE"))) + ")"
        if isinstance(v, VTup):
            return "tup(" + ",".join(self._vkey(x) for x in v.items) + ")"
        return repr(v)

    def count_eq(self, seq: VSeq, x: V, k) -> V:
        """number of indices i < k (and < len) with seq[i] == x: an uninterpreted
        function with its recursive definition as axioms"""
        if not hasattr(self, "_cnt_fns"):
            self._cnt_fns = {}
        key = (self._vkey(seq), self._vkey(x))
        fn = self._cnt_fns.get(key)
        if fn is None:
            fn = z3.Function(fresh_name("count_eq"), z3.IntSort(), z3.IntSort())
            self._cnt_fns[key] = fn
            i = z3.Int("cnt_i")
            hit = z3.And(i < seq.length, self.eq(self.elem(seq, i), x))
            self.axioms += [fn(0) == 0,
                            z3.ForAll([i], z3.Implies(i >= 0, fn(i + 1) == fn(i) + z3.If(hit, 1, 0))),
                            z3.ForAll([i], z3.Implies(i >= 0, z3.And(fn(i) >= 0, fn(i) <= i)))]
        return VInt(fn(k))

    def quantifier(self, node, st):
        var = node.args[0].id
        lo = self.as_int(self.ev(node.args[1], st))
        hi = self.as_int(self.ev(node.args[2], st))
        i = self.bound_var()
        try:
            st2 = st.fork()
            st2.env[var] = VInt(i)
            body = self.truthy(self.ev(node.args[3], st2))
        finally:
            self.unbind()
        rng = z3.And(i >= lo, i < hi)
        if node.func.id == "forall":
            return VBool(z3.ForAll([i], z3.Implies(rng, body)))
        return VBool(z3.Exists([i], z3.And(rng, body)))

    def any_all(self, which: str, comp, st):
        g, it = self.comp_parts(comp, st)
        k0 = z3.Int(fresh_name("q_k"))
        self.guards.append(z3.And(k0 >= 0, k0 < it.length))
        try:
            self.comp_body(comp, g, it, st, k0, comp.elt)      # safety obligations at an arbitrary index
        finally:
            self.guards.pop()
        k = self.bound_var()
        old = self.emit
        self.emit = False
        try:
            p, val = self.comp_body(comp, g, it, st, k, comp.elt)
            body = self.truthy(val)
        finally:
            self.emit = old
            self.unbind()
        rng = z3.And(k >= 0, k < it.length, p)
        if which == "any":
            return VBool(z3.Exists([k], z3.And(rng, body)))
        return VBool(z3.ForAll([k], z3.Implies(rng, body)))

    def join(self, sep: V, arg: V, st, lineno) -> V:
        s = self.to_seq(arg)
        sp = self.to_seq(sep) if not isinstance(sep, VNStr) else None
        if sp is None or not is_true(sp.length == 0):
            raise Unsupported("join with non-empty separator")
        probe = s.at(z3.Int(fresh_name("j")))
        if isinstance(probe, VSeq) and probe.kind == "str" and is_true(probe.length == 1):
            return VSeq("str", s.length, lambda i: s.at(i).at(z3.IntVal(0)), TInt())
        raise Unsupported("join of strings of non-unit length")

    def apply(self, f: V, args: List[V], kwargs: Dict[str, V], st: State, lineno: int) -> V:
        if isinstance(f, VClass):
            return self.construct(f.name, args, kwargs, st, lineno)
        if not isinstance(f, VFunc):
            raise Unsupported(f"call of {f!r}")
        if f.contract is not None:
            if f.env and "__self__" in f.env:
                args = [f.env["__self__"]] + args
            cc = f.contract
            if isinstance(cc, VariantSet):
                cc = self.select_variant(cc.cands, args)
            return self.call_contract(cc, args, st, lineno, kwargs)
        if f.builtin:
            if f.builtin.startswith("spec:"):
                return self.apply_spec(self.reg.specs[f.builtin[5:]], args)
            if f.builtin.startswith("z3.is_"):
                if len(args) != 1 or not isinstance(args[0], VRec) or args[0].cls != "Z3Expr":
                    raise Unsupported(f"{f.builtin} on a value that is not a modelled z3 term")
                note = "z3.is_<x>(e) modelled as a test of e's head-symbol category (the Z3_OP constant read from the repo's z3.py)"
                if note not in self.dropped: self.dropped.append(note)
                kind = z3_pred_kind(f.builtin[3:])
                return VBool(self.as_int(self.read_field(args[0], "op", st.heap)) == z3op_id(kind))
            return BUILTINS[f.builtin](self, args, kwargs, st, lineno)
        if f.node is not None:
            return self.inline(f, args, st, lineno)
        raise Unsupported("call")

    def inline(self, f: VFunc, args: List[V], st: State, lineno: int) -> V:
        """local lambda / nested def: inlined (it is part of the verified text)"""
        node = f.node
        a = node.args
        if a.vararg or a.kwarg or a.kwonlyargs:
            raise Unsupported("varargs in local function")
        names = [x.arg for x in a.args]
        if len(args) != len(names):
            self.safety(st, z3.BoolVal(False), "TypeError", lineno, "local-call-arity")
            raise Unsupported("local call arity mismatch")
        env = dict(f.env or {})
        env.update(dict(zip(names, args)))
        if isinstance(node, ast.Lambda):
            st2 = State(st.pc, env)     # shares pc list: safety assumptions propagate
            return self.ev(node.body, st2)
        # nested def with a contract of its own is called through the contract
        raise Unsupported("call of nested def without contract")

    def apply_spec(self, s, args: List[V]) -> V:
        if len(args) != len(s.params):
            raise Unsupported(f"spec {s.name} arity")
        heap = self._cur_state.heap if getattr(self, "_cur_state", None) is not None else {}
        if s.recursive or getattr(s, "opaque", False):
            return self.apply_rec_spec(s, args)
        env = dict(zip(s.params, args))
        for p, tname in s.types.items():
            if p in env:
                env[p] = self.coerce(env[p], parse_type(tname))
        self.spec_mode += 1
        saved = getattr(self, "_cur_state", None)
        try:
            node = ast.parse(s.body.strip(), mode="eval").body
            return self.ev(node, State([], env, heap))
        finally:
            self.spec_mode -= 1
            self._cur_state = saved

    def spec_reads(self, name: str, seen=None) -> set:
        seen = seen if seen is not None else set()
        if name in seen or name not in self.reg.specs:
            return set()
        seen.add(name)
        out = set()
        for n in ast.walk(ast.parse(self.reg.specs[name].body.strip(), mode="eval")):
            if isinstance(n, ast.Attribute):
                out.add(n.attr)
            elif isinstance(n, ast.Call) and isinstance(n.func, ast.Name):
                out |= self.spec_reads(n.func.id, seen)
        return out

    def apply_rec_spec(self, s, args: List[V]) -> V:
        """recursive spec function over scalar arguments: an uninterpreted
        function plus its defining axiom (quantified over the arguments)."""
        zargs = []
        fixed = []          # sequence-valued arguments are fixed parameters of the function symbol
        args = [a.val if isinstance(a, VOpt) else a for a in args]     # None-ness is the caller's business
        for a in args:
            if isinstance(a, (VRec, VAny, VInt, VBool, VNStr)):
                zargs.append(a.t)
            elif isinstance(a, (VSeq, VTup)):
                fixed.append(self._vkey(a))
            else:
                raise Unsupported("recursive spec over unsupported argument")
        rng = {"Bool": z3.BoolSort(), "Int": z3.IntSort()}[s.returns]
        # one function symbol per heap version of the fields the spec (transitively) reads: the axiom of
        # each version is stated under exactly the writes made so far on this path
        heap = self._cur_state.heap if getattr(self, "_cur_state", None) is not None else {}
        reads = self.spec_reads(s.name)
        rel = {k: v for k, v in heap.items() if v and k.split(".", 1)[1] in reads}
        hsig = ""
        if rel:
            import hashlib
            txt = ";".join(f"{k}:" + ",".join((t + "=" + v[1]) if isinstance(t, str) else (t.sexpr() + "=" + self._vkey(v))
                                              for t, v in ws) for k, ws in sorted(rel.items()))
            hsig = "@h" + hashlib.sha1(txt.encode()).hexdigest()[:8]
        sym = "spec." + s.name + hsig + ("[" + "|".join(fixed) + "]" if fixed else "")
        fn = z3.Function(sym, *[z.sort() for z in zargs], rng)
        if sym not in self._rec_spec_funcs:
            self._rec_spec_funcs[sym] = fn
            bound = []
            env = {}
            for p, a in zip(s.params, args):
                if isinstance(a, (VSeq, VTup)):
                    env[p] = a
                    continue
                bv = z3.Const(fresh_name("ax_" + p), a.t.sort())
                bound.append(bv)
                env[p] = type(a)(a.cls, bv) if isinstance(a, VRec) else type(a)(bv)
            self.spec_mode += 1
            saved = getattr(self, "_cur_state", None)
            lhs = fn(*bound)
            try:
                node = ast.parse(s.body.strip(), mode="eval").body
                hp = {k: list(v) for k, v in heap.items()}
                # a definition by cases `ite(c1, b1, ite(c2, b2, ... e))` becomes one guarded axiom per case
                cases = []
                neg = []
                while isinstance(node, ast.Call) and isinstance(node.func, ast.Name) and node.func.id == "ite" \
                        and len(node.args) == 3:
                    c = self.truthy(self.ev(node.args[0], State([], env, hp)))
                    cases.append((z3.And(*neg, c), node.args[1]))
                    neg.append(z3.Not(c))
                    node = node.args[2]
                cases.append((z3.And(*neg) if neg else z3.BoolVal(True), node))
                for guard, bnode in cases:
                    body = self.ev(bnode, State([], env, hp))
                    rhs = self.truthy(body) if s.returns == "Bool" else self.as_int(body)
                    ax = z3.Implies(guard, lhs == rhs)
                    self.axioms.append(z3.ForAll(bound, ax, patterns=[lhs]) if bound else ax)
            finally:
                self.spec_mode -= 1
                self._cur_state = saved
        r = fn(*zargs)
        return VBool(r) if s.returns == "Bool" else VInt(r)

    def construct(self, cls: str, args: List[V], kwargs, st: State, lineno: int) -> V:
        r0, info = self.find_subclass(cls)
        if r0 is not None:
            # subclass folded into the record sort r0: tag + constructor field mapping (assumed: the
            # constructors of these classes only store their arguments)
            obj = self.fac.mk(TRec(r0.name), fresh_name("new_" + cls))
            facts = [self.as_int(self.fac.field(obj, r0.tag_field)) == info["tags"][0]]
            ctor = info.get("ctor", [])
            rest = list(args)
            for fld in ctor:
                if fld.endswith("*"):
                    vals = rest
                    rest = []
                    self.safety(st, z3.BoolVal(len(vals) >= info.get("min_args", 0)), "RuntimeError", lineno, "ctor-arity")
                    ft = parse_type(r0.fields[fld[:-1]])
                    facts.append(self.ident(self.fac.field(obj, fld[:-1]), VTup(vals, "tuple")))
                else:
                    if not rest:
                        if fld in kwargs:
                            v = kwargs[fld]
                        else:
                            continue          # optional trailing constructor argument
                    else:
                        v = rest.pop(0)
                    ft = parse_type(r0.fields[fld])
                    facts.append(self.ident(self.fac.field(obj, fld), self.coerce(v, ft)))
            if rest:
                raise Unsupported(f"constructor {cls}: too many arguments")
            for f in facts:
                st.pc.append(z3.Implies(z3.And(*self.guards), f) if self.guards else f)
            return obj
        r = self.reg.records[cls]
        obj = self.fac.mk(TRec(cls), fresh_name("new_" + cls))
        init = self.method_contract(cls, "__init__", [obj] + list(args))
        if init is not None:
            params = [p for p in self.params_of(init) if p != "self"]
            env = {"self": obj}
            for p, a in zip(params, args):
                env[p] = self.coerce(a, parse_type(init.types[p])) if p in init.types else a
            for k, v in kwargs.items():
                env[k] = self.coerce(v, parse_type(init.types[k])) if k in init.types else v
            for p in params:
                if p not in env:
                    d = (init.path_hints or {}).get("defaults", {}).get(p)
                    if d is None:
                        raise Unsupported(f"constructor {cls}: missing arg {p}")
                    env[p] = self.coerce(self.ev_clause(d, {}), parse_type(init.types[p]))
            if init.requires.strip() != "True":
                pre = self.truthy(self.ev_clause(init.requires, env, heap=st.heap))
                self.oblige(st, f"pre@L{lineno}:{cls}.__init__", "pre@callsite", pre, lineno)
            if init.ensures:
                env.setdefault("result", obj)
                fact = self.truthy(self.ev_clause(init.ensures_text(), env, heap=st.heap))
                st.pc.append(z3.Implies(z3.And(*self.guards), fact) if self.guards else fact)
            return obj
        # dataclass-style: positional args are the fields in declaration order
        fields = list(r.fields.keys())
        vals = dict(zip(fields, args))
        vals.update(kwargs)
        for fname, dtext in (getattr(r, "defaults", None) or {}).items():
            if fname not in vals:
                vals[fname] = self.ev_clause(dtext, {})
        if len(args) > len(fields) or set(vals) != set(fields):
            raise Unsupported(f"constructor {cls} arity")
        for fname in fields:
            ft = parse_type(r.fields[fname])
            fact = self.ident(self.fac.field(obj, fname), self.coerce(vals[fname], ft))
            st.pc.append(z3.Implies(z3.And(*self.guards), fact) if self.guards else fact)
        return obj

    # ------------------------------------------------------------- statements
    def exec_block(self, stmts: List[ast.stmt], st: State) -> List[Outcome]:
        outs: List[Outcome] = []
        live = [st]
        for s in stmts:
            nxt: List[State] = []
            for cur in live:
                n_obl = len(self.obls)
                try:
                    res = self.exec_stmt(s, cur)
                except Unsupported as exc:
                    # a construct outside the subset is tolerated iff the state reaching it is infeasible
                    sol = z3.Solver()
                    sol.set("timeout", 5000)
                    sol.add(*self.axioms)
                    sol.add(*cur.pc)
                    if sol.check() != z3.unsat:
                        raise
                    del self.obls[n_obl:]
                    note = f"infeasible state at L{s.lineno} not modelled ({str(exc)[:80]})"
                    if note not in self.dropped:
                        self.dropped.append(note)
                    continue
                for o in res:
                    if o.kind == "fall":
                        nxt.append(o.st)
                    else:
                        outs.append(o)
            live = nxt
            if not live:
                break
        outs += [Outcome("fall", s_) for s_ in live]
        return outs

    def exec_stmt(self, s: ast.stmt, st: State) -> List[Outcome]:
        m = getattr(self, "st_" + type(s).__name__, None)
        if m is None:
            raise Unsupported(f"statement {type(s).__name__} at L{s.lineno}")
        outs = m(s, st)
        hints = (self.c.path_hints or {}).get("hints_after", [])
        if hints and not isinstance(s, (ast.For, ast.While, ast.If)):
            text = ast.unparse(s)
            for h in hints:
                if text.startswith(h["after"]):
                    self.hints_used.add(h["after"])
                    for o in outs:
                        if o.kind == "fall":
                            # proof hint (like a Dafny `assert`): proved here, then available as a fact
                            cl = self.truthy(self.ev_clause(h["clause"], o.st.env, heap=o.st.heap))
                            self.oblige(o.st, f"hint@L{s.lineno}", "hint", cl, s.lineno, detail=h["clause"][:80])
                            o.st.pc.append(cl)
        return outs

    def st_Pass(self, s, st): return [Outcome("fall", st)]

    def st_Expr(self, s, st):
        if isinstance(s.value, ast.Constant):
            return [Outcome("fall", st)]          # doc-string
        v = s.value
        def _is_logger(e):
            return (isinstance(e, ast.Name) and e.id in ("logger", "logging", "LOGGER")) or \
                   (isinstance(e, ast.Attribute) and e.attr == "logger")
        if isinstance(v, ast.Call) and isinstance(v.func, ast.Attribute) and _is_logger(v.func.value):
            if "logger call" not in self.dropped: self.dropped.append("logger call")
            return [Outcome("fall", st)]
        self.ev(v, st)
        return [Outcome("fall", st)]

    def st_Assign(self, s, st):
        val = self.ev(s.value, st)
        for t in s.targets:
            if isinstance(t, ast.Name) and t.id in self.c.locals_types:
                val = self.coerce(val, parse_type(self.c.locals_types[t.id]))
            self.bind_target(t, val, st, s.lineno)
        return [Outcome("fall", st)]

    def st_AnnAssign(self, s, st):
        if s.value is None:
            return [Outcome("fall", st)]       # bare annotation `expr: z3.StringVal`
        val = self.ev(s.value, st)
        if isinstance(s.target, ast.Name) and s.target.id in self.c.locals_types:
            val = self.coerce(val, parse_type(self.c.locals_types[s.target.id]))
        self.bind_target(s.target, val, st, s.lineno)
        return [Outcome("fall", st)]

    def st_AugAssign(self, s, st):
        if isinstance(s.target, ast.Attribute):
            load = ast.Attribute(value=s.target.value, attr=s.target.attr, ctx=ast.Load(), lineno=s.lineno, col_offset=0)
            val = self.binop(s.op, self.ev(load, st), self.ev(s.value, st), st, s.lineno)
            self.bind_target(s.target, val, st, s.lineno)
            return [Outcome("fall", st)]
        if not isinstance(s.target, ast.Name):
            raise Unsupported("augmented assignment to non-name")
        cur = self.ev(ast.Name(id=s.target.id, ctx=ast.Load(), lineno=s.lineno, col_offset=0), st)
        val = self.binop(s.op, cur, self.ev(s.value, st), st, s.lineno)
        st.env[s.target.id] = val
        return [Outcome("fall", st)]

    def st_Return(self, s, st):
        if (self.c.path_hints or {}).get("abstract_answers") and s.value is not None \
                and not (isinstance(s.value, ast.Name) and s.value.id == "Nothing"):
            # guard contracts only speak about WHETHER the function answers: the answer itself is not evaluated
            return [Outcome("return", st, VOpt(z3.BoolVal(False), self.fac.mk(TAny(), fresh_name("answer"))),
                            lineno=s.lineno)]
        val = self.ev(s.value, st) if s.value is not None else VNone()
        return [Outcome("return", st, val, lineno=s.lineno)]

    def st_Raise(self, s, st):
        name = "Exception"
        e = s.exc
        if e is None:
            cur = st.env.get("__exc__")
            if not isinstance(cur, VExc):
                raise Unsupported("bare raise outside a handler")
            return [Outcome("raise", st, exc=cur.name, lineno=s.lineno)]
        if isinstance(e, ast.Call): e = e.func
        if isinstance(e, ast.Name):
            name = e.id
            if isinstance(st.env.get(name), VExc):
                name = st.env[name].name          # `raise err` re-raises the caught exception
        elif isinstance(e, ast.Attribute): name = e.attr
        return [Outcome("raise", st, exc=name, lineno=s.lineno)]

    def st_Try(self, s, st):
        """try/except[/else]: exception edges of the body that a handler catches become control flow into
        that handler (first matching handler, Python semantics); everything else propagates."""
        if s.finalbody:
            # try/.../finally: the finally block runs on every way out of the protected part (fall-through, return,
            # break/continue, an exception that propagates); if it completes normally the original outcome stands
            inner = ast.Try(body=s.body, handlers=s.handlers, orelse=s.orelse, finalbody=[], lineno=s.lineno,
                            col_offset=s.col_offset) if (s.handlers or s.orelse) else None
            frame = {"catches": ["BaseException"], "edges": []}
            if not hasattr(self, "try_stack"):
                self.try_stack = []
            self.try_stack.append(frame)
            try:
                outs = self.st_Try(inner, st) if inner is not None else self.exec_block(s.body, st)
            finally:
                self.try_stack.pop()
            outs = list(outs) + [Outcome("raise", est, exc=excname, lineno=ln) for excname, est, ln in frame["edges"]]
            results: List[Outcome] = []
            for o in outs:
                for fo in self.exec_block(s.finalbody, o.st):
                    if fo.kind == "fall":
                        results.append(Outcome(o.kind, fo.st, o.value, exc=o.exc, lineno=o.lineno))
                    else:
                        results.append(fo)       # the finally block itself returns / raises: that wins
            return results
        handlers = []
        for h in s.handlers:
            if h.type is None:
                names = ["BaseException"]
            elif isinstance(h.type, ast.Tuple):
                names = [x.id if isinstance(x, ast.Name) else x.attr for x in h.type.elts]
            else:
                names = [h.type.id if isinstance(h.type, ast.Name) else h.type.attr]
            handlers.append((names, h))
        frame = {"catches": [n for names, _ in handlers for n in names], "edges": []}
        if not hasattr(self, "try_stack"):
            self.try_stack = []
        self.try_stack.append(frame)
        try:
            outs = self.exec_block(s.body, st)
        finally:
            self.try_stack.pop()
        results: List[Outcome] = []

        def dispatch(excname: str, est: State, lineno: int):
            for names, h in handlers:
                if any(exc_is_a(excname, n) for n in names):
                    est.env = dict(est.env)
                    est.env["__exc__"] = VExc(excname)
                    if h.name:
                        est.env[h.name] = VExc(excname)
                    results.extend(self.exec_block(h.body, est))
                    return
            results.append(Outcome("raise", est, exc=excname, lineno=lineno))
        for o in outs:
            if o.kind == "raise":
                dispatch(o.exc, o.st, o.lineno)
            elif o.kind == "fall" and s.orelse:
                results.extend(self.exec_block(s.orelse, o.st))
            else:
                results.append(o)
        for excname, est, lineno in frame["edges"]:
            dispatch(excname, est, lineno)
        return results

    def st_Assert(self, s, st):
        # `assert isinstance(...)` / is_path(...) are type assumptions (logged)
        t = s.test
        if isinstance(t, ast.Call) and isinstance(t.func, ast.Name) and t.func.id in ("isinstance", "is_path"):
            note = f"assert {t.func.id}(...) at L{s.lineno} taken as a type assumption"
            if note not in self.dropped: self.dropped.append(note)
            return [Outcome("fall", st)]
        c = self.truthy(self.ev(t, st))
        self.safety(st, c, "AssertionError", s.lineno, "assert")
        return [Outcome("fall", st)]

    def st_If(self, s, st):
        c = self.truthy(self.ev(s.test, st))
        outs: List[Outcome] = []
        if not is_false(c):
            outs += self.branch(s.body, st.fork(c))
        if not is_true(c):
            st_else = st.fork(z3.Not(c))
            outs += self.branch(s.orelse, st_else) if s.orelse else [Outcome("fall", st_else)]
        return outs

    def branch(self, stmts, st: State) -> List[Outcome]:
        """a branch containing constructs outside the subset is tolerated iff it is
        infeasible under the path condition (decided by the solver, not assumed)"""
        n_obl = len(self.obls)
        try:
            return self.exec_block(stmts, st)
        except Unsupported as exc:
            sol = z3.Solver()
            sol.set("timeout", 5000)
            sol.add(*self.axioms)
            sol.add(*st.pc)
            if sol.check() == z3.unsat:
                del self.obls[n_obl:]
                self.dropped.append(f"infeasible branch at L{stmts[0].lineno} not modelled ({exc})")
                return []
            raise

    def st_FunctionDef(self, s, st):
        key = f"{self.c.qualname}.<locals>.{s.name}"
        c = self.reg.contracts.get(f"{self.c.file}::{key}")
        if c is not None:
            st.env[s.name] = VFunc(contract=c, name=s.name)
        else:
            st.env[s.name] = VFunc(node=s, env=dict(st.env), name=s.name)
        return [Outcome("fall", st)]

    @staticmethod
    def assigned_names(stmts: List[ast.stmt]) -> List[str]:
        out = []
        for n in stmts:
            for x in ast.walk(n):
                if isinstance(x, ast.Name) and isinstance(x.ctx, ast.Store) and x.id not in out:
                    out.append(x.id)
                # in-place mutation of a local list: x.append(..), x.pop(), x[i] = ..
                if isinstance(x, ast.Call) and isinstance(x.func, ast.Attribute) and isinstance(x.func.value, ast.Name) \
                        and x.func.attr in ("append", "pop", "extend", "insert", "remove", "clear", "sort", "reverse") \
                        and x.func.value.id not in out:
                    out.append(x.func.value.id)
                if isinstance(x, ast.Subscript) and isinstance(x.ctx, (ast.Store, ast.Del)) \
                        and isinstance(x.value, ast.Name) and x.value.id not in out:
                    out.append(x.value.id)
        return out

    def loop_spec(self, lineno: int, node=None) -> Dict[str, str]:
        # loops are numbered in source order (not execution order: a loop after an `if` is executed once per path)
        if not hasattr(self, "_loop_ids"):
            loops = [n for n in ast.walk(self.fnode) if isinstance(n, (ast.For, ast.While))]
            loops.sort(key=lambda n: (n.lineno, n.col_offset))
            self._loop_ids = {id(n): i for i, n in enumerate(loops)}
        k = self._loop_ids[id(node)]
        spec = self.c.loops.get(k)
        if spec is None:
            raise Unsupported(f"loop #{k} at L{lineno} has no invariant")
        return spec

    def st_For_growing(self, s, st, spec):
        """`for x in o.f:` where the body may append to the list o.f it iterates over (Python then also visits
        the appended elements).  Sound over-approximation for partial correctness: the invariant is proved on
        entry; one iteration is executed from an ARBITRARY state satisfying it, with x an ARBITRARY element of
        the current list; the invariant is proved again afterwards; after the loop only the invariant is known.
        Heap fields the body may write (modifies clauses of the callees) are havocked before the iteration."""
        inv_text = spec["invariant"]

        def inv(state: State):
            return self.truthy(self.ev_clause(inv_text, state.env, heap=state.heap))
        self.oblige(st, f"inv-init@L{s.lineno}", "inv-init", inv(st), s.lineno)
        hv = st.fork()
        target_names = [x.id for x in ast.walk(s.target) if isinstance(x, ast.Name)]
        for n in [n for n in self.assigned_names(s.body) if n in st.env and n not in target_names]:
            hv.env[n] = self.fresh_like(st.env[n], n)
            hv.pc.extend(wf_facts(hv.env[n]))
        for key in spec.get("havoc_fields", []):
            cls_, f = key.split(".", 1)
            ft = parse_type(self.reg.records[cls_].fields[f])
            ver = fresh_name(f"{cls_}.{f}.loop")
            # a new version of the field for EVERY object: written as a store on a universally chosen object is
            # not expressible in the store chain, so the chain is replaced by a fresh field function
            hv.heap[key] = [("ALLOBJ", (ft, ver))]
        hv.pc.append(inv(hv))
        body_st = hv.fork()
        it = self.iter_seq(s.iter, body_st)
        k = z3.Int(fresh_name("k"))
        body_st.pc += [k >= 0, k < it.length]
        self.bind_target(s.target, self.elem(it, k), body_st, s.lineno)
        outs: List[Outcome] = []
        after: List[State] = []
        for o in self.exec_block(s.body, body_st):
            if o.kind in ("fall", "continue"):
                self.oblige(o.st, f"inv-step@L{s.lineno}", "inv-step", inv(o.st), s.lineno)
                self.obls.append(Obligation(f"cover-loop@L{s.lineno}", "cover", o.st.pc, z3.BoolVal(False), s.lineno,
                                            expect="sat", detail=f"loop-body@L{s.lineno}"))
            elif o.kind == "break":
                after.append(o.st)
            else:
                outs.append(o)
        after.append(hv.fork())
        return outs + [Outcome("fall", a) for a in after]

    def st_For(self, s, st):
        if s.orelse:
            raise Unsupported("for-else")
        spec = self.loop_spec(s.lineno, s)
        if spec.get("mode") == "growing":
            return self.st_For_growing(s, st, spec)
        it = self.iter_seq(s.iter, st)
        kname = spec.get("index", "_k")
        inv_text = spec["invariant"]

        def inv(state: State, kval) -> Any:
            env = dict(state.env)
            env[kname] = VInt(kval)
            env["_iter_len"] = VInt(it.length)
            return self.truthy(self.ev_clause(inv_text, env, heap=state.heap))
        # inv-init
        self.oblige(st, f"inv-init@L{s.lineno}", "inv-init", inv(st, z3.IntVal(0)), s.lineno)
        # havoc
        mod = [n for n in self.assigned_names(s.body) if n in st.env]
        target_names = self.assigned_names([ast.Expr(value=s.target)]) if False else \
            [x.id for x in ast.walk(s.target) if isinstance(x, ast.Name)]
        hv = st.fork()
        for n in mod:
            if n in target_names: continue
            hv.env[n] = self.fresh_like(st.env[n], n)
            hv.pc.extend(wf_facts(hv.env[n]))
        k = z3.Int(fresh_name("k"))
        body_st = hv.fork()
        body_st.pc += [k >= 0, k < it.length, inv(hv, k)]
        self.bind_target(s.target, self.elem(it, k), body_st, s.lineno)
        outs: List[Outcome] = []
        after: List[State] = []
        heap_sig = {k_: len(v_) for k_, v_ in body_st.heap.items()}
        for o in self.exec_block(s.body, body_st):
            if {k_: len(v_) for k_, v_ in o.st.heap.items()} != heap_sig:
                raise Unsupported("field writes inside a loop body")
            if o.kind in ("fall", "continue"):
                self.oblige(o.st, f"inv-step@L{s.lineno}", "inv-step", inv(o.st, k + 1), s.lineno)
                self.obls.append(Obligation(f"cover-loop@L{s.lineno}", "cover", o.st.pc, z3.BoolVal(False), s.lineno,
                                            expect="sat", detail=f"loop-body@L{s.lineno}"))
            elif o.kind == "break":
                after.append(o.st)
            else:
                outs.append(o)
        exit_st = hv.fork()
        exit_st.pc.append(inv(hv, it.length))
        after.append(exit_st)
        return outs + [Outcome("fall", a) for a in after]

    def st_While(self, s, st):
        if s.orelse:
            raise Unsupported("while-else")
        if not hasattr(self, "_loop_ids"):
            self._loop_ids = None
            del self._loop_ids
        mode = None
        modes = (self.c.path_hints or {}).get("loops_mode", {})
        if modes:
            loops = sorted([n for n in ast.walk(self.fnode) if isinstance(n, (ast.For, ast.While))],
                           key=lambda n: (n.lineno, n.col_offset))
            mode = modes.get(loops.index(s))
        if mode in ("skip", "first_iteration"):
            # exact treatment of *some* paths only: the loop is not entered ("skip"), or its body is run once
            # and paths reaching the end of the body are not part of this obligation set ("first_iteration")
            g = self.truthy(self.ev(s.test, st))
            outs: List[Outcome] = []
            if mode == "first_iteration" and not is_false(g):
                for o in self.branch(s.body, st.fork(g)):
                    if o.kind in ("return", "raise"):
                        outs.append(o)
            note = f"loop at L{s.lineno}: mode {mode} -- " + ("paths entering the loop" if mode == "skip" else "paths completing an iteration") + " are not part of this obligation set"
            if note not in self.dropped:
                self.dropped.append(note)
            if not is_true(g):
                outs.append(Outcome("fall", st.fork(z3.Not(g))))
            return outs
        spec = self.loop_spec(s.lineno, s)
        inv_text = spec["invariant"]
        var_text = spec.get("variant")

        def inv(state: State):
            return self.truthy(self.ev_clause(inv_text, state.env, heap=state.heap))
        self.oblige(st, f"inv-init@L{s.lineno}", "inv-init", inv(st), s.lineno)
        mod = [n for n in self.assigned_names(s.body) if n in st.env]
        hv = st.fork()
        for n in mod:
            hv.env[n] = self.fresh_like(st.env[n], n)
            hv.pc.extend(wf_facts(hv.env[n]))
        hv.pc.append(inv(hv))
        body_st = hv.fork()
        g = self.truthy(self.ev(s.test, body_st))
        body_st.pc.append(g)
        v0 = self.as_int(self.ev_clause(var_text, body_st.env)) if var_text else None
        outs: List[Outcome] = []
        after: List[State] = []
        for o in self.exec_block(s.body, body_st):
            if o.kind in ("fall", "continue"):
                self.oblige(o.st, f"inv-step@L{s.lineno}", "inv-step", inv(o.st), s.lineno)
                self.obls.append(Obligation(f"cover-loop@L{s.lineno}", "cover", o.st.pc, z3.BoolVal(False), s.lineno,
                                            expect="sat", detail=f"loop-body@L{s.lineno}"))
                if v0 is not None:
                    v1 = self.as_int(self.ev_clause(var_text, o.st.env))
                    self.oblige(o.st, f"variant@L{s.lineno}", "variant", z3.And(v0 >= 0, v1 < v0), s.lineno)
            elif o.kind == "break":
                after.append(o.st)
            else:
                outs.append(o)
        exit_st = hv.fork()
        g2 = self.truthy(self.ev(s.test, exit_st))
        if not is_true(g2):            # `while True:` is only left through return / break / raise
            exit_st.pc.append(z3.Not(g2))
            after.append(exit_st)
        return outs + [Outcome("fall", a) for a in after]

    def st_Break(self, s, st): return [Outcome("break", st)]
    def st_Continue(self, s, st): return [Outcome("continue", st)]

    # ----------------------------------------------------------------- driver
    def run(self) -> List[Outcome]:
        c = self.c
        env: Dict[str, V] = {}
        pc: List[Any] = []
        node = self.fnode
        argnames = [a.arg for a in node.args.args] if not isinstance(node, ast.Module) else []
        for name, tname in c.types.items():
            v = self.fac.mk(parse_type(tname), name)
            env[name] = v
            self.inputs[name] = v
            pc += wf_facts(v)
        for name, tname in c.closure.items():
            v = self.fac.mk(parse_type(tname), name)
            env[name] = v
            self.inputs[name] = v
            pc += wf_facts(v)
        missing = [a for a in argnames if a not in env]
        if missing and not c.fragment:
            raise Unsupported(f"parameters without declared type: {missing}")
        if missing:
            self.dropped.append(f"parameters {missing} are not modelled (a use inside the fragment would make it unsupported)")
        self.entry_env = dict(env)
        st = State(pc, env)
        self._cur_state = st
        # record invariants of record-typed parameters
        for name, v in list(env.items()):
            if isinstance(v, VRec):
                r = self.reg.records.get(v.cls)
                if r is not None and r.invariant and not (name == "self" and c.qualname.endswith(".__init__")):
                    st.pc.append(self.truthy(self.ev_clause(r.invariant, {"self": v})))
        if c.requires.strip() != "True":
            st.pc.append(self.truthy(self.ev_clause(c.requires, env)))
        self.requires_pc = list(st.pc)
        if isinstance(node, ast.Lambda):
            val = self.ev(node.body, st)
            outs = [Outcome("return", st, val, lineno=node.lineno)]
        else:
            body = node.body
            if c.fragment:
                body = select_fragment(node, c.fragment, self)
            outs = self.exec_block(body, st)
        final: List[Outcome] = []
        block_frag = bool(c.fragment) and c.fragment.get("rule") == "inner_block"
        if block_frag:
            outs = [Outcome("return", o.st, VNone(), lineno=o.lineno or getattr(node, "end_lineno", 0))
                    if o.kind in ("fall", "break", "continue") else o for o in outs]
        open_end = bool(c.fragment) and c.fragment.get("rule") in ("until_stmt", "between_stmts")
        ends_answering = bool(c.fragment) and c.fragment.get("rule") == "guard_prefix"
        for o in outs:
            if o.kind == "fall" and ends_answering:
                o = Outcome("return", o.st, VOpt(z3.BoolVal(False), self.fac.mk(TAny(), fresh_name("answer"))),
                            lineno=getattr(node, "end_lineno", 0))
            if o.kind == "fall" and open_end:
                # the fragment stops before the end of the function: a path running off its end is outside this
                # obligation set, so it must be infeasible under the pre-condition
                self.obls.append(Obligation(f"fragment-end-unreachable#{len(final) + 1}", "post", o.st.pc,
                                            z3.BoolVal(False), getattr(node, "end_lineno", 0)))
                continue
            if o.kind == "fall":
                o = Outcome("return", o.st, VNone(), lineno=getattr(node, "end_lineno", 0))
            if o.kind in ("break", "continue"):
                raise Unsupported("break/continue outside loop")
            final.append(o)
        self.n_paths = len(final)
        idx = 0
        for o in final:
            idx += 1
            if o.kind == "return":
                env2 = dict(self.entry_env)
                if c.qualname.split("@")[0].endswith("__init__") and isinstance(self.entry_env.get("self"), VRec):
                    # the constructed object, as callers see it: a fresh object whose fields have the final
                    # values written by the constructor (fields never written stay unconstrained)
                    old_self = self.entry_env["self"]
                    new_self = self.fac.mk(TRec(old_self.cls), fresh_name("constructed"))
                    for key, writes in o.st.heap.items():
                        cls_, fld = key.split(".", 1)
                        if cls_ != old_self.cls:
                            continue
                        if any(not is_true(t == old_self.t) for t, _ in writes):
                            raise Unsupported("constructor writes fields of another object")
                        o.st.pc.append(self.ident(self.fac.field(new_self, fld), self.read_field(old_self, fld, o.st.heap)))
                    env2["self"] = new_self
                    o.st.heap = {}
                rt = parse_type(c.returns) if c.returns != "Any" else None
                val = self.coerce(o.value, rt) if rt is not None else o.value
                env2["result"] = val
                for k_, v_ in o.st.env.items():
                    env2.setdefault("final_" + k_, v_)
                goal_parts = []
                if c.result_is is not None:
                    goal_parts.append(self.eq(val, self.coerce(self.ev_clause(c.result_is, self.entry_env), rt) if rt else self.ev_clause(c.result_is, self.entry_env)))
                if goal_parts:
                    self.obls.append(Obligation(f"post#{idx}@L{o.lineno}", "post", o.st.pc, z3.And(*goal_parts), o.lineno))
                for cname, ctext in c.ensures_items():
                    nm = f"post#{idx}@L{o.lineno}" + (f":{cname}" if cname else "")
                    self.obls.append(Obligation(nm, "post", o.st.pc,
                                                self.truthy(self.ev_clause(ctext, env2, heap=o.st.heap)), o.lineno))
                o.value = val
            else:
                allowed = c.raises.get(o.exc)
                goal = z3.BoolVal(False) if allowed is None else self.truthy(self.ev_clause(allowed, self.entry_env))
                self.obls.append(Obligation(f"raise#{idx}@L{o.lineno}:{o.exc}", "exc", o.st.pc, goal, o.lineno,
                                            detail=f"explicit raise {o.exc} only under the contract's condition"))
            self.obls.append(Obligation(f"cover#{idx}@L{o.lineno}", "cover", o.st.pc, z3.BoolVal(False), o.lineno,
                                        expect="sat"))
        return final


def select_fragment(fnode, frag: Dict[str, Any], eng: Engine) -> List[ast.stmt]:
    """mechanical fragment selection by AST position rules"""
    rule = frag["rule"]
    if rule == "until_first":
        ty = {"while": ast.While, "for": ast.For}[frag["stmt"]]
        out = []
        for s in fnode.body:
            if isinstance(s, ty):
                break
            out.append(s)
        eng.dropped.append(f"fragment: statements from the first `{frag['stmt']}` on are not part of this obligation set")
        return out
    if rule == "until_stmt":
        out = []
        hit = False
        for st_ in fnode.body:
            if ast.unparse(st_).startswith(frag["starts_with"]):
                hit = True
                break
            out.append(st_)
        if not hit:
            raise Unsupported(f"fragment: no top-level statement starts with `{frag['starts_with']}`")
        eng.dropped.append(f"fragment until_stmt: statements from `{frag['starts_with']}` on are not part of this "
                           "obligation set (a path reaching them must be infeasible under the contract's pre-condition)")
        return out
    if rule == "inner_block":
        # the statements of a nested block (e.g. a loop body) from the one starting with `starts_with` to the end of
        # that block; `break` / `continue` / falling off its end are the normal exits of the fragment
        for n_ in ast.walk(fnode):
            for fld in ("body", "orelse", "finalbody"):
                blk = getattr(n_, fld, None)
                if not isinstance(blk, list):
                    continue
                for i_, st_ in enumerate(blk):
                    if isinstance(st_, ast.stmt) and ast.unparse(st_).startswith(frag["starts_with"]):
                        eng.dropped.append(f"fragment inner_block: the statements from `{frag['starts_with']}` (L{st_.lineno}) to the "
                                           f"end of their block (L{blk[-1].end_lineno}); names defined before are ghost parameters; "
                                           "break / continue / end of block are the fragment's normal exits")
                        return blk[i_:]
        raise Unsupported(f"fragment inner_block: no statement starts with `{frag['starts_with']}`")
    if rule == "guard_prefix":
        # the leading statements up to and including the first `if <guard>: return Nothing`; a path leaving the
        # fragment at its end stands for "the function goes on to answer" (end_returns)
        out = []
        for st_ in fnode.body:
            out.append(st_)
            if isinstance(st_, ast.If) and len(st_.body) == 1 and isinstance(st_.body[0], ast.Return) \
                    and isinstance(st_.body[0].value, ast.Name) and st_.body[0].value.id == "Nothing" and not st_.orelse:
                eng.dropped.append(f"fragment guard_prefix: only the applicability guard (L{st_.lineno}) is part of this "
                                   "obligation set; statements after it are abstracted as `answers`")
                return out
        raise Unsupported("fragment guard_prefix: no `if ...: return Nothing` guard found")
    if rule == "between_stmts":
        out, on, hit = [], False, False
        for st_ in fnode.body:
            txt = ast.unparse(st_)
            if not on and txt.startswith(frag["starts_with"]):
                on = True
            elif on and txt.startswith(frag["until"]):
                hit = True
                break
            if on:
                out.append(st_)
        if not out or not hit:
            raise Unsupported(f"fragment: statements `{frag['starts_with']}` .. `{frag['until']}` not found")
        eng.dropped.append(f"fragment between_stmts: only the statements from `{frag['starts_with']}` (L{out[0].lineno}) up to "
                           f"`{frag['until']}` are part of this obligation set; names defined before are ghost parameters, "
                           "a path reaching the end must be infeasible under the pre-condition")
        return out
    if rule == "from_stmt":
        out, on = [], False
        for s in fnode.body:
            if not on and ast.unparse(s).startswith(frag["starts_with"]):
                on = True
            if on:
                out.append(s)
        if not out:
            raise Unsupported(f"fragment: no top-level statement starts with `{frag['starts_with']}`")
        eng.dropped.append(f"fragment from_stmt: statements before `{frag['starts_with']}` (L{out[0].lineno}) are not part of "
                           "this obligation set; the names they define are ghost parameters")
        return out
    if rule == "attr_slice":
        # keep exactly the top-level statements that store to one of the listed attributes of `self`
        # (mangled or not); every other statement is dropped and must not store to them (checked here)
        attrs = set(frag["attrs"])

        def stores(stmt):
            out = set()
            for x in ast.walk(stmt):
                if isinstance(x, ast.Attribute) and isinstance(x.ctx, (ast.Store, ast.Del)) \
                        and isinstance(x.value, ast.Name) and x.value.id == "self":
                    out.add(x.attr)
            return out
        keep, dropped = [], []
        for s in fnode.body:
            st_ = stores(s)
            if st_ & attrs:
                if st_ - attrs:
                    raise Unsupported(f"statement at L{s.lineno} stores to sliced and unsliced attributes")
                keep.append(s)
            elif isinstance(s, ast.Expr) and isinstance(s.value, ast.Constant):
                continue
            else:
                dropped.append(f"L{s.lineno}")
        eng.dropped.append(f"fragment attr_slice{sorted(attrs)}: statements at {', '.join(dropped)} dropped "
                           "(they do not store to the sliced attributes)")
        return keep
    raise Unsupported(f"fragment rule {rule}")


# --------------------------------------------------------------------------
# builtins
# --------------------------------------------------------------------------

EXC_NAMES = {"RuntimeError", "ValueError", "TypeError", "IndexError", "AssertionError", "StopIteration",
             "TimeoutError", "NotImplementedError", "KeyError", "Exception", "SyntaxError", "SemanticError",
             "UnknownResultError", "ZeroDivisionError", "AttributeError", "LookupError", "ArithmeticError", "OSError"}

# direct base class of each exception the subset knows (CPython's hierarchy; isla's own classes derive from Exception)
EXC_PARENT = {"Exception": "BaseException", "RuntimeError": "Exception", "ValueError": "Exception",
              "TypeError": "Exception", "LookupError": "Exception", "IndexError": "LookupError",
              "KeyError": "LookupError", "AssertionError": "Exception", "StopIteration": "Exception",
              "OSError": "Exception", "TimeoutError": "OSError", "NotImplementedError": "RuntimeError",
              "SyntaxError": "Exception", "SemanticError": "Exception", "UnknownResultError": "Exception",
              "ArithmeticError": "Exception", "ZeroDivisionError": "ArithmeticError", "AttributeError": "Exception",
              "UnicodeError": "ValueError", "RecursionError": "RuntimeError"}


def exc_is_a(name: str, base: str) -> bool:
    seen = 0
    while name is not None and seen < 10:
        if name == base:
            return True
        name = EXC_PARENT.get(name)
        seen += 1
    return base == "BaseException"


def _b_len(e: Engine, args, kw, st, ln):
    v = args[0]
    if isinstance(v, VRec):
        m = e.method_contract(v.cls, "__len__")
        if m is None:
            raise Unsupported(f"len() of record {v.cls}")
        return e.call_contract(m, [v], st, ln)
    if isinstance(v, VOpt):
        e.safety(st, z3.Not(v.is_none), "TypeError", ln, "len-of-None")
        v = v.val
    if isinstance(v, VNStr): return VInt(z3.Length(v.t))
    if isinstance(v, VTup): return VInt(len(v.items))
    return VInt(e.to_seq(v).length)


def _b_tuple(e, args, kw, st, ln):
    if not args: return VTup([], "tuple")
    v = args[0]
    if isinstance(v, VTup): return VTup(v.items, "tuple")
    s = e.to_seq(v)
    if s.kind == "str":
        return VSeq("tuple", s.length, lambda i: e.elem(s, i), TSeq("str", TInt()))
    return VSeq("tuple", s.length, s.at, s.elt)


def _b_list(e, args, kw, st, ln):
    if not args: return VTup([], "list")
    v = args[0]
    if isinstance(v, VTup): return VTup(v.items, "list")
    s = e.to_seq(v)
    if s.kind == "str":
        return VSeq("list", s.length, lambda i: e.elem(s, i), TSeq("str", TInt()))
    return VSeq("list", s.length, s.at, s.elt)


def _b_int(e, args, kw, st, ln):
    v = args[0]
    if isinstance(v, (VInt, VBool)) and len(args) == 1: return VInt(e.as_int(v))
    if isinstance(v, VSeq) and v.kind == "str":
        # int(s[, base]): ASSUMED library contract -- ValueError unless s is a numeral of that base
        # (uninterpreted predicate), otherwise its value (uninterpreted function of the string value)
        base = 10
        if len(args) == 2:
            b = z3.simplify(e.as_int(args[1]))
            if not z3.is_int_value(b):
                raise Unsupported("int(s, base) with a symbolic base")
            base = b.as_long()
        sid = e.str_id(v)
        isnum = z3.Function(f"uf.is_numeral{base}", sort_of("StrId"), z3.BoolSort())(sid)
        e.safety(st, isnum, "ValueError", ln, "int-of-non-numeral")
        note = "int(str) modelled by uninterpreted is_numeral/str2int (assumed library contract)"
        if note not in e.dropped: e.dropped.append(note)
        return VInt(z3.Function(f"uf.str2int{base}", sort_of("StrId"), z3.IntSort())(sid))
    raise Unsupported("int() of non-integer (float conversion is outside the subset)")


def _b_bool(e, args, kw, st, ln):
    return VBool(e.truthy(args[0]))


def _b_ord(e, args, kw, st, ln):
    v = args[0]
    if isinstance(v, VNStr):
        e.safety(st, z3.Length(v.t) == 1, "TypeError", ln, "ord-len")
        return VInt(z3.StrToCode(v.t))
    s = e.to_seq(v)
    e.safety(st, s.length == 1, "TypeError", ln, "ord-len")
    return VInt(e.as_int(s.at(z3.IntVal(0))))


def _b_chr(e, args, kw, st, ln):
    i = e.as_int(args[0])
    e.safety(st, z3.And(i >= 0, i <= MAX_CP), "ValueError", ln, "chr-range")
    if e.native_strings:
        return VNStr(z3.StrFromCode(i))
    return VSeq("str", 1, lambda _i, i=i: VInt(i), TInt())


def _b_minmax(which):
    def f(e, args, kw, st, ln):
        if len(args) == 1:
            raise Unsupported(f"{which} over an iterable")
        if kw:
            raise Unsupported(f"{which} with key")
        xs = [e.as_int(a) for a in args]
        r = xs[0]
        for x in xs[1:]:
            r = z3.If(x < r, x, r) if which == "min" else z3.If(x > r, x, r)
        return VInt(r)
    return f


def _b_abs(e, args, kw, st, ln):
    x = e.as_int(args[0])
    return VInt(z3.If(x < 0, -x, x))


def _b_anyall(which):
    def f(e, args, kw, st, ln):
        s = e.to_seq(args[0])
        k = e.bound_var()
        try:
            body = e.truthy(s.at(k))
        finally:
            e.unbind()
        rng = z3.And(k >= 0, k < s.length)
        if which == "any": return VBool(z3.Exists([k], z3.And(rng, body)))
        return VBool(z3.ForAll([k], z3.Implies(rng, body)))
    return f


def _b_isinstance(e, args, kw, st, ln):
    v, cls = args
    if isinstance(v, VOpt):
        inner = _b_isinstance(e, [v.val, cls], kw, st, ln)
        return VBool(z3.And(z3.Not(v.is_none), inner.t))
    if isinstance(cls, VTup):
        parts = [_b_isinstance(e, [v, c_], kw, st, ln).t for c_ in cls.items]
        return VBool(z3.Or(*parts))
    bname = cls.name if isinstance(cls, VClass) and cls.name in ("str", "int", "bool", "list", "tuple") else \
        (cls.builtin if isinstance(cls, VFunc) and cls.builtin in ("int", "bool", "list", "tuple") else None)
    if bname is not None:
        if isinstance(v, VAny):
            raise Unsupported("isinstance on a value of unknown type")
        if bname == "str": return VBool(isinstance(v, VNStr) or (isinstance(v, VSeq) and v.kind == "str"))
        if bname == "int": return VBool(isinstance(v, (VInt, VBool)))
        if bname == "bool": return VBool(isinstance(v, VBool))
        return VBool(isinstance(v, (VSeq, VTup)) and e.to_seq(v).kind == bname)
    if isinstance(cls, VClass) and isinstance(v, (VInt, VBool, VNStr, VSeq, VTup, VNone)):
        return VBool(False)
    if isinstance(cls, VClass) and isinstance(v, VRec):
        r, info = e.find_subclass(cls.name)
        if r is not None and r.name == v.cls:
            tag = e.as_int(e.read_field(v, r.tag_field, st.heap))
            return VBool(z3.Or(*[tag == t for t in info["tags"]]))
        return VBool(v.cls == cls.name)
    raise Unsupported("isinstance")


_sum_fn = None


def seq_fold_fn(name: str):
    """uninterpreted 'fold' symbol used for builtin sum/prod: the assumed
    contract is that the builtin computes the mathematical sum/product."""
    return z3.Function(name, z3.IntSort(), z3.IntSort())


def _b_reduce(e: Engine, args, kw, st, ln):
    """functools.reduce(op, xs[, init]) for op in {operator.and_, operator.or_}
    over Booleans: assumed contract of reduce over an associative, commutative,
    idempotent operator -- the fold is the quantifier.  TypeError on an empty
    sequence without initial value is an exception edge."""
    f = args[0]
    if isinstance(f, VFunc) and f.builtin in ("operator.and_", "operator.or_"):
        s = e.to_seq(args[1])
        probe = s.at(z3.Int("PROBE"))
        if not isinstance(probe, VBool):
            raise Unsupported("reduce(and_/or_) over non-Booleans")
        if len(args) == 2:
            e.safety(st, s.length >= 1, "TypeError", ln, "reduce-empty")
        k = e.bound_var()
        try:
            body = s.at(k).t
        finally:
            e.unbind()
        rng = z3.And(k >= 0, k < s.length)
        r = z3.ForAll([k], z3.Implies(rng, body)) if f.builtin == "operator.and_" else z3.Exists([k], z3.And(rng, body))
        if len(args) == 3:
            init = e.truthy(args[2])
            r = z3.And(init, r) if f.builtin == "operator.and_" else z3.Or(init, r)
        return VBool(r)
    if isinstance(f, VFunc) and f.node is not None and isinstance(f.node, ast.Lambda) and len(f.node.args.args) == 2:
        # fold schema: reduce(lambda acc, x: body, xs[, init]) with an invariant over (acc, _k) from the
        # contract (path_hints["folds"][ordinal]); obligations: inv-init, inv-step; result satisfies inv at len(xs)
        folds = (e.c.path_hints or {}).get("folds", {})
        key = ast.unparse(f.node)
        spec = None
        for patt, sp in folds.items():
            if key.startswith(patt):
                spec = sp
        if spec is None:
            raise Unsupported(f"reduce at L{ln}: no fold invariant for `{key[:40]}`")
        xs = e.to_seq(args[1])
        accn = f.node.args.args[0].arg

        def inv(acc, k, state):
            env = dict(state.env)
            env.update(f.env or {})
            env[accn] = acc
            env["_k"] = VInt(k)
            env["_xs"] = xs
            return e.truthy(e.ev_clause(spec["invariant"], env, heap=state.heap))
        if len(args) == 3:
            acc0, k0 = args[2], z3.IntVal(0)
        else:
            e.safety(st, xs.length >= 1, "TypeError", ln, "reduce-empty")
            acc0, k0 = e.elem(xs, z3.IntVal(0)), z3.IntVal(1)
        e.oblige(st, f"fold-init@L{ln}", "inv-init", inv(acc0, k0, st), ln)
        acc = e.fresh_like(acc0, "acc")
        k = z3.Int(fresh_name("fk"))
        body_st = st.fork()
        body_st.pc += [k >= k0, k < xs.length, inv(acc, k, body_st)]
        nxt = e.inline(f, [acc, e.elem(xs, k)], body_st, ln)
        e.oblige(body_st, f"fold-step@L{ln}", "inv-step", inv(nxt, k + 1, body_st), ln)
        e.obls.append(Obligation(f"cover-loop@L{ln}", "cover", body_st.pc, z3.BoolVal(False), ln, expect="sat",
                                 detail=f"fold-body@L{ln}"))
        res = e.fresh_like(acc0, "fold_result")
        fact = inv(res, xs.length, st)
        st.pc.append(z3.Implies(z3.And(*e.guards), fact) if e.guards else fact)
        return res
    raise Unsupported("reduce (only operator.and_/or_ over Booleans, or a lambda with a fold invariant, is modelled)")


def _smt2(fn):
    return lambda e, a: fn(e, *a)


SMT_OPS: Dict[str, Callable] = {
    # the solver's own operators (SMT-LIB semantics), used as the specification side of C05
    "smt_mod": _smt2(lambda e, a, b: VInt(e.as_int(a) % e.as_int(b))),
    "smt_div": _smt2(lambda e, a, b: VInt(e.as_int(a) / e.as_int(b))),
    "smt_abs": _smt2(lambda e, a: VInt(z3.If(e.as_int(a) >= 0, e.as_int(a), -e.as_int(a)))),
    "smt_len": _smt2(lambda e, s: VInt(z3.Length(s.t))),
    "smt_concat": _smt2(lambda e, s, t: VNStr(z3.Concat(s.t, t.t))),
    "smt_at": _smt2(lambda e, s, i: VNStr(s.t.at(e.as_int(i)))),
    "smt_substr": _smt2(lambda e, s, i, n: VNStr(z3.SubString(s.t, e.as_int(i), e.as_int(n)))),
    "smt_to_code": _smt2(lambda e, s: VInt(z3.StrToCode(s.t))),
    "smt_str_lt": _smt2(lambda e, s, t: VBool(s.t < t.t)),
}


def _b_cnt(e, args, kw, st, ln):
    return e._cnt_apply(args[0])


def _b_map(e: Engine, args, kw, st, ln):
    """map(f, xs) with a local lambda: element-wise, like a comprehension"""
    f, xs = args[0], e.to_seq(args[1])
    if not (isinstance(f, VFunc) and f.node is not None and isinstance(f.node, ast.Lambda)):
        raise Unsupported("map with a non-lambda function")
    k0 = z3.Int(fresh_name("map_k"))
    e.guards.append(z3.And(k0 >= 0, k0 < xs.length))
    try:
        sample = e.inline(f, [e.elem(xs, k0)], st.fork(), ln)       # safety obligations at an arbitrary index
    finally:
        e.guards.pop()

    def at(i):
        old = e.emit
        e.emit = False
        try:
            return e.inline(f, [e.elem(xs, i)], st.fork(), ln)
        finally:
            e.emit = old
    return VSeq("list", xs.length, at, e.type_of(sample))


def _b_reversed(e: Engine, args, kw, st, ln):
    s = e.to_seq(args[0])
    return VSeq("list", s.length, lambda i, s=s: e.elem(s, s.length - 1 - i), s.elt)


def _b_some(e, args, kw, st, ln):
    """returns.maybe.Some(x) modelled as the non-None case of an Optional (assumed library contract)"""
    return VOpt(z3.BoolVal(False), args[0])


BUILTINS: Dict[str, Callable] = {
    "Some": _b_some,
    "_cnt": _b_cnt, "map": _b_map, "reversed": _b_reversed,
    "len": _b_len, "tuple": _b_tuple, "list": _b_list, "int": _b_int, "bool": _b_bool, "ord": _b_ord,
    "chr": _b_chr, "min": _b_minmax("min"), "max": _b_minmax("max"), "abs": _b_abs,
    "any": _b_anyall("any"), "all": _b_anyall("all"), "isinstance": _b_isinstance, "reduce": _b_reduce,
}
