"""Value model of the VC generator (DESIGN.md 2.3): shallow sequences,
records as uninterpreted sorts, Optionals as (flag, value), native z3 strings
for the C05 operator domain."""
from __future__ import annotations

import itertools
import re
from typing import Any, Callable, Dict, List, Optional, Sequence, Tuple

import z3


class Unsupported(Exception):
    """construct outside the verified subset -> function falls to the bounded tier"""


# --------------------------------------------------------------------------
# types
# --------------------------------------------------------------------------

class T:
    pass


class TInt(T):
    def __repr__(self): return "Int"


class TBool(T):
    def __repr__(self): return "Bool"


class TNone(T):
    def __repr__(self): return "None"


class TAny(T):
    def __repr__(self): return "Any"


class TNStr(T):
    def __repr__(self): return "NStr"


class TSeq(T):
    def __init__(self, kind: str, elt: T):
        self.kind, self.elt = kind, elt

    def __repr__(self): return f"Seq<{self.kind}>[{self.elt}]"


class TTup(T):
    def __init__(self, items: List[T], kind: str = "tuple"):
        self.items, self.kind = items, kind

    def __repr__(self): return f"Tuple{self.items}"


class TOpt(T):
    def __init__(self, t: T):
        self.t = t

    def __repr__(self): return f"Opt[{self.t}]"


class TSet(T):
    """finite set of opaque (`Any`) elements: its characteristic predicate"""
    def __repr__(self): return "SetOf[Any]"


class TRec(T):
    def __init__(self, name: str):
        self.name = name

    def __repr__(self): return f"Rec:{self.name}"


def _split_top(s: str) -> List[str]:
    out, depth, cur = [], 0, ""
    for ch in s:
        if ch == "[":
            depth += 1
        elif ch == "]":
            depth -= 1
        if ch == "," and depth == 0:
            out.append(cur.strip())
            cur = ""
        else:
            cur += ch
    if cur.strip():
        out.append(cur.strip())
    return out


def parse_type(s: str) -> T:
    s = s.strip()
    if s == "Int": return TInt()
    if s == "Bool": return TBool()
    if s == "None": return TNone()
    if s == "Any": return TAny()
    if s == "NStr": return TNStr()
    if s == "Str": return TSeq("str", TInt())
    if s == "Path": return TSeq("tuple", TInt())
    if s.startswith("Rec:"): return TRec(s[4:])
    if s == "SetOf[Any]": return TSet()
    if s.startswith("Sort:"): return TSort(s[5:])
    m = re.match(r"^(\w+)\[(.*)\]$", s)
    if m:
        head, inner = m.group(1), m.group(2)
        if head == "List": return TSeq("list", parse_type(inner))
        if head == "TupleOf": return TSeq("tuple", parse_type(inner))
        if head == "Tuple": return TTup([parse_type(x) for x in _split_top(inner)])
        if head == "Opt": return TOpt(parse_type(inner))
        if head == "Dict1": return TTup([parse_type(x) for x in _split_top(inner)], "dict")
    raise ValueError(f"unknown type {s!r}")


# --------------------------------------------------------------------------
# values
# --------------------------------------------------------------------------

class V:
    pass


class VInt(V):
    def __init__(self, t): self.t = t if not isinstance(t, int) else z3.IntVal(t)
    def __repr__(self): return f"VInt({self.t})"


class VBool(V):
    def __init__(self, t): self.t = t if not isinstance(t, bool) else z3.BoolVal(t)
    def __repr__(self): return f"VBool({self.t})"


class VNone(V):
    def __repr__(self): return "VNone"


class VAny(V):
    def __init__(self, t): self.t = t


class TSort(T):
    """value of an uninterpreted sort used only in specifications"""
    def __init__(self, name: str): self.name = name
    def __repr__(self): return f"Sort:{self.name}"


class VNStr(V):
    def __init__(self, t): self.t = t if not isinstance(t, str) else z3.StringVal(t)
    def __repr__(self): return f"VNStr({self.t})"


class VSeq(V):
    """shallow sequence: z3 length term + Python function index term -> V"""
    def __init__(self, kind: str, length, at: Callable[[Any], V], elt: Optional[T] = None):
        self.kind = kind
        self.length = length if not isinstance(length, int) else z3.IntVal(length)
        self.at = at
        self.elt = elt

    def __repr__(self): return f"VSeq<{self.kind}>(len={self.length})"


class VSet(V):
    """set of `Any` values: Python-level function element term -> z3 Bool"""
    def __init__(self, member: Callable[[Any], Any]):
        self.member = member

    def __repr__(self): return "VSet"


class VTup(V):
    """fixed-arity tuple/list with heterogeneous items"""
    def __init__(self, items: List[V], kind: str = "tuple"):
        self.items, self.kind = list(items), kind

    def __repr__(self): return f"VTup{self.items}"


class VOpt(V):
    def __init__(self, is_none, val: V):
        self.is_none, self.val = is_none, val

    def __repr__(self): return f"VOpt({self.is_none}, {self.val})"


class VRec(V):
    def __init__(self, cls: str, t):
        self.cls, self.t = cls, t

    def __repr__(self): return f"VRec({self.cls}:{self.t})"


class VFunc(V):
    """closure over a lambda / nested def / named contract"""
    def __init__(self, node=None, env=None, contract=None, builtin: Optional[str] = None, name: str = ""):
        self.node, self.env, self.contract, self.builtin, self.name = node, env, contract, builtin, name


class VClass(V):
    def __init__(self, name: str): self.name = name


class VExc(V):
    def __init__(self, name: str): self.name = name


# --------------------------------------------------------------------------
# factory
# --------------------------------------------------------------------------

_sorts: Dict[str, Any] = {}
_counter = itertools.count()


def sort_of(name: str):
    if name not in _sorts:
        _sorts[name] = z3.DeclareSort(name)
    return _sorts[name]


def fresh_name(base: str) -> str:
    return f"{base}!{next(_counter)}"


def _uf(name: str, args: Sequence[Any], rng):
    if not args:
        return z3.Const(name, rng)
    return z3.Function(name, *[a.sort() for a in args], rng)(*args)


class Factory:
    """builds symbolic values of a declared type from uninterpreted functions"""

    def __init__(self, records: Dict[str, Any]):
        self.records = records
        self.wf: List[Any] = []          # well-formedness facts (lengths >= 0 ...) as closures
        self.len_terms: List[Any] = []

    def mk(self, t: T, name: str, args: Sequence[Any] = ()) -> V:
        args = list(args)
        if isinstance(t, TInt):
            return VInt(_uf(name, args, z3.IntSort()))
        if isinstance(t, TBool):
            return VBool(_uf(name, args, z3.BoolSort()))
        if isinstance(t, TNone):
            return VNone()
        if isinstance(t, TAny):
            return VAny(_uf(name, args, sort_of("Any")))
        if isinstance(t, TNStr):
            return VNStr(_uf(name, args, z3.StringSort()))
        if isinstance(t, TRec):
            return VRec(t.name, _uf(name, args, sort_of(t.name)))
        if isinstance(t, TSort):
            return VAny(_uf(name, args, sort_of(t.name)))
        if isinstance(t, TSet):
            return VSet(lambda x, name=name, args=args: _uf(name + ".has", args + [x], z3.BoolSort()))
        if isinstance(t, TSeq):
            length = _uf(name + ".len", args, z3.IntSort())
            return VSeq(t.kind, length, lambda i, t=t, name=name, args=args: self.mk(t.elt, name + ".el", args + [i]), t.elt)
        if isinstance(t, TTup):
            return VTup([self.mk(it, f"{name}.{k}", args) for k, it in enumerate(t.items)], t.kind)
        if isinstance(t, TOpt):
            return VOpt(_uf(name + ".isnone", args, z3.BoolSort()), self.mk(t.t, name + ".some", args))
        raise Unsupported(f"type {t}")

    def field(self, rec: VRec, fname: str) -> V:
        r = self.records.get(rec.cls)
        if r is None or fname not in r.fields:
            raise Unsupported(f"field {rec.cls}.{fname} not declared")
        return self.mk(parse_type(r.fields[fname]), f"{rec.cls}.{fname}", [rec.t])


def wf_facts(v: V, depth: int = 2) -> List[Any]:
    """basic well-formedness of a symbolic value: lengths are non-negative
    (also for the elements, as a quantified fact), code points in range is
    NOT assumed (ints are mathematical)."""
    out = []
    if isinstance(v, VSeq):
        out.append(v.length >= 0)
        if depth > 0 and isinstance(v.elt, (TSeq, TTup, TOpt)):
            i = z3.Int(fresh_name("wf_i"))
            inner = wf_facts(v.at(i), depth - 1)
            if inner:
                out.append(z3.ForAll([i], z3.Implies(z3.And(i >= 0, i < v.length), z3.And(*inner))))
    elif isinstance(v, VTup):
        for it in v.items:
            out += wf_facts(it, depth)
    elif isinstance(v, VOpt):
        inner = wf_facts(v.val, depth)
        if inner:
            out.append(z3.Implies(z3.Not(v.is_none), z3.And(*inner)))
    return out
