# Unit corpus of the VC generator: each function has a correct contract (must
# verify) and, where named *_bad, a body that violates the same contract (must
# be refuted).  Used by `python3-vt -m pyvc.selftest` (MANIFEST setup_cmd).


def prefix_good(p, q):
    if not p:
        return True
    if not q:
        return False
    a, *r = p
    b, *s = q
    if a != b:
        return False
    return prefix_good(tuple(r), tuple(s))


def prefix_bad(p, q):
    if not p:
        return True
    if not q:
        return True
    a, *r = p
    b, *s = q
    if a != b:
        return False
    return prefix_bad(tuple(r), tuple(s))


def mod_good(a, b):
    return a % b


def set_good(xs, i, x):
    return xs[:i] + (x,) + xs[i + 1:]


def set_bad(xs, i, x):
    return xs[:i] + (x,) + xs[i:]


def first_bad(xs):
    return xs[0]


def count_pos(xs):
    n = 0
    for x in xs:
        if x > 0:
            n += 1
    return n


def count_pos_bad(xs):
    n = 0
    for x in xs:
        if x >= 0:
            n += 1
    return n


def sum_to(n):
    i = 0
    s = 0
    while i < n:
        i += 1
        s += i
    return s


def div_or_default(a, b):
    try:
        return a // b
    except ZeroDivisionError:
        return 0


def div_or_default_bad(a, b):
    try:
        return a // b
    except ValueError:
        return 0


def restore_after(xs, i):
    saved = i
    try:
        i = i + 1
        x = xs[i]
    except IndexError:
        x = 0 - 1
    finally:
        i = saved
    return (x, i)


def restore_after_bad(xs, i):
    saved = i
    try:
        i = i + 1
        x = xs[i]
    except IndexError:
        x = 0 - 1
    finally:
        i = saved + 1
    return (x, i)
