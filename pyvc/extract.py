"""Locate the real source text of a contracted function on every run.

The AST node returned here *is* the text that is symbolically executed; nothing
is copied into /verif.  Qualified names: `f`, `Class.method`,
`outer.<locals>.inner`, lambdas as `outer.<lambda#k>` (k-th lambda in source
order inside `outer`).
"""
from __future__ import annotations

import ast
import hashlib
import os
from typing import Dict, List, Optional, Tuple

REPO_SRC = os.environ.get("PYVC_REPO_SRC", "/repo/src")

_cache: Dict[str, Tuple[str, ast.Module]] = {}


def load_module(relpath: str) -> Tuple[str, ast.Module]:
    if relpath not in _cache:
        path = os.path.join(REPO_SRC, relpath)
        with open(path, encoding="utf-8") as fh:
            src = fh.read()
        _cache[relpath] = (src, ast.parse(src, filename=path))
    return _cache[relpath]


class NotFound(Exception):
    pass


def _children_defs(node):
    for ch in ast.iter_child_nodes(node):
        if isinstance(ch, (ast.FunctionDef, ast.AsyncFunctionDef, ast.ClassDef)):
            yield ch
        elif isinstance(ch, (ast.If, ast.Try, ast.With, ast.For, ast.While)):
            yield from _children_defs(ch)


def _lambdas_in(node) -> List[ast.Lambda]:
    out = []

    class V(ast.NodeVisitor):
        def visit_Lambda(self, n):
            out.append(n)
            self.generic_visit(n)

    for ch in ast.iter_child_nodes(node):
        V().visit(ch)
    out.sort(key=lambda n: (n.lineno, n.col_offset))
    return out


def find(relpath: str, qualname: str):
    """returns (node, source_segment, sha1[:16], lineno)"""
    src, mod = load_module(relpath)
    qualname = qualname.split("@")[0]          # "@tag" distinguishes several contracts (type variants) of one function
    parts = qualname.split(".")
    node = mod
    i = 0
    while i < len(parts):
        p = parts[i]
        if p == "<locals>":
            i += 1
            continue
        if p.startswith("<lambda#"):
            k = int(p[len("<lambda#"):-1])
            lams = _lambdas_in(node)
            if k >= len(lams):
                raise NotFound(f"{relpath}::{qualname}: lambda #{k} not found")
            node = lams[k]
            i += 1
            continue
        found = None
        for ch in _children_defs(node):
            if ch.name == p and found is None:
                found = ch            # first definition (a property getter precedes its setter)
        if found is None and not isinstance(node, ast.Module):
            # nested def deeper inside statements of a function
            for ch in ast.walk(node):
                if ch is not node and isinstance(ch, (ast.FunctionDef, ast.ClassDef)) and ch.name == p:
                    found = ch
                    break
        if found is None:
            raise NotFound(f"{relpath}::{qualname}: '{p}' not found")
        node = found
        i += 1
    seg = ast.get_source_segment(src, node) or ""
    return node, seg, hashlib.sha1(seg.encode("utf-8")).hexdigest()[:16], node.lineno


def module_source(relpath: str) -> str:
    return load_module(relpath)[0]
