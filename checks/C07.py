"""C07 -- unparse/parse round trip: bounded (nothing proved: ANTLR listener and z3 printing are outside the verified subset)."""
from vlib.harness import proved_tier
from checks import bounded_C07

LEVEL = "exploration"


def run(rep, tier, seed):
    bounded_C07.run(rep, tier, seed)


def replay(path):
    import json
    d = json.load(open(path))
    if d.get("module", "").startswith("checks.bounded_") or "case" in d:
        return bounded_C07.replay(path)
    from vlib.harness import replay_file
    return replay_file(path)
