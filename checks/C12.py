"""C12 -- fuzzer / mutator. Proved: parent_or_child (used by the swap mutation). Bounded: post-conditions of expand_tree / mutate."""
from vlib.harness import proved_tier
from checks import bounded_C12

LEVEL = "other"


def run(rep, tier, seed):
    proved_tier(rep, "C12", seed, expected_min_obligations=1)
    bounded_C12.run(rep, tier, seed)


def replay(path):
    import json
    d = json.load(open(path))
    if d.get("module", "").startswith("checks.bounded_") or "case" in d:
        return bounded_C12.replay(path)
    from vlib.harness import replay_file
    return replay_file(path)
