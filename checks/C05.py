"""C05 -- ground SMT-LIB atoms.  Proved: the arithmetic/comparison/Boolean/
string fast-path constructors equal the solver's own operators and never
raise; dispatch-chain call shape.  Bounded: regex constructors, div/pow/
str.to.int (float), is_valid end-to-end against Z3 (bounded_C05)."""
from vlib.harness import proved_tier

LEVEL = "other"


def run(rep, tier, seed):
    proved_tier(rep, "C05", seed, expected_min_obligations=40)
    try:
        from checks import syntactic
        syntactic.run(rep, "C05")
    except ImportError:
        pass
    try:
        from checks import bounded_C05
    except ImportError:
        rep.assume("bounded part (regex constructors, is_valid vs Z3) not built yet")
        return
    bounded_C05.run(rep, tier, seed)


def replay(path):
    import json
    d = json.load(open(path))
    if d.get("module", "").startswith("checks.bounded_") or "case" in d:
        from checks import bounded_C05
        return bounded_C05.replay(path)
    from vlib.harness import replay_file
    return replay_file(path)
