"""Bounded part of C04: ``nth`` / ``consecutive`` / ``level`` against the
reference definitions, and all nine structural predicates through
``evaluate()``.

Part A (direct calls, exhaustive small scope): every ordered tree shape with
<= N nodes, every labelling (inner nodes <a>/<b>; leaves: open <a>, epsilon
<b>, terminal "t"), every ORDERED pair of nodes (identical and
ancestor/descendant pairs included):

* ``is_nth(tree, n, p1, p2)`` for n in 0..5 as int and as numeric string;
  contract for n >= 1 and a nonterminal node_1: equals ``refpred.nth``; int and
  string form agree.  Pre-conditions (documentation silent): n = 0, and a
  terminal node_1 ("a node with its NONTERMINAL symbol").
* ``consecutive(tree, p1, p2)``: the verdict lies in the set of documented
  readings (literal "consecutive leaves", ordered or symmetric, and the
  generalisation "no leaf in between" to inner nodes).
* ``level_check(tree, op, nt, p1, p2)`` for the five operators and both
  labels: the verdict lies in the set of readings of the comment block of
  ``level_check`` (fragment with / without node_i itself).

Part B (through ``evaluate``): (B1) for trees of the reference grammars every
ordered pair of NONTERMINAL nodes and each of the nine predicates as a ground
``StructuralPredicateFormula`` over the two subtrees, evaluated by
``isla.evaluator.evaluate`` (both strategies) and compared with ``ref_eval``;
(B2) quantified constraint texts
``Q1 <A> x in start: Q2 <B> y in start: P(x, y)`` for every predicate,
quantifier pattern and pair of nonterminals.
"""

from __future__ import annotations

import json
import multiprocessing
import random
import time
import traceback
from typing import Any, Dict, List, Optional, Tuple

MODULE = "checks.bounded_C04"
WORKERS = 16

TIERS = {
    # exhaustive up to `full` nodes; for `full` < n <= `sampled_to`: every shape with `per_shape` seeded labellings
    "quick": dict(full=6, sampled_to=7, per_shape=30, b1_trees=6, b1_max_nodes=22, b2_trees=14),
    "thorough": dict(full=7, sampled_to=8, per_shape=40, b1_trees=30, b1_max_nodes=30, b2_trees=60),
}

B_GRAMMARS = ["assgn", "leftrec", "rightrec", "nullable", "ambig", "xmlish", "csvish", "multichar"]
LEVEL_OPS = ("EQ", "GE", "LE", "GT", "LT")
BINARY = ("before", "after", "inside", "direct_child", "same_position", "different_position", "consecutive")


# --------------------------------------------------------------------------- #
# Part A
# --------------------------------------------------------------------------- #


def _direct_case_list(tier: str, seed: int) -> List[Dict[str, Any]]:
    """Chunks of (n, shape index, labelling index range | sampled indices)."""
    from bounded import c04_helpers as C

    cfg = TIERS[tier]
    chunks: List[Dict[str, Any]] = []
    for n in range(1, cfg["sampled_to"] + 1):
        for s_idx, shape in enumerate(C.shapes(n)):
            total = C.count_labellings(shape)
            if n <= cfg["full"]:
                indices = None  # all
                step = 400
                for lo in range(0, total, step):
                    chunks.append(dict(part="A", n=n, shape=s_idx, lo=lo, hi=min(total, lo + step), indices=None))
            else:
                rng = random.Random(f"{seed}:C04:{n}:{s_idx}")
                k = min(cfg["per_shape"], total)
                indices = sorted(rng.sample(range(total), k))
                chunks.append(dict(part="A", n=n, shape=s_idx, lo=0, hi=0, indices=indices))
    return chunks


def _call(fn, *args):
    try:
        return fn(*args)
    except KeyboardInterrupt:
        raise
    except BaseException as exc:  # noqa: BLE001
        return f"X:{type(exc).__name__}"


def check_tree_direct(struct) -> Tuple[Dict[str, int], List[Dict[str, Any]]]:
    """All pairs / arguments on one tree.  Returns (counters, violations)."""
    from isla import isla_predicates as ip

    from bounded import c04_helpers as C
    from bounded import refpred
    from bounded.reftree import from_struct, is_nt, ref_paths

    tree = from_struct(struct)
    nodes = ref_paths(tree)
    counts = dict(nth=0, nth_nontrivial=0, nth_pre_terminal=0, nth_pre_zero=0, consecutive=0,
                  consecutive_nontrivial=0, level=0, level_nontrivial=0)
    violations: List[Dict[str, Any]] = []

    def report(sig: str, what: str, call: Dict[str, Any]) -> None:
        violations.append(dict(signature=sig, what=what, call=call))

    for p1, n1 in nodes:
        for p2, n2 in nodes:
            # ---- nth
            for n in range(0, 6):
                want = refpred.nth(tree, n, p1, p2)
                r_int = _call(ip.is_nth, tree, n, p1, p2)
                r_str = _call(ip.is_nth, tree, str(n), p1, p2)
                counts["nth"] += 2
                if not is_nt(n1.value):
                    counts["nth_pre_terminal"] += 2
                    continue
                if r_int != r_str:
                    report("is_nth:int-and-string-form-differ",
                           f"is_nth(n={n}) -> {r_int}, is_nth(n='{n}') -> {r_str}",
                           dict(pred="nth", n=n, p1=list(p1), p2=list(p2)))
                if n <= 0:
                    # occurrences are counted from 1: there is no 0-th occurrence, the predicate is false (the oracle
                    # says so: 1 <= N); counted separately from the N >= 1 cases.  Negative numbers are not "numeric
                    # Strings" (ISLa asserts n.isnumeric()), hence outside the documentation and not generated.
                    counts["nth_pre_zero"] += 2
                counts["nth_nontrivial"] += 2
                for form, got in (("int", r_int), ("str", r_str)):
                    if got is not want:
                        rel = "node1-inside-node2" if refpred.inside(tree, p1, p2) else "node1-outside-node2"
                        kind = got if isinstance(got, str) else f"{got}-where-spec-says-{want}"
                        report(f"is_nth:{rel}:{kind}",
                               f"is_nth(tree, {n!r} as {form}, {p1}, {p2}) -> {got}, spec {want}",
                               dict(pred="nth", n=n, form=form, p1=list(p1), p2=list(p2)))
            # ---- consecutive
            admitted = C.consecutive_readings(tree, p1, p2)
            got = _call(ip.consecutive, tree, p1, p2)
            counts["consecutive"] += 1
            if len(admitted) == 1:
                counts["consecutive_nontrivial"] += 1
            if got not in admitted or isinstance(got, str):
                leaves = "both-leaves" if (not n1.children and not n2.children) else "inner-node-args"
                k = 0
                while k < min(len(p1), len(p2)) and p1[k] == p2[k]:
                    k += 1
                lcp = "common-prefix-is-root" if k == 0 else "common-prefix-below-root"
                kind = got if isinstance(got, str) else f"{got}-where-every-reading-says-{sorted(admitted)[0]}"
                report(f"consecutive:{leaves}:{lcp}:{kind}",
                       f"consecutive(tree, {p1}, {p2}) -> {got}, documented readings {sorted(admitted)}",
                       dict(pred="consecutive", p1=list(p1), p2=list(p2)))
            # ---- level
            for op in LEVEL_OPS:
                for nt in C.INNER_LABELS:
                    admitted = C.level_readings(tree, op, nt, p1, p2)
                    got = _call(ip.level_check, tree, op, nt, p1, p2)
                    counts["level"] += 1
                    if len(admitted) == 1:
                        counts["level_nontrivial"] += 1
                    if got not in admitted or isinstance(got, str):
                        kind = got if isinstance(got, str) else f"{got}-where-every-reading-says-{sorted(admitted)[0]}"
                        report(f"level_check:{op}:{kind}",
                               f"level_check(tree, {op!r}, {nt!r}, {p1}, {p2}) -> {got}, documented readings {sorted(admitted)}",
                               dict(pred="level", op=op, nt=nt, p1=list(p1), p2=list(p2)))
    return counts, violations


def _worker_a(chunk: Dict[str, Any]) -> Dict[str, Any]:
    from bounded import c04_helpers as C

    shape = C.shapes(chunk["n"])[chunk["shape"]]
    indices = chunk["indices"] if chunk["indices"] is not None else range(chunk["lo"], chunk["hi"])
    totals: Dict[str, int] = {}
    violations = []
    trees = 0
    first = None
    for idx in indices:
        struct = C.nth_labelling(shape, idx)
        if first is None:
            first = struct
        trees += 1
        counts, viol = check_tree_direct(struct)
        for k, v in counts.items():
            totals[k] = totals.get(k, 0) + v
        for v in viol:
            if len(violations) < 60:
                v["tree"] = C.struct_to_json(struct)
                violations.append(v)
    return dict(part="A", chunk=chunk, trees=trees, counts=totals, violations=violations,
                sample=C.struct_to_json(first) if first is not None else None)


# --------------------------------------------------------------------------- #
# Part B
# --------------------------------------------------------------------------- #


def _b_tasks(tier: str, seed: int) -> List[Dict[str, Any]]:
    from bounded import c03_helpers as H
    from bounded.grammars import GRAMMARS

    cfg = TIERS[tier]
    tasks: List[Dict[str, Any]] = []
    for name in B_GRAMMARS:
        nts = [nt for nt in GRAMMARS[name] if nt != "<start>"]
        # B1: ground predicate formulas over node pairs
        for t_idx in range(len(_small_pool(name, cfg["b1_trees"], cfg["b1_max_nodes"], seed))):
            tasks.append(dict(part="B1", grammar=name, n_trees=cfg["b1_trees"], max_nodes=cfg["b1_max_nodes"],
                              seed=seed, tree_index=t_idx))
        # B2: quantified texts
        p = H.PARAMS[name]
        pairs = []
        for a in nts:
            for b in nts:
                pairs.append((a, b))
        rng = random.Random(f"{seed}:C04:B2:{name}")
        if len(pairs) > 9:
            keep = [(p["E"], p["E"]), (p["R"], p["E"]), (p["E"], p["R"]), (p["R"], p["R"]), (p["M"], p["E"])]
            rest = [x for x in pairs if x not in keep]
            rng.shuffle(rest)
            pairs = list(dict.fromkeys(keep + rest[: 9 - len(set(keep))]))
        for a, b in pairs:
            tasks.append(dict(part="B2", grammar=name, A=a, B=b, n_trees=cfg["b2_trees"], seed=seed))
    return tasks


def _b2_texts(name: str, A: str, B: str) -> List[Tuple[str, str]]:
    """(predicate, text) pairs.  Each binary predicate in four quantifier
    patterns; nth for N = 1..3 and level for the five operators in two."""
    from bounded import c03_helpers as H

    R = H.PARAMS[name]["R"]
    out: List[Tuple[str, str]] = []
    for pred in BINARY:
        atom = f"{pred}(x, y)"
        out.append((pred, f"forall {A} x in start: forall {B} y in start: {atom}"))
        out.append((pred, f"exists {A} x in start: exists {B} y in start: {atom}"))
        out.append((pred, f"forall {A} x in start: exists {B} y in start: {atom}"))
        out.append((pred, f"exists {A} x in start: forall {B} y in x: (different_position(x, y) implies {pred}(y, x))"))
    for n in (1, 2, 3):
        out.append(("nth", f'forall {A} x in start: exists {B} y in x: nth("{n}", y, x)'))
        out.append(("nth", f'exists {A} x in start: exists {B} y in start: (nth("{n}", x, y) and not same_position(x, y))'))
    for op in LEVEL_OPS:
        out.append(("level", f'forall {A} x in start: forall {B} y in start: level("{op}", "{R}", x, y)'))
        out.append(("level", f'exists {A} x in start: exists {B} y in start: (before(x, y) and level("{op}", "{A}", x, y))'))
    return out


def _small_pool(name: str, n_trees: int, max_nodes: int, seed: int):
    from bounded import c03_helpers as H
    from bounded.grammars import GRAMMARS
    from bounded.reftree import ref_tree_structs

    structs = list(ref_tree_structs(GRAMMARS[name], "<start>", min(max_nodes, H.POOL_NODES[name])))
    if len(structs) <= n_trees:
        return structs
    # prefer the larger trees (more node pairs), fixed stride over the upper half plus the 2 smallest
    upper = structs[len(structs) // 2:]
    step = len(upper) / (n_trees - 2)
    return structs[:2] + [upper[int(i * step)] for i in range(n_trees - 2)]


def _worker_b1(task: Dict[str, Any]) -> Dict[str, Any]:
    import isla.language as L
    from isla import isla_predicates as ip

    from bounded import c03_helpers as H
    from bounded import c04_helpers as C
    from bounded.grammars import GRAMMARS
    from bounded.refeval import parse_formula
    from bounded.reftree import from_struct, is_nt, ref_paths, ref_str

    H.install_cover()
    name = task["grammar"]
    grammar = GRAMMARS[name]
    preds = {
        "before": ip.BEFORE_PREDICATE, "after": ip.AFTER_PREDICATE, "inside": ip.IN_TREE_PREDICATE,
        "direct_child": [p for p in ip.STANDARD_STRUCTURAL_PREDICATES if p.name == "direct_child"][0],
        "same_position": ip.SAME_POSITION_PREDICATE, "different_position": ip.DIFFERENT_POSITION_PREDICATE,
        "consecutive": ip.CONSECUTIVE_PREDICATE, "nth": ip.NTH_PREDICATE, "level": ip.LEVEL_PREDICATE,
    }
    E = H.PARAMS[name]["E"]
    R = H.PARAMS[name]["R"]
    numeric_conjunct = parse_formula(f'exists int n: count(start, "{E}", n)', grammar)
    counts = dict(cases=0, nontrivial=0, qe_cases=0)
    per_pred: Dict[str, int] = {}
    violations = []
    sample = None
    cover0 = H.cover_snapshot()
    for struct in [_small_pool(name, task["n_trees"], task["max_nodes"], task["seed"])[task["tree_index"]]]:
        tree = from_struct(struct)
        nodes = [(p, n) for p, n in ref_paths(tree) if is_nt(n.value)]
        pair_no = 0
        for p1, n1 in nodes:
            for p2, n2 in nodes:
                pair_no += 1
                atoms = [(pn, (), L.StructuralPredicateFormula(preds[pn], n1, n2)) for pn in BINARY]
                atoms += [("nth", (str(k),), L.StructuralPredicateFormula(preds["nth"], str(k), n1, n2)) for k in (1, 2, 3)]
                atoms += [("level", (op, R), L.StructuralPredicateFormula(preds["level"], op, R, n1, n2)) for op in LEVEL_OPS]
                for pn, extra, atom in atoms:
                    oracle = H.oracle_verdicts(atom, tree, grammar)
                    got = H.call_evaluate(atom, tree, grammar, 20.0)
                    gots = [("legacy", got)]
                    if pair_no % 8 == 0:
                        # the same atom through the quantifier-elimination strategy
                        got_qe = H.call_evaluate(atom & numeric_conjunct, tree, grammar, 20.0)
                        gots.append(("qe", got_qe))
                        counts["qe_cases"] += 1
                    counts["cases"] += 1
                    per_pred[pn] = per_pred.get(pn, 0) + 1
                    decided = oracle["error"] is None and len(oracle["verdicts"]) == 1
                    if decided:
                        counts["nontrivial"] += 1
                    if sample is None and decided and pn == "nth":
                        sample = dict(grammar=name, tree=ref_str(tree), predicate=pn, args=list(extra),
                                      p1=list(p1), p2=list(p2), evaluate=got, oracle=oracle["verdicts"])
                    for strategy, g in gots:
                        bad = None
                        if g not in ("T", "F"):
                            bad = "UNKNOWN-on-closed-tree" if g == "U" else ("raises-" + g[2:] if g.startswith("X:") else g)
                        elif oracle["error"] is None and g not in oracle["verdicts"]:
                            want = oracle["verdicts"][0]
                            bad = f"{'TRUE' if g == 'T' else 'FALSE'}-where-spec-says-{'TRUE' if want == 'T' else 'FALSE'}"
                        if bad and bad not in ("TO", "ZU"):
                            rel = ("same-node" if p1 == p2 else "ancestor-descendant"
                                   if p1[:len(p2)] == p2 or p2[:len(p1)] == p1 else "disjoint-nodes")
                            if len(violations) < 60:
                                violations.append(dict(
                                    signature=f"evaluate:{strategy}:ground-{pn}:{rel}:{bad}",
                                    what=f"grammar={name} tree={ref_str(tree)!r} {pn}{extra}(node@{p1}, node@{p2}) "
                                         f"-> {g}, spec {oracle['verdicts']}",
                                    case=dict(part="B1", grammar=name, tree=H.struct_to_json(struct), pred=pn,
                                              extra=list(extra), p1=list(p1), p2=list(p2), strategy=strategy)))
    cover1 = H.cover_snapshot()
    return dict(part="B1", task=task, counts=counts, per_pred=per_pred, violations=violations, sample=sample,
                cover={k: cover1.get(k, 0) - cover0.get(k, 0) for k in cover1})


def _worker_b2(task: Dict[str, Any]) -> Dict[str, Any]:
    from bounded import c03_helpers as H
    from bounded.grammars import GRAMMARS
    from bounded.refeval import parse_formula
    from bounded.reftree import from_struct, ref_str

    name = task["grammar"]
    grammar = GRAMMARS[name]
    pool = H.tree_pool(name, task["n_trees"], 2, task["seed"])
    counts = dict(cases=0, nontrivial=0, true=0, false=0, inconclusive=0)
    per_pred: Dict[str, int] = {}
    violations = []
    parse_errors = []
    sample = None
    for pred, text in _b2_texts(name, task["A"], task["B"]):
        try:
            formula = parse_formula(text, grammar)
        except KeyboardInterrupt:
            raise
        except BaseException as exc:  # noqa: BLE001
            parse_errors.append(f"{text!r}: {type(exc).__name__}: {str(exc)[:120]}")
            continue
        features = H.formula_features(formula)
        for struct in pool:
            tree = from_struct(struct)
            got = H.call_evaluate(formula, tree, grammar, 20.0)
            oracle = H.oracle_verdicts(formula, tree, grammar, features)
            counts["cases"] += 1
            per_pred[pred] = per_pred.get(pred, 0) + 1
            if got in ("TO", "ZU") or oracle["error"]:
                counts["inconclusive"] += 1
                continue
            decided = len(oracle["verdicts"]) == 1
            if decided:
                counts["nontrivial"] += 1
                counts["true" if oracle["verdicts"][0] == "T" else "false"] += 1
            if sample is None and decided and counts["cases"] % 11 == 5:
                sample = dict(grammar=name, constraint=text, tree=ref_str(tree), evaluate=got, oracle=oracle["verdicts"])
            bad = None
            if got not in ("T", "F"):
                bad = "UNKNOWN-on-closed-tree" if got == "U" else "raises-" + got[2:]
            elif got not in oracle["verdicts"]:
                want = oracle["verdicts"][0]
                bad = f"{'TRUE' if got == 'T' else 'FALSE'}-where-spec-says-{'TRUE' if want == 'T' else 'FALSE'}"
            if bad and len(violations) < 60:
                violations.append(dict(
                    signature=f"evaluate:quantified-{pred}:{bad}",
                    what=f"grammar={name} constraint={text!r} tree={ref_str(tree)!r} -> {got}, spec {oracle['verdicts']}",
                    case=dict(part="B2", grammar=name, text=text, tree=H.struct_to_json(struct), pred=pred)))
    return dict(part="B2", task=task, counts=counts, per_pred=per_pred, violations=violations,
                parse_errors=parse_errors, sample=sample)


def _worker(task: Dict[str, Any]) -> Dict[str, Any]:
    import warnings

    warnings.filterwarnings("ignore")
    try:
        if task["part"] == "A":
            return _worker_a(task)
        if task["part"] == "B1":
            return _worker_b1(task)
        return _worker_b2(task)
    except KeyboardInterrupt:
        raise
    except BaseException:  # noqa: BLE001
        return dict(part=task["part"], task=task, crash=traceback.format_exc(limit=8))


# --------------------------------------------------------------------------- #
# Parent
# --------------------------------------------------------------------------- #


def run(rep, tier: str, seed: int) -> None:
    from bounded import c04_helpers as C

    cfg = TIERS[tier]
    rep.bound(f"C04 bounded A: all ordered tree shapes <= {cfg['sampled_to']} nodes; all labellings (inner <a>/<b>; leaves open "
              f"<a>, epsilon <b>, terminal) for <= {cfg['full']} nodes, {cfg['per_shape']} seeded labellings per shape above; "
              f"all ordered node pairs; nth n in 0..5 as int and numeric string; 5 level operators x 2 labels")
    rep.bound(f"C04 bounded B: grammars {B_GRAMMARS}; B1 {cfg['b1_trees']} trees (<= {cfg['b1_max_nodes']} nodes) x all ordered "
              f"pairs of nonterminal nodes x (7 binary predicates, nth 1..3, level x 5); B2 {cfg['b2_trees']}+ trees x up to 9 "
              f"nonterminal pairs x 44 quantified constraints")
    rep.rule("C04 bounded case = (tree, predicate, arguments) [A, B1] or (grammar, constraint, tree) [B2]; trivial = "
             "pre-condition corner (nth with n = 0 or a terminal node_1) or a verdict on which the documented readings differ")
    rep.assume("nth: 'a node with its nonterminal symbol' - a terminal node_1 is outside the documentation (ISLa asserts); occurrences are counted from 1, so N <= 0 names no occurrence and the predicate is false")
    rep.assume("consecutive: admitted readings = literal consecutive leaves (ordered / symmetric) and 'no leaf in between' for inner nodes")
    rep.assume("level: the comment block of level_check is the only documentation; candidate prefixes = labelled common prefixes "
               "plus the empty prefix; both readings of 'remaining path fragment' (with/without node_i) are admitted")
    rep.exhaustive = (cfg["sampled_to"] == cfg["full"])

    tasks = _direct_case_list(tier, seed) + _b_tasks(tier, seed)
    import isla.evaluator  # noqa: F401  (before the fork)
    import isla.isla_predicates  # noqa: F401
    import bounded.refeval  # noqa: F401
    t0 = time.time()
    # big tasks first
    indexed = list(enumerate(tasks))
    indexed.sort(key=lambda it: (0 if it[1]["part"] != "A" else 1, it[0]))
    with multiprocessing.get_context("fork").Pool(WORKERS, maxtasksperchild=1) as pool:
        results = pool.map(_worker, [t for _, t in indexed], chunksize=1)
    by_index = {idx: res for (idx, _), res in zip(indexed, results)}
    results = [by_index[i] for i in range(len(tasks))]

    a_counts: Dict[str, int] = {}
    a_trees = 0
    b1_counts: Dict[str, int] = {}
    b2_counts: Dict[str, int] = {}
    per_pred: Dict[str, int] = {}
    cover: Dict[str, int] = {}
    samples = 0
    for res in results:
        if res.get("crash"):
            rep.checker_error(f"C04 bounded worker crashed ({res['part']}): {res['crash']}")
            continue
        if res["part"] == "A":
            a_trees += res["trees"]
            for k, v in res["counts"].items():
                a_counts[k] = a_counts.get(k, 0) + v
            chunk = res["chunk"]
            # one case per (tree, predicate family); the individual calls are counted in the sections
            indices = chunk["indices"] if chunk["indices"] is not None else range(chunk["lo"], chunk["hi"])
            fam_nontrivial = {
                "nth": res["counts"].get("nth_nontrivial", 0) > 0,
                "consecutive": res["counts"].get("consecutive_nontrivial", 0) > 0,
                "level": res["counts"].get("level_nontrivial", 0) > 0,
            }
            first = True
            for idx in indices:
                for fam in ("nth", "consecutive", "level"):
                    sample = None
                    if first and samples < 3 and res["sample"] and chunk["n"] >= 4:
                        sample = dict(part="A", tree=res["sample"], family=fam,
                                      note="all ordered node pairs of this tree, all arguments of the family")
                        samples += 1
                        first = False
                    rep.case(key=f"A:{chunk['n']}:{chunk['shape']}:{idx}:{fam}", nontrivial=fam_nontrivial[fam],
                             sample=sample)
            for v in res["violations"]:
                rep.violation(v["signature"], f"tree={json.dumps(v['tree'])}: {v['what']}",
                              dict(module=MODULE, case=dict(part="A", tree=v["tree"], call=v["call"])))
        else:
            target = b1_counts if res["part"] == "B1" else b2_counts
            for k, v in res["counts"].items():
                target[k] = target.get(k, 0) + v
            for k, v in res["per_pred"].items():
                per_pred[k] = per_pred.get(k, 0) + v
            for k, v in res.get("cover", {}).items():
                cover[k] = cover.get(k, 0) + v
            for err in res.get("parse_errors", []):
                rep.checker_error(f"C04 bounded B2 constraint does not parse: {err}")
            task = res["task"]
            label = f"{res['part']}:{task['grammar']}:{task.get('A')}:{task.get('B')}:{task.get('tree_index')}"
            for i in range(res["counts"]["cases"]):
                rep.case(key=f"{label}#{i}", nontrivial=(i < res["counts"]["nontrivial"]),
                         sample=(res.get("sample") if i == 0 else None))
            for v in res["violations"]:
                rep.violation(v["signature"], v["what"], dict(module=MODULE, case=v["case"]))
    rep.section("C04.bounded.direct", trees=a_trees, **a_counts)
    rep.section("C04.bounded.evaluate_ground", **b1_counts)
    rep.section("C04.bounded.evaluate_quantified", **b2_counts)
    rep.section("C04.bounded.per_predicate_through_evaluate", **per_pred)
    rep.section("C04.bounded.strategies", **cover)
    rep.section("C04.bounded.timing", wall_s=round(time.time() - t0, 1), tasks=len(tasks))
    for name in ("nth_nontrivial", "consecutive_nontrivial", "level_nontrivial"):
        if a_counts.get(name, 0) == 0:
            rep.checker_error(f"C04 bounded: counter {name} is zero")
    for pn in list(BINARY) + ["nth", "level"]:
        if per_pred.get(pn, 0) == 0:
            rep.checker_error(f"C04 bounded: predicate {pn} never evaluated through evaluate()")
    if b1_counts.get("qe_cases", 0) == 0 or cover.get("eliminate_quantifiers", 0) == 0:
        rep.checker_error("C04 bounded: quantifier-elimination strategy never reached for ground predicate atoms")
    _sanity(rep)


def _sanity(rep) -> None:
    """Known by construction (spec's own tree): in `x := 1 ; y := x` the second
    <assgn> is the 2nd <assgn> within the root, not the 1st; decl is on the same
    <stmt> level or above the use."""
    from isla import isla_predicates as ip

    from bounded import refpred
    from bounded.grammars import GRAMMARS
    from bounded.reftree import tree_from_string

    tree = tree_from_string(GRAMMARS["assgn"], "a := 1 ; b := a")
    second = (0, 2, 0)
    for fn, name in ((refpred.nth, "oracle"), (ip.is_nth, "is_nth")):
        if fn(tree, 2, second, ()) is not True or fn(tree, 1, second, ()) is not False:
            rep.checker_error(f"C04 bounded sanity: {name} wrong on the 2nd <assgn> of 'a := 1 ; b := a'")
    rep.case(key="sanity-nth", nontrivial=True)


# --------------------------------------------------------------------------- #
# Replay
# --------------------------------------------------------------------------- #


def replay(path: str) -> int:
    import warnings

    warnings.filterwarnings("ignore")
    from bounded import c03_helpers as H
    from bounded import c04_helpers as C

    payload = json.load(open(path, encoding="utf-8"))
    case = payload["case"]
    wanted = payload.get("signature")
    if case["part"] == "A":
        struct = C.struct_from_json(case["tree"])
        counts, violations = check_tree_direct(struct)
        hits = [v for v in violations if v["signature"] == wanted] or \
               [v for v in violations if v["call"] == case["call"]]
        print(f"tree: {json.dumps(case['tree'])}")
        for v in hits[:5]:
            print(f"  still failing: {v['signature']}: {v['what']}")
        if not hits:
            print("  no violation of this class on this tree any more")
        return 1 if hits else 0
    from bounded.grammars import GRAMMARS
    from bounded.refeval import parse_formula
    from bounded.reftree import from_struct, ref_get, ref_str

    grammar = GRAMMARS[case["grammar"]]
    struct = H.struct_from_json(case["tree"])
    tree = from_struct(struct)
    if case["part"] == "B2":
        formula = parse_formula(case["text"], grammar)
        got = H.call_evaluate(formula, tree, grammar, 60.0)
        oracle = H.oracle_verdicts(formula, tree, grammar)
        print(f"constraint: {case['text']}\ntree: {ref_str(tree)!r}\nevaluate -> {got}; spec {oracle['verdicts']}")
        return 1 if (got not in ("T", "F") or (oracle["error"] is None and got not in oracle["verdicts"])) else 0
    import isla.language as L
    from isla import isla_predicates as ip

    pred = [p for p in ip.STANDARD_STRUCTURAL_PREDICATES if p.name == case["pred"]][0]
    n1, n2 = ref_get(tree, case["p1"]), ref_get(tree, case["p2"])
    atom = L.StructuralPredicateFormula(pred, *case["extra"], n1, n2)
    formula = atom
    if case.get("strategy") == "qe":
        E = H.PARAMS[case["grammar"]]["E"]
        formula = atom & parse_formula(f'exists int n: count(start, "{E}", n)', grammar)
    got = H.call_evaluate(formula, tree, grammar, 60.0)
    oracle = H.oracle_verdicts(atom, tree, grammar)
    print(f"tree: {ref_str(tree)!r}  {case['pred']}{tuple(case['extra'])}(node@{case['p1']}, node@{case['p2']})")
    print(f"evaluate -> {got}; spec {oracle['verdicts']}")
    return 1 if (got not in ("T", "F") or (oracle["error"] is None and got not in oracle["verdicts"])) else 0
