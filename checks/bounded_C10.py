"""C10 (bounded) -- the parser accepts exactly the language and returns faithful
trees.

Contract (property statement): for a grammar G without cyclic nullable/unit
derivations, a nonterminal N and a string s

    list(EarleyParser(G).parse(s))            (N = <start>)
    list(EarleyParser(G).parse_on(s, N))
    ISLaSolver(G).parse(s, N)

  * yield >= 1 tree           iff  ref_member(G, s, N)
  * raise SyntaxError         iff  not ref_member(G, s, N)   (nothing else is raised)
  * every yielded tree t (DerivationTree.from_parse_tree) satisfies
    ref_valid(G, t, N), not ref_open(t) and ref_str(t) == s.

Oracles: bounded.reftree.ref_member / ref_valid / ref_str (span recogniser and
own traversals; no ISLa code).
"""
from __future__ import annotations

import itertools
import random
from typing import Dict, List, Optional, Tuple

from bounded import grammars as BG
from bounded.c10_common import load_replay, reach_plus, run_pool, show, watchdog, Watchdog
from bounded.reftree import (
    ref_member,
    ref_open,
    ref_str,
    ref_tree_structs,
    ref_valid,
    from_struct,
)

MODULE = "checks.bounded_C10"
MAX_TREES = 40  # trees inspected per (string, nonterminal, api)

#: Grammar shapes the shared family does not contain.
EXTRA_GRAMMARS: Dict[str, Dict[str, List[str]]] = {
    # start symbol with ONE alternative that is recursive through <A>
    "recstart-mid": {"<start>": ["<A>"], "<A>": ["(<start>)", "x"]},
    "recstart-right": {"<start>": ["<A>"], "<A>": ["a<start>", "b"]},
    "recstart-left": {"<start>": ["<A>"], "<A>": ["<start>+x", "x"]},
    # everything nullable
    "allnull": {"<start>": ["<A><B>"], "<A>": ["", "a"], "<B>": ["", "b<B>"]},
    # the empty language member only
    "epsonly": {"<start>": ["<A>"], "<A>": [""]},
    # nullable in the middle of terminals, hidden epsilon through a chain
    "midnull": {"<start>": ["a<N>b<N>"], "<N>": ["<M>"], "<M>": ["", "c"]},
    # start with several alternatives
    "multistart": {"<start>": ["a<start>", "b", ""]},
    # ambiguous through nullable symbols: <A><A> with <A> nullable
    "nullambig": {"<start>": ["<S>"], "<S>": ["<A><A>"], "<A>": ["", "a", "aa"]},
    # terminal that is a prefix of another one, across alternatives
    "prefixterm": {"<start>": ["<K>"], "<K>": ["ab", "a<L>", "abc"], "<L>": ["b", "bc", ""]},
}


# --------------------------------------------------------------------------- #
# one case
# --------------------------------------------------------------------------- #


def _features(grammar, nt: str, api: str = "") -> str:
    """Input class used in signatures.  The symbol the parse starts from being
    recursive (it occurs below itself) is the dominating feature; for
    ISLaSolver.parse with a nonterminal other than <start> the corresponding
    feature is that <start> is reachable from the nonterminal (the method
    re-defines <start>)."""
    reach = reach_plus(grammar)
    if api == "ISLaSolver.parse" and nt != "<start>":
        if "<start>" in reach.get(nt, ()):
            return "nonterminal-reaching-start"
    elif nt in reach.get(nt, ()):
        return "recursive-start-symbol"
    if nt in BG.nullable_nonterminals(grammar):
        return "nullable"
    return "plain"


def _exc_class(grammar, nt: str, exc: BaseException, api: str = "") -> str:
    if isinstance(exc, TypeError) and "tuple expected at most 1 argument" in str(exc):
        return "nonterminal-with-several-alternatives"
    return _features(grammar, nt, api)


def _call(api: str, grammar, s: str, nt: str, parser=None, solver=None):
    """-> (trees or None, exception or None)"""
    from isla.derivation_tree import DerivationTree

    try:
        if api == "EarleyParser.parse":
            if parser is None:
                from isla.parser import EarleyParser

                parser = EarleyParser(grammar)
            pts = list(itertools.islice(parser.parse(s), MAX_TREES))
            trees = [DerivationTree.from_parse_tree(pt) for pt in pts]
        elif api == "EarleyParser.parse_on":
            if parser is None:
                from isla.parser import EarleyParser

                parser = EarleyParser(grammar)
            pts = list(itertools.islice(parser.parse_on(s, nt), MAX_TREES))
            trees = [DerivationTree.from_parse_tree(pt) for pt in pts]
        elif api == "ISLaSolver.parse":
            if solver is None:
                from isla.solver import ISLaSolver

                solver = ISLaSolver(grammar)
            trees = [solver.parse(s, nt, skip_check=True, silent=True)]
        else:
            raise ValueError(api)
    except SyntaxError as exc:
        return None, exc
    except Watchdog:
        raise
    except Exception as exc:  # anything but SyntaxError
        return None, exc
    return trees, None


def check_one(grammar, s: str, api: str, nt: str, parser=None, solver=None) -> List[dict]:
    """Failures of the contract for one (grammar, string, api, nonterminal)."""
    expected = ref_member(grammar, s, nt)
    trees, exc = _call(api, grammar, s, nt, parser, solver)
    fails: List[dict] = []

    def fail(kind: str, cls: str, detail: str):
        fails.append(
            dict(
                signature=f"{api}:{kind}:{cls}",
                what=f"grammar={grammar!r} nonterminal={nt} input={s!r}: {detail}",
                case=dict(grammar=grammar, s=s, api=api, nt=nt),
                size=(len(s), len(repr(grammar))),
            )
        )

    if exc is not None and not isinstance(exc, SyntaxError):
        fail(
            f"raises-{type(exc).__name__}",
            _exc_class(grammar, nt, exc, api),
            f"raised {type(exc).__name__}: {str(exc)[:120]} "
            f"(expected {'a tree' if expected else 'SyntaxError'})",
        )
        return fails
    if exc is not None:
        if expected:
            fail("rejects-member", _features(grammar, nt, api),
                 "SyntaxError although the string is in the language of the nonterminal")
        return fails
    if not trees:
        fail("yields-no-tree-no-error", _features(grammar, nt, api),
             f"no tree and no SyntaxError (member={expected})")
        return fails
    if not expected:
        fail("accepts-nonmember", _features(grammar, nt, api),
             f"yields {show(trees[0])} although the string is not in the language")
        return fails
    for t in trees:
        if t.value != nt:
            fail("tree-wrong-root", _features(grammar, nt, api), f"tree {show(t)} is not rooted in {nt}")
        elif ref_open(t):
            fail("tree-open", _features(grammar, nt, api), f"tree {show(t)} has an open leaf")
        elif not ref_valid(grammar, t, nt):
            fail("tree-invalid", _features(grammar, nt, api), f"tree {show(t)} is no derivation tree of G")
        elif ref_str(t) != s:
            fail("tree-string-differs", _features(grammar, nt, api),
                 f"tree {show(t)} spells {ref_str(t)!r}")
        if fails:
            break
    return fails


# --------------------------------------------------------------------------- #
# string families
# --------------------------------------------------------------------------- #


def foreign_char(chars: List[str]) -> str:
    for c in "#~z@Z!":
        if c not in chars:
            return c
    return "§"


def strings_for(grammar, max_len: int, cap: int, rng: random.Random,
                enum_nodes: int) -> Tuple[List[str], int, int]:
    """-> (strings, k, n_enumerated): all strings over chars+foreign up to the
    largest length k <= max_len whose total stays <= cap; then members of the
    language (from ref_trees), one-edit neighbours of members and seeded random
    strings of length k+1 .. max_len."""
    chars = BG.terminals_chars(grammar)
    alpha = chars + [foreign_char(chars)]
    out: List[str] = []
    seen = set()

    def add(s: str):
        if s not in seen:
            seen.add(s)
            out.append(s)

    k = 0
    total = 1
    while k < max_len and total + len(alpha) ** (k + 1) <= cap:
        k += 1
        total += len(alpha) ** k
    for n in range(0, k + 1):
        for tup in itertools.product(alpha, repeat=n):
            add("".join(tup))
    n_enum = len(out)
    # members
    members: List[str] = []
    for nt in grammar:
        cnt = 0
        for st in ref_tree_structs(grammar, nt, enum_nodes, eps_style="empty"):
            w = ref_str(from_struct(st))
            if len(w) <= max_len + 4 and w not in members:
                members.append(w)
            cnt += 1
            if cnt >= 400 or len(members) >= 160:
                break
    budget = max(0, cap // 2)
    for w in members[:budget]:
        add(w)
    # one-edit neighbours
    neigh = 0
    for w in members:
        if neigh >= budget:
            break
        for _ in range(3):
            op = rng.randrange(3)
            pos = rng.randrange(len(w) + 1)
            c = alpha[rng.randrange(len(alpha))]
            if op == 0:
                v = w[:pos] + c + w[pos:]
            elif op == 1 and w:
                pos = min(pos, len(w) - 1)
                v = w[:pos] + w[pos + 1:]
            elif w:
                pos = min(pos, len(w) - 1)
                v = w[:pos] + c + w[pos + 1:]
            else:
                v = c
            if len(v) <= max_len + 4:
                add(v)
                neigh += 1
    # random longer strings
    if k < max_len:
        for _ in range(budget // 2):
            n = rng.randint(k + 1, max_len)
            add("".join(alpha[rng.randrange(len(alpha))] for _ in range(n)))
    return out, k, n_enum


# --------------------------------------------------------------------------- #
# worker
# --------------------------------------------------------------------------- #


def _worker(task) -> dict:
    import logging
    import warnings

    warnings.filterwarnings("ignore")
    logging.disable(logging.CRITICAL)
    from isla.parser import EarleyParser

    gname, grammar, strings, start = task["gname"], task["grammar"], task["strings"], task["start"]
    res = dict(gname=gname, cases=0, members=0, nonmembers=0, fails=[], timeouts=0,
               by_api={}, ambiguous=0, eps_member=0, solver_unavailable=None, keys=[])
    parser = None
    parser_exc = None
    try:
        parser = EarleyParser(grammar)
    except Exception as exc:
        parser_exc = exc
    solver = None
    try:
        from isla.solver import ISLaSolver

        with watchdog(20):
            solver = ISLaSolver(grammar)
    except BaseException as exc:  # noqa
        res["solver_unavailable"] = f"{type(exc).__name__}: {str(exc)[:100]}"
    if parser_exc is not None:
        res["fails"].append(dict(
            signature=f"EarleyParser.__init__:raises-{type(parser_exc).__name__}",
            what=f"grammar={grammar!r}: constructor raised {parser_exc}",
            case=dict(grammar=grammar, s="", api="EarleyParser.parse", nt=start),
            size=(0, len(repr(grammar)))))
        return res
    nts = list(grammar.keys())
    for s in strings:
        plans = [("EarleyParser.parse", "<start>")] if "<start>" in grammar else []
        plans += [("EarleyParser.parse_on", nt) for nt in nts]
        if solver is not None and "<start>" in grammar:
            plans += [("ISLaSolver.parse", nt) for nt in nts]
        for api, nt in plans:
            try:
                with watchdog(10):
                    member = ref_member(grammar, s, nt)
                    fails = check_one(grammar, s, api, nt, parser, solver)
            except Watchdog:
                res["timeouts"] += 1
                continue
            res["cases"] += 1
            res["by_api"][api] = res["by_api"].get(api, 0) + 1
            if member:
                res["members"] += 1
                if s == "":
                    res["eps_member"] += 1
            else:
                res["nonmembers"] += 1
            res["fails"].extend(fails)
        # parser state is not corrupted by parse_on
        if parser.start_symbol() != "<start>":
            res["fails"].append(dict(
                signature="EarleyParser.parse_on:start-symbol-not-restored",
                what=f"grammar={grammar!r} after parse_on on {s!r}: start symbol {parser.start_symbol()}",
                case=dict(grammar=grammar, s=s, api="EarleyParser.parse_on", nt=nts[-1]),
                size=(len(s), len(repr(grammar)))))
            parser = EarleyParser(grammar)
    # keep the result small: at most 6 failures per signature, smallest first
    by_sig: Dict[str, List[dict]] = {}
    counts: Dict[str, int] = {}
    for f in res["fails"]:
        counts[f["signature"]] = counts.get(f["signature"], 0) + 1
        by_sig.setdefault(f["signature"], []).append(f)
    kept = []
    for sig, fs in by_sig.items():
        fs.sort(key=lambda f: tuple(f["size"]))
        kept.extend(fs[:3])
    res["fails"] = kept
    res["fail_counts"] = counts
    return res


# --------------------------------------------------------------------------- #
# run
# --------------------------------------------------------------------------- #


def _wrap_start(grammar):
    """G with a fresh single-alternative start symbol: <start> ::= <start0>,
    <start0> taking the role of the old <start> everywhere."""
    ren = lambda alt: alt.replace("<start>", "<start0>")
    g = {"<start>": ["<start0>"]}
    for nt, alts in grammar.items():
        g["<start0>" if nt == "<start>" else nt] = [ren(a) for a in alts]
    return g


def run(rep, tier, seed):
    import isla.solver  # noqa: F401  loaded before the pool forks
    quick = tier == "quick"
    max_len = 4 if quick else 5
    cap = 1500 if quick else 4000
    n_random = 40 if quick else 200
    chunk = 120 if quick else 250
    rng = random.Random(seed * 1000003 + 10)

    rep.assume("oracles bounded.reftree.ref_member / ref_valid / ref_str are trusted "
               "(span recogniser and own traversals, no ISLa code)")
    rep.assume("grammars with cyclic nullable/unit derivations (A =>+ A) are outside the "
               "property's quantifier and are skipped (bounded.grammars.has_cyclic_derivation)")
    rep.assume("at most %d trees per (string, nonterminal, api) are inspected" % MAX_TREES)
    rep.assume("ISLaSolver.parse is called with skip_check=True, silent=True (formula 'true')")
    rep.rule("case = (grammar, string, api, nonterminal); apis: EarleyParser(G).parse, "
             "EarleyParser(G).parse_on(s, N) and ISLaSolver(G).parse(s, N) for every nonterminal N. "
             "A case is non-trivial always (both verdicts are compared); members / non-members are "
             "counted separately")
    rep.bound(f"strings: all strings over terminals_chars(G) + one foreign character up to length "
              f"k_G, the largest k <= {max_len} with at most {cap} strings (k_G per grammar in "
              f"sections.enumeration); above k_G: members read off ref_trees, one-edit neighbours of "
              f"members and seeded random strings up to length {max_len} (+4 for members)")
    rep.bound(f"grammars: the {len(BG.GRAMMARS)} shared grammars, {len(EXTRA_GRAMMARS)} extra shapes "
              f"(recursive start symbol, all-nullable, several start alternatives), {n_random} "
              f"random_grammar(rng); every grammar whose <start> has != 1 alternatives additionally "
              f"in a wrapped form <start> ::= <start0>")

    fam: List[Tuple[str, dict, int]] = []
    for name, g in BG.GRAMMARS.items():
        fam.append((name, g, min(BG.ENUM_NODES.get(name, 10), 12)))
    for name, g in EXTRA_GRAMMARS.items():
        fam.append((name, g, 9))
    for i in range(n_random):
        fam.append((f"random{i}", BG.random_grammar(rng), 8))
    extra = []
    for name, g, n in fam:
        if len(g.get("<start>", [])) != 1:
            extra.append((name + "/wrapped", _wrap_start(g), n))
    fam += extra

    tasks = []
    skipped_cyclic = 0
    enum_info = {}
    for name, g, n in fam:
        if BG.has_cyclic_derivation(g):
            skipped_cyclic += 1
            continue
        strings, k, n_enum = strings_for(g, max_len, cap, rng, n)
        enum_info[name] = dict(k=k, enumerated=n_enum, total=len(strings))
        for i in range(0, len(strings), chunk):
            tasks.append(dict(gname=name, grammar=g, strings=strings[i:i + chunk], start="<start>"))

    total = dict(cases=0, members=0, nonmembers=0, timeouts=0, eps_member=0)
    by_api: Dict[str, int] = {}
    all_fails: List[dict] = []
    fail_counts: Dict[str, int] = {}
    n_sampled = 0
    for task, res in zip(tasks, run_pool(_worker, tasks, 16)):
        if "__crash__" in res:
            rep.checker_error("worker crashed: " + res["__crash__"])
            continue
        for k in total:
            total[k] += res[k]
        for a, c in res["by_api"].items():
            by_api[a] = by_api.get(a, 0) + c
        if res["solver_unavailable"]:
            rep.note_inconclusive(f"ISLaSolver({res['gname']}) not constructible: {res['solver_unavailable']}")
        all_fails.extend(res["fails"])
        for sig, c in res.get("fail_counts", {}).items():
            fail_counts[sig] = fail_counts.get(sig, 0) + c
        # one rep.case per (grammar chunk, string): key identifies the string
        for s in task["strings"]:
            n_sampled += 1
            rep.case(key=(res["gname"], s), nontrivial=True,
                     sample=dict(grammar=res["gname"], input=s) if n_sampled % 997 == 1 else None)
    rep.evaluations = total["cases"]  # every (string, api, nonterminal) evaluation counts
    rep.section("reach", **total)
    rep.section("per_api", **by_api)
    rep.section("enumeration", grammars=len(enum_info), skipped_cyclic=skipped_cyclic,
                k_min=min(v["k"] for v in enum_info.values()),
                per_grammar={k: v for k, v in list(enum_info.items())[:30]})
    rep.section("failures_by_signature", **fail_counts)
    if total["timeouts"]:
        rep.note_inconclusive(f"{total['timeouts']} cases hit the 10 s watchdog")
    rep.exhaustive = True

    # anti-vacuity
    if total["members"] == 0 or total["nonmembers"] == 0:
        rep.checker_error("members or non-members were never reached")
    if total["eps_member"] == 0:
        rep.checker_error("no case with the empty word as a member")
    for api in ("EarleyParser.parse", "EarleyParser.parse_on", "ISLaSolver.parse"):
        if not by_api.get(api):
            rep.checker_error(f"api {api} never exercised")
    # sanity: oracle verdicts known by construction
    g = BG.GRAMMARS["nullable"]
    if not (ref_member(g, "-nn.n", "<start>") and not ref_member(g, "-", "<start>")
            and ref_member(g, "", "<ws>") and not check_one(g, "n", "EarleyParser.parse", "<start>")):
        rep.checker_error("sanity case failed: nullable grammar")
    bad = check_one({"<start>": ["<A>"], "<A>": ["a"]}, "b", "EarleyParser.parse", "<start>")
    if bad:
        rep.checker_error("sanity: non-member 'b' must raise SyntaxError: " + repr(bad))

    # violations: smallest witness per signature first
    all_fails.sort(key=lambda f: (f["signature"], tuple(f["size"]), f["what"]))
    for f in all_fails:
        rep.violation(f["signature"], f["what"], {"module": MODULE, "case": f["case"]})


def replay(path: str) -> int:
    data = load_replay(path)
    c = data["case"]
    fails = check_one(c["grammar"], c["s"], c["api"], c["nt"])
    print(f"replay C10: api={c['api']} nonterminal={c['nt']} input={c['s']!r} grammar={c['grammar']!r}")
    print(f"  ref_member = {ref_member(c['grammar'], c['s'], c['nt'])}")
    for f in fails:
        print("  still fails:", f["signature"], "--", f["what"])
    if not fails:
        print("  contract holds now")
    return 1 if fails else 0
