"""Bounded contract check for C03: ``isla.evaluator.evaluate`` and
``ISLaSolver.check`` agree with the ISLa language specification on closed
derivation trees.

Contract (from the property statement): for a closed tree t of grammar G and a
constraint phi of the supported fragment,
``evaluate(phi, t, G)`` is TRUE iff ``t |= phi`` (oracle
``bounded.refeval.ref_eval_ex``, written from islaspec.rst), FALSE iff not,
never UNKNOWN, never raises; ``ISLaSolver(G, phi).check(t)`` returns the same
Boolean.  Every template exists without and with a numeric quantifier so that
both strategies of ``evaluate`` (``evaluate_legacy`` and the
quantifier-elimination path) are exercised; reachability is counted by
wrappers installed in the worker processes.
"""

from __future__ import annotations

import json
import multiprocessing
import os
import sys
import time
import traceback
from typing import Any, Dict, List, Optional, Tuple

MODULE = "checks.bounded_C03"
WORKERS = 16

TIERS = {
    # n_enum, n_random trees per grammar; wrappers per template; watchdog (CPU seconds per call);
    # wide_numeric: number of pool trees (fixed stride) used for numeric-quantifier variants on the
    # `wide` grammar, where quantifier elimination builds formulas quadratic in the 30/40 children
    "quick": dict(n_enum=28, n_random=4, wrappers=1, watchdog=20.0, wide_numeric=5, wide_plain=14),
    "thorough": dict(n_enum=150, n_random=30, wrappers=3, watchdog=90.0, wide_numeric=16, wide_plain=None),
}


def _tree_indices(task: Dict[str, Any], pool_size: int) -> List[int]:
    """Fixed subset of the pool a task evaluates (all trees unless the task
    carries ``max_trees``)."""
    limit = task.get("max_trees")
    if not limit or pool_size <= limit:
        return list(range(pool_size))
    step = pool_size / limit
    return sorted({int(i * step) for i in range(limit)} | {pool_size - 1})


# --------------------------------------------------------------------------- #
# Worker
# --------------------------------------------------------------------------- #


def _build_tasks(tier: str, seed: int) -> List[Dict[str, Any]]:
    from bounded import c03_helpers as H
    from bounded.grammars import GRAMMARS

    cfg = TIERS[tier]
    tasks: List[Dict[str, Any]] = []
    for name in GRAMMARS:
        for t_idx, tpl in enumerate(H.templates_for(name)):
            tasks.append(dict(grammar=name, tid=tpl.tid, cat=tpl.cat, variant="plain", text=tpl.plain,
                              dc=None, raw=tpl.raw, oracle_text=tpl.oracle_text,
                              n_enum=cfg["n_enum"], n_random=cfg["n_random"], seed=seed,
                              watchdog=cfg["watchdog"],
                              max_trees=cfg["wide_plain"] if name == "wide" else None))
            variants = H.numeric_variants(tpl, name)
            if len(variants) > 1:
                if cfg["wrappers"] == 1:
                    variants = [variants[t_idx % len(variants)]]
                else:
                    variants = variants[: cfg["wrappers"]]
            for vid, text, reason in variants:
                tasks.append(dict(grammar=name, tid=tpl.tid, cat=tpl.cat, variant="num-" + vid, text=text,
                                  dc=reason, raw=False, oracle_text=None,
                                  n_enum=cfg["n_enum"], n_random=cfg["n_random"], seed=seed,
                                  watchdog=cfg["watchdog"],
                                  max_trees=cfg["wide_numeric"] if name == "wide" else None))
    return tasks


def _evaluate_case(grammar, text, formula, oracle_formula, features, solver, solver_error, struct, watchdog_s):
    """One (constraint, tree) case on the real code and on the oracle."""
    from bounded import c03_helpers as H
    from bounded.reftree import from_struct

    tree = from_struct(struct)
    before = H.cover_snapshot()
    ev = H.call_evaluate(formula if formula is not None else text, tree, grammar, watchdog_s)
    after = H.cover_snapshot()
    strategy = []
    if after.get("evaluate_legacy", 0) > before.get("evaluate_legacy", 0):
        strategy.append("legacy")
    if after.get("eliminate_quantifiers", 0) > before.get("eliminate_quantifiers", 0):
        strategy.append("qe")
    if solver is not None:
        ck = H.call_check(solver, tree, watchdog_s)
    else:
        ck = solver_error
    if oracle_formula is None:
        oracle = dict(verdicts=[], exact=False, error="no oracle formula", readings=0)
    else:
        try:
            oracle = H.oracle_verdicts(oracle_formula, tree, grammar, features)
        except KeyboardInterrupt:
            raise
        except BaseException as exc:  # noqa: BLE001
            oracle = dict(verdicts=[], exact=False, error=f"oracle crashed: {type(exc).__name__}: {exc}", readings=0)
    return dict(ev=ev, ck=ck, oracle=oracle, strategy="+".join(strategy) or "none")


def _prepare(grammar, text, raw, oracle_text, watchdog_s):
    """Parse the constraint (ISLa's parser, standard predicates) and build
    the solver object.  Returns (formula, oracle_formula, features, solver,
    solver_error, parse_error)."""
    from bounded import c03_helpers as H
    from bounded.refeval import parse_formula

    formula = None
    oracle_formula = None
    parse_error = None
    try:
        if raw:
            oracle_formula = parse_formula(oracle_text, grammar)
        else:
            formula = parse_formula(text, grammar)
            oracle_formula = formula
    except KeyboardInterrupt:
        raise
    except BaseException as exc:  # noqa: BLE001
        parse_error = f"{type(exc).__name__}: {str(exc)[:200]}"
    features = H.formula_features(oracle_formula) if oracle_formula is not None else None
    solver = None
    solver_error = None
    if parse_error is None:
        try:
            from isla.solver import ISLaSolver

            with H.watchdog(max(30.0, watchdog_s)):
                solver = ISLaSolver(grammar, text)
        except H.WatchdogExpired:
            solver_error = "TO"
        except KeyboardInterrupt:
            raise
        except BaseException as exc:  # noqa: BLE001
            solver_error = f"X:{type(exc).__name__}@ISLaSolver.__init__"
    return formula, oracle_formula, features, solver, solver_error, parse_error


def _worker(task: Dict[str, Any]) -> Dict[str, Any]:
    import warnings

    warnings.filterwarnings("ignore")
    try:
        from bounded import c03_helpers as H
        from bounded.grammars import GRAMMARS

        H.install_cover()
        cover0 = H.cover_snapshot()
        name = task["grammar"]
        grammar = GRAMMARS[name]
        pool = H.tree_pool(name, task["n_enum"], task["n_random"], task["seed"])
        t0 = time.process_time()
        formula, oracle_formula, features, solver, solver_error, parse_error = _prepare(
            grammar, task["text"], task["raw"], task["oracle_text"], task["watchdog"])
        cases = []
        if parse_error is None:
            for idx in _tree_indices(task, len(pool)):
                struct = pool[idx]
                res = _evaluate_case(grammar, task["text"], formula, oracle_formula, features, solver,
                                     solver_error, struct, task["watchdog"])
                res["tree"] = idx
                cases.append(res)
        cover1 = H.cover_snapshot()
        return dict(task=task, parse_error=parse_error, cases=cases, features=features,
                    cover={k: cover1.get(k, 0) - cover0.get(k, 0) for k in cover1},
                    wall=round(time.process_time() - t0, 2), crash=None)
    except KeyboardInterrupt:
        raise
    except BaseException:  # noqa: BLE001
        return dict(task=task, parse_error=None, cases=[], features=None, cover={}, wall=0.0,
                    crash=traceback.format_exc(limit=8))


# --------------------------------------------------------------------------- #
# Contract evaluation (parent)
# --------------------------------------------------------------------------- #

_KIND = {("T", "F"): "TRUE-where-spec-says-FALSE", ("F", "T"): "FALSE-where-spec-says-TRUE"}


def _kind(observed: str, expected: Optional[str]) -> str:
    if observed == "U":
        return "UNKNOWN-on-closed-tree"
    if observed.startswith("X:"):
        return "raises-" + observed[2:]
    return _KIND.get((observed, expected), f"{observed}-vs-{expected}")


def judge(task: Dict[str, Any], case: Dict[str, Any], tree_cls: str) -> Tuple[str, List[Tuple[str, str]]]:
    """Returns (status, [(signature, detail)]).  status: ok | trivial |
    inconclusive | violation.

    Signature = function : strategy : input class : kind.  The input class is
    the template category, except that on trees with a node of >= 29 children
    every template with a tree quantifier evaluated by ``evaluate_legacy`` is
    put into the ONE class ``tree-quantifier-on-fanout>=29`` (the quantifier
    domain comes from the subtree trie there, whatever the body is)."""
    ev, ck, oracle = case["ev"], case["ck"], case["oracle"]
    numeric = task["variant"] != "plain"
    strategy = "qe" if numeric else "legacy"
    problems: List[Tuple[str, str]] = []
    if ev in ("TO", "ZU") or ck in ("TO", "ZU"):
        return "inconclusive", [("watchdog-or-z3-unknown", f"evaluate={ev} check={ck} (TO = watchdog, ZU = UNKNOWN "
                                 f"while Z3 answered unknown inside ISLa's is_valid, 3 attempts)")]
    expected: Optional[str] = None
    status = "ok"
    if oracle["error"]:
        status = "inconclusive"
    elif not oracle["exact"] and not (numeric and task["dc"]):
        status = "inconclusive"
    elif len(oracle["verdicts"]) != 1:
        status = "trivial"  # documentation admits both verdicts
    else:
        expected = oracle["verdicts"][0]
    cat = task["cat"]
    if tree_cls == "fanout>=29" and strategy == "legacy" and task.get("tree_quantifier", True):
        cat = "tree-quantifier-on-fanout>=29"
    prefix = f"{strategy}:{cat}"
    # never UNKNOWN, never raises -- independent of the oracle verdict
    if ev not in ("T", "F"):
        problems.append((f"evaluate:{prefix}:{_kind(ev, expected)}", f"evaluate -> {ev}"))
    elif expected is not None and ev != expected:
        problems.append((f"evaluate:{prefix}:{_kind(ev, expected)}", f"evaluate -> {ev}, spec {expected}"))
    if ck != ev:
        if ck not in ("T", "F"):
            problems.append((f"ISLaSolver.check:{prefix}:{_kind(ck, expected)}", f"check -> {ck} (evaluate -> {ev})"))
        elif expected is not None and ck != expected:
            problems.append((f"ISLaSolver.check:{prefix}:{_kind(ck, expected)}",
                             f"check -> {ck}, spec {expected} (evaluate -> {ev})"))
        elif expected is None and ev in ("T", "F"):
            problems.append((f"ISLaSolver.check:{prefix}:differs-from-evaluate", f"check -> {ck}, evaluate -> {ev}"))
    if problems:
        return "violation", problems
    return status, []


def run(rep, tier: str, seed: int) -> None:
    from bounded import c03_helpers as H
    from bounded.grammars import GRAMMARS

    cfg = TIERS[tier]
    rep.bound(f"C03: per grammar {cfg['n_enum']} trees sampled from the exhaustive enumeration up to "
              f"{H.POOL_NODES} nodes (smallest third complete, rest strided) + all parses of hand-picked strings "
              f"(wide: 30 and 40 children) + {cfg['n_random']} seeded random trees (<= 80 nodes); "
              f"{sum(len(H.templates_for(n)) for n in GRAMMARS)} templates, each plain and with "
              f"{cfg['wrappers']} numeric-quantifier variant(s)")
    rep.rule("C03 case = (grammar, constraint text, closed tree); contract: evaluate() and ISLaSolver.check() equal "
             "ref_eval_ex, never UNKNOWN, never raise.  trivial = the documentation admits both verdicts "
             "(consecutive on inner nodes / level when a node itself carries NONTERMINAL)")
    rep.assume("oracle ref_eval reads Formula objects produced by ISLa's parse_isla (not independent of the parser)")
    rep.assume("str.to.int is applied only to nonterminals whose language is [0-9]+ (signed numerals excluded by the statement)")
    rep.assume("numeric-quantifier variants are compared with an inexact oracle verdict only when the template states why "
               "the finite numeral domain decides it (variable determined by a count atom / valid by arithmetic)")
    rep.assume("level: candidate prefixes are the NONTERMINAL-labelled common prefixes plus the empty prefix "
               "(comment block of level_check); consecutive/level readings the text leaves open are all admitted")
    rep.exhaustive = False

    tasks = _build_tasks(tier, seed)
    t0 = time.time()
    import isla.evaluator  # noqa: F401  (imported before the fork so that the workers share it)
    import isla.solver  # noqa: F401
    import bounded.refeval  # noqa: F401
    # tree pools are built before the fork (inherited by the workers); every task runs in a FRESH child
    # (maxtasksperchild=1): ISLa keeps caches across evaluate() calls (match-expression parsers, tries) and a
    # verdict / running time must not depend on which tasks a worker happened to run before
    pools = {name: H.tree_pool(name, cfg["n_enum"], cfg["n_random"], seed) for name in GRAMMARS}
    with multiprocessing.get_context("fork").Pool(WORKERS, maxtasksperchild=1) as pool:
        results = list(pool.imap_unordered(_worker, tasks, chunksize=1))
    order = {(t["grammar"], t["tid"], t["variant"]): i for i, t in enumerate(tasks)}
    results.sort(key=lambda r: order[(r["task"]["grammar"], r["task"]["tid"], r["task"]["variant"])])

    cover_total: Dict[str, int] = {}
    strategy_cases = {"legacy": 0, "qe": 0}
    per_family: Dict[str, Dict[str, int]] = {}
    n_samples = 0
    slow: List[Tuple[float, str]] = []
    for res in results:
        task = res["task"]
        name = task["grammar"]
        if res["crash"]:
            rep.checker_error(f"worker crashed on {name}/{task['tid']}/{task['variant']}: {res['crash']}")
            continue
        slow.append((res["wall"], f"{name}/{task['tid']}/{task['variant']}"))
        for k, v in res["cover"].items():
            cover_total[k] = cover_total.get(k, 0) + v
        fam = per_family.setdefault(task["cat"] + ("|numeric" if task["variant"] != "plain" else "|plain"),
                                    dict(cases=0, T=0, F=0, trivial=0, inconclusive=0, violations=0))
        if res["parse_error"] is not None:
            rep.checker_error(f"template does not parse: {name}/{task['tid']}/{task['variant']}: {task['text']!r}: "
                              f"{res['parse_error']}")
            continue
        task["tree_quantifier"] = bool((res["features"] or {}).get("tree_quantifier", True))
        for case in res["cases"]:
            struct = pools[name][case["tree"]]
            tree_cls = H.tree_class(struct)
            status, problems = judge(task, case, tree_cls)
            from bounded.reftree import from_struct, ref_str
            tree_text = None
            key = (name, task["text"], case["tree"])
            sample = None
            if n_samples < 12 and status == "ok" and case["tree"] % 7 == 3:
                tree_text = ref_str(from_struct(struct))
                sample = dict(grammar=name, constraint=task["text"], tree=tree_text, evaluate=case["ev"],
                              check=case["ck"], oracle=case["oracle"]["verdicts"], strategy=case["strategy"])
                n_samples += 1
            rep.case(key=key, nontrivial=(status in ("ok", "violation")), sample=sample)
            fam["cases"] += 1
            for s in case["strategy"].split("+"):
                if s in strategy_cases:
                    strategy_cases[s] += 1
            if status == "ok":
                fam[case["oracle"]["verdicts"][0]] += 1
            elif status == "trivial":
                fam["trivial"] += 1
            elif status == "inconclusive":
                fam["inconclusive"] += 1
                why = case["oracle"]["error"] or ("oracle verdict relative to the finite numeral domain"
                                                  if not problems else problems[0][1])
                rep.note_inconclusive(f"{name}: {task['text']} on tree #{case['tree']}: {why}")
            else:
                fam["violations"] += 1
                tree_text = ref_str(from_struct(struct))
                for signature, detail in problems:
                    rep.violation(
                        signature,
                        f"grammar={name} constraint={task['text']!r} tree={tree_text!r}: {detail}; "
                        f"oracle={case['oracle']['verdicts']}",
                        dict(module=MODULE, case=dict(grammar=name, text=task["text"], raw=task["raw"],
                                                      oracle_text=task["oracle_text"], variant=task["variant"],
                                                      cat=task["cat"], dc=task["dc"],
                                                      tree=H.struct_to_json(struct))),
                    )
    rep.section("C03.strategies", top_level_evaluate_legacy=cover_total.get("evaluate_legacy", 0),
                top_level_eliminate_quantifiers=cover_total.get("eliminate_quantifiers", 0),
                qe_is_valid_calls=cover_total.get("qe_is_valid", 0),
                cases_reaching_legacy=strategy_cases["legacy"], cases_reaching_qe=strategy_cases["qe"])
    rep.section("C03.families", **{k: v for k, v in sorted(per_family.items())})
    slow.sort(reverse=True)
    rep.section("C03.timing", wall_s=round(time.time() - t0, 1), tasks=len(tasks),
                slowest=[f"{w}s {n}" for w, n in slow[:5]])
    if cover_total.get("evaluate_legacy", 0) == 0 or strategy_cases["legacy"] == 0:
        rep.checker_error("C03: evaluate_legacy was never reached")
    if cover_total.get("eliminate_quantifiers", 0) == 0 or strategy_cases["qe"] == 0:
        rep.checker_error("C03: the quantifier-elimination strategy was never reached")
    for fam_name, fam in per_family.items():
        if fam["cases"] == 0:
            rep.checker_error(f"C03: family {fam_name} produced zero cases")
    # templates whose verdict never varies are still useful, families that are never decided are not
    by_cat: Dict[str, int] = {}
    for fam_name, fam in per_family.items():
        by_cat[fam_name.split("|")[0]] = by_cat.get(fam_name.split("|")[0], 0) + fam["T"] + fam["F"] + fam["violations"]
    for cat, n in by_cat.items():
        if n == 0:
            rep.checker_error(f"C03: category {cat} has no case with a definite oracle verdict")
    _sanity(rep)


def _sanity(rep) -> None:
    """Verdicts known by construction: the def-use constraint of the spec on
    the spec's own two examples."""
    from bounded import c03_helpers as H
    from bounded.grammars import GRAMMARS
    from bounded.refeval import parse_formula
    from bounded.reftree import tree_from_string

    grammar = GRAMMARS["assgn"]
    text = ('forall <assgn> assgn="<var> := {<var> rhs}" in start: exists <assgn> decl="{<var> lhs} := <rhs>" '
            'in start: (before(decl, assgn) and (= lhs rhs))')
    formula = parse_formula(text, grammar)
    for s, want in (("a := 1 ; b := a", "T"), ("a := b ; b := 1", "F")):
        tree = tree_from_string(grammar, s)
        got = H.oracle_verdicts(formula, tree, grammar)
        ev = H.call_evaluate(formula, tree, grammar)
        rep.case(key=("sanity", s), nontrivial=True)
        if got["verdicts"] != [want]:
            rep.checker_error(f"C03 sanity: oracle says {got} for {s!r}, expected {want}")
        if ev != want:
            rep.checker_error(f"C03 sanity: evaluate says {ev} for {s!r}, expected {want}")


# --------------------------------------------------------------------------- #
# Replay
# --------------------------------------------------------------------------- #


def replay(path: str) -> int:
    import warnings

    warnings.filterwarnings("ignore")
    from bounded import c03_helpers as H
    from bounded.grammars import GRAMMARS
    from bounded.reftree import from_struct, ref_str

    payload = json.load(open(path, encoding="utf-8"))
    case = payload["case"]
    grammar = GRAMMARS[case["grammar"]]
    struct = H.struct_from_json(case["tree"])
    H.install_cover()
    formula, oracle_formula, features, solver, solver_error, parse_error = _prepare(
        grammar, case["text"], case.get("raw", False), case.get("oracle_text"), 60.0)
    print(f"constraint: {case['text']}")
    print(f"tree: {ref_str(from_struct(struct))!r}")
    if parse_error is not None:
        print(f"parse error: {parse_error}")
        return 1
    res = _evaluate_case(grammar, case["text"], formula, oracle_formula, features, solver, solver_error, struct, 60.0)
    task = dict(variant=case["variant"], cat=case["cat"], dc=case["dc"],
                tree_quantifier=bool((features or {}).get("tree_quantifier", True)))
    status, problems = judge(task, res, H.tree_class(struct))
    print(f"evaluate -> {res['ev']}   ISLaSolver.check -> {res['ck']}   oracle -> {res['oracle']}   "
          f"strategy={res['strategy']}")
    for signature, detail in problems:
        print(f"  still failing: {signature}: {detail}")
    wanted = payload.get("signature")
    if wanted and any(sig == wanted for sig, _ in problems):
        return 1
    return 1 if status == "violation" else 0
