"""C06 -- three-valued verdicts.  Proved: ThreeValuedTruth operations equal
their Kleene tables and are monotone in the information order (any length).
Bounded: verdicts on every open prefix of enumerated closed trees."""
from vlib.harness import proved_tier

LEVEL = "other"


def run(rep, tier, seed):
    proved_tier(rep, "C06", seed, expected_min_obligations=10)
    try:
        from checks import bounded_C06
    except ImportError:
        rep.assume("bounded part (open prefixes vs completions) not built yet")
        return
    bounded_C06.run(rep, tier, seed)


def replay(path):
    import json
    d = json.load(open(path))
    if d.get("module", "").startswith("checks.bounded_") or "case" in d:
        from checks import bounded_C06
        return bounded_C06.replay(path)
    from vlib.harness import replay_file
    return replay_file(path)
