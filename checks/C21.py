"""C21 -- shipped formalizations: bounded post-condition of solve() with independent validators (nothing proved)."""
from vlib.harness import proved_tier
from checks import bounded_C21

LEVEL = "exploration"


def run(rep, tier, seed):
    bounded_C21.run(rep, tier, seed)


def replay(path):
    import json
    d = json.load(open(path))
    if d.get("module", "").startswith("checks.bounded_") or "case" in d:
        return bounded_C21.replay(path)
    from vlib.harness import replay_file
    return replay_file(path)
