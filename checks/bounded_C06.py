"""Bounded contract check for C06: a definite verdict of ``evaluate`` on a
tree with open leaves is never contradicted by a completion.

For closed trees t' (enumerated by ``bounded.reftree.ref_trees`` through the
pools of :mod:`bounded.c03_helpers`), every open prefix t of t' from
``ref_prefixes(t', limit=64)`` (same node ids) and every constraint template:

* ``evaluate(phi, t) in {TRUE, FALSE}``  ==>  ``evaluate(phi, t') == evaluate(phi, t)``;
* and, when the oracle verdict is decided, ``== ref_eval(phi, t')``;
* along chains t1 <= t2 of prefixes of the same t' two definite verdicts
  never differ (a definite verdict followed by UNKNOWN is counted, not a
  violation: the statement does not forbid it).

UNKNOWN on t is always allowed.  An exception raised on an OPEN tree is outside
the statement (the antecedent "returns TRUE or FALSE" is false); it is counted
and reported in the evidence but is not a violation of C06.
"""

from __future__ import annotations

import json
import multiprocessing
import time
import traceback
from typing import Any, Dict, List, Optional, Tuple

MODULE = "checks.bounded_C06"
WORKERS = 16

TIERS = {
    # wide_trees / wide_prefixes: the 30- and 40-children trees (legacy evaluation of two nested quantifiers is
    # quadratic in the fan-out, and every open leaf is examined on top of that)
    # watchdog: CPU seconds per evaluate() call; max_timeouts: a task stops after that many expiries (count()
    # on open trees searches for insertions and can run for minutes)
    "quick": dict(n_small=8, n_strided=4, prefixes=64, numeric_every=3, numeric_prefixes=16, watchdog=4.0,
                  wide_trees=1, wide_prefixes=6, max_timeouts=4),
    "thorough": dict(n_small=24, n_strided=16, prefixes=64, numeric_every=1, numeric_prefixes=64, watchdog=30.0,
                     wide_trees=2, wide_prefixes=40, max_timeouts=12),
}

# extra templates whose verdict depends on the open part by construction
DEPENDENT_EXTRA = [
    ("d-forall-len", "forall-plain:smt-str.len", 'forall {E} e: str.len(e) = {n}'),
    ("d-exists-len", "exists-plain:smt-str.len", 'exists {E} e: not str.len(e) = {n}'),
    ("d-root-eq", "smt-eq-root", 'start = "{word}"'),
    ("d-count-root", "count-literal", 'count(start, "{E}", "1")'),
]


def closed_pool(name: str, cfg: Dict[str, Any], seed: int):
    """The n_small smallest trees of the enumeration (siblings that share
    prefixes) plus n_strided larger ones with a fixed stride."""
    from bounded import c03_helpers as H
    from bounded.grammars import GRAMMARS
    from bounded.reftree import ref_tree_structs

    structs = list(ref_tree_structs(GRAMMARS[name], "<start>", H.POOL_NODES[name]))
    structs = [s for s in structs if H.max_fanout(s) < 29]  # 2^30 prefixes are out of reach anyway
    small = structs[: cfg["n_small"]]
    rest = structs[cfg["n_small"]:]
    chosen = list(small)
    if rest and cfg["n_strided"]:
        step = max(1.0, len(rest) / cfg["n_strided"])
        for i in range(cfg["n_strided"]):
            idx = int(i * step)
            if idx < len(rest) and rest[idx] not in chosen:
                chosen.append(rest[idx])
    # the hand-picked words of the grammar (several statements / rows / nested elements: trees in which an open leaf
    # has more than one ancestor of the quantified nonterminal)
    from bounded.reftree import to_struct as _ts, all_trees_from_string as _all
    for s_ in H.EXTRA_STRINGS.get(name, [])[: cfg.get("extra_words", 6)] if name != "wide" else []:
        for tree in _all(GRAMMARS[name], s_, "<start>", limit=1):
            st_ = _ts(tree)
            if st_ not in chosen and H.max_fanout(st_) < 29:
                chosen.append(st_)
    if name == "wide":
        # the 30/40-children trees: prefixes are the cuts of single children (limit applies)
        from bounded.reftree import to_struct, tree_from_string

        for s in ("x" * 29 + "y", "y" + "x" * 39)[: cfg["wide_trees"]]:
            chosen.append(to_struct(tree_from_string(GRAMMARS[name], s)))
    return chosen


def _build_tasks(tier: str, seed: int) -> List[Dict[str, Any]]:
    from bounded import c03_helpers as H
    from bounded.grammars import GRAMMARS
    from bounded.reftree import from_struct, ref_str

    cfg = TIERS[tier]
    tasks = []
    for name in GRAMMARS:
        p = H.PARAMS[name]
        pool = closed_pool(name, cfg, seed)
        word = ref_str(from_struct(pool[min(2, len(pool) - 1)])).replace("\\", "\\\\").replace('"', '\\"').replace("\n", "\\n")
        templates = [(t.tid, t.cat, t.plain, t) for t in H.templates_for(name) if not t.raw]
        for tid, cat, text in DEPENDENT_EXTRA:
            templates.append((tid, cat, text.replace("{E}", p["E"]).replace("{n}", str(len(p["lit"])))
                              .replace("{word}", word), None))
        for t_idx, (tid, cat, text, tpl) in enumerate(templates):
            tasks.append(dict(grammar=name, tid=tid, cat=cat, variant="plain", text=text, dc=None,
                              prefixes=cfg["prefixes"], tier=tier, seed=seed, watchdog=cfg["watchdog"]))
            if tpl is not None and t_idx % cfg["numeric_every"] == 0:
                variants = H.numeric_variants(tpl, name)
                vid, vtext, reason = variants[t_idx % len(variants)]
                tasks.append(dict(grammar=name, tid=tid, cat=cat, variant="num-" + vid, text=vtext, dc=reason,
                                  prefixes=cfg["numeric_prefixes"], tier=tier, seed=seed,
                                  watchdog=cfg["watchdog"]))
    return tasks


# --------------------------------------------------------------------------- #
# Worker
# --------------------------------------------------------------------------- #

_PREFIX_CACHE: Dict[Tuple[str, str, int, int], Any] = {}


def _is_prefix_of(t1, t2) -> bool:
    """t1 (more open) is a prefix of t2: same ids / labels, and wherever t1 is
    expanded t2 is expanded identically."""
    if t1.value != t2.value or t1.id != t2.id:
        return False
    if t1.children is None:
        return True
    if t2.children is None or len(t1.children) != len(t2.children):
        return False
    return all(_is_prefix_of(a, b) for a, b in zip(t1.children, t2.children))


def _open_paths(tree) -> List[Tuple[int, ...]]:
    from bounded.reftree import ref_paths

    return [p for p, n in ref_paths(tree) if n.children is None]


def _has_open_leaf_of(tree, nonterminals) -> bool:
    from bounded.reftree import ref_paths

    return any(n.children is None and n.value in nonterminals for _, n in ref_paths(tree))


def cut_tree(tree, cuts):
    """Prefix of ``tree`` with the nodes at ``cuts`` turned into open leaves;
    node ids are kept (independent re-implementation of what ref_prefixes
    does, used by replay)."""
    from isla.derivation_tree import DerivationTree

    cuts = {tuple(c) for c in cuts}

    def rebuild(node, path):
        if path in cuts or node.children is None:
            return DerivationTree(node.value, None, id=node.id)
        return DerivationTree(node.value, tuple(rebuild(c, path + (i,)) for i, c in enumerate(node.children)),
                              id=node.id)

    return rebuild(tree, ())


def _prefix_data(name: str, tier: str, seed: int, limit: int):
    """Per closed tree of the pool: (struct, closed tree, prefixes, chain pairs)."""
    key = (name, tier, seed, limit)
    if key in _PREFIX_CACHE:
        return _PREFIX_CACHE[key]
    from bounded.reftree import from_struct, ref_prefixes, to_struct

    data = []
    for struct in closed_pool(name, TIERS[tier], seed):
        closed = from_struct(struct)
        from bounded import c03_helpers as H
        wide = H.max_fanout(struct) >= 29
        prefixes = ref_prefixes(closed, limit=min(limit, TIERS[tier]["wide_prefixes"]) if wide else limit)
        pairs = []
        if len(prefixes) <= 64:
            for i, a in enumerate(prefixes):
                for j, b in enumerate(prefixes):
                    if i != j and _is_prefix_of(a, b):
                        pairs.append((i, j))
        keys = [repr(to_struct(p)) for p in prefixes]
        data.append((struct, closed, prefixes, pairs, keys))
    _PREFIX_CACHE[key] = data
    return data


def _judge_prefix(v_open: str, v_closed: str, expected: Optional[str]) -> Optional[Tuple[str, str]]:
    """(kind, detail) of a violation, or None."""
    if v_open not in ("T", "F"):
        return None
    if v_closed in ("T", "F"):
        if v_closed != v_open:
            return ("contradicted-by-evaluate-on-completion",
                    f"open tree -> {v_open}, completion -> {v_closed} (spec {expected})")
        if expected is not None and expected != v_open:
            return ("differs-from-spec-verdict-of-completion(evaluate-on-completion-agrees)",
                    f"open tree -> {v_open}, completion -> {v_closed}, spec {expected}")
        return None
    if v_closed in ("TO", "ZU"):
        return None  # watchdog / Z3 answered unknown inside ISLa (3 attempts): inconclusive
    return ("completion-gets-no-definite-verdict",
            f"open tree -> {v_open}, completion -> {v_closed} (spec {expected})")


def _worker(task: Dict[str, Any]) -> Dict[str, Any]:
    import warnings

    warnings.filterwarnings("ignore")
    try:
        from bounded import c03_helpers as H
        from bounded.grammars import GRAMMARS
        from bounded.refeval import parse_formula
        from bounded.reftree import ref_str

        name = task["grammar"]
        grammar = GRAMMARS[name]
        H.install_cover()
        t0 = time.process_time()
        try:
            formula = parse_formula(task["text"], grammar)
        except KeyboardInterrupt:
            raise
        except BaseException as exc:  # noqa: BLE001
            return dict(task=task, parse_error=f"{type(exc).__name__}: {str(exc)[:200]}", crash=None)
        features = H.formula_features(formula)
        numeric = task["variant"] != "plain"
        recursive_quantified = [nt for nt in H.recursive_nonterminals(grammar) if nt in features["quantified_types"]]
        counts = dict(open_cases=0, definite=0, unknown=0, raises=0, timeouts=0, definite_checked_vs_spec=0,
                      chain_pairs=0, chain_definite_pairs=0, information_loss=0, closed=0,
                      closed_oracle_undecided=0, dependent_prefixes=0, dependent_unknown=0,
                      skipped_prefixes_after_timeouts=0, skipped_closed_trees_after_timeouts=0)
        violations = []
        raises_examples = []
        samples = []
        by_prefix: Dict[str, Dict[str, set]] = {}
        for struct, closed, prefixes, pairs, keys in _prefix_data(name, task["tier"], task["seed"], task["prefixes"]):
            if numeric and H.max_fanout(struct) >= 29:
                continue  # quantifier elimination is quadratic in the 30/40 children: plain variants only
            if counts["timeouts"] >= TIERS[task["tier"]]["max_timeouts"]:
                counts["skipped_closed_trees_after_timeouts"] += 1
                continue
            counts["closed"] += 1
            v_closed = H.call_evaluate(formula, closed, grammar, max(20.0, task["watchdog"]))
            oracle = H.oracle_verdicts(formula, closed, grammar, features)
            expected = None
            if not oracle["error"] and len(oracle["verdicts"]) == 1 and (oracle["exact"] or (numeric and task["dc"])):
                expected = oracle["verdicts"][0]
            else:
                counts["closed_oracle_undecided"] += 1
            verdicts = []
            placeholders = []
            for idx, prefix in enumerate(prefixes):
                H.reset_last()
                if counts["timeouts"] >= TIERS[task["tier"]]["max_timeouts"]:
                    v = "TO"  # not evaluated any more: counted as skipped below
                    counts["skipped_prefixes_after_timeouts"] += 1
                    verdicts.append(v)
                    placeholders.append(False)
                    continue
                v = H.call_evaluate(formula, prefix, grammar, task["watchdog"], retries=0)
                if v == "ZU":
                    v = "U"  # on an open tree UNKNOWN is always admissible
                verdicts.append(v)
                placeholders.append(bool(H.LAST["placeholders"]))
                counts["open_cases"] += 1
                entry = by_prefix.setdefault(keys[idx], dict(spec=set(), isla=set()))
                if expected is not None:
                    entry["spec"].add(expected)
                entry["isla"].add(v)
                if v in ("T", "F"):
                    counts["definite"] += 1
                    if expected is not None:
                        counts["definite_checked_vs_spec"] += 1
                    if len(samples) < 2:
                        samples.append(dict(grammar=name, constraint=task["text"], open_tree=ref_str(prefix),
                                            completion=ref_str(closed), open_verdict=v, closed_verdict=v_closed,
                                            spec=expected))
                elif v == "U":
                    counts["unknown"] += 1
                elif v == "TO":
                    counts["timeouts"] += 1
                else:
                    counts["raises"] += 1
                    if len(raises_examples) < 2:
                        raises_examples.append(f"{name}: {task['text']!r} on open tree {ref_str(prefix)!r} -> {v}")
                problem = _judge_prefix(v, v_closed, expected)
                if problem is not None:
                    violations.append(dict(kind=problem[0], detail=problem[1], closed=H.struct_to_json(struct),
                                           v_open=v, placeholders=placeholders[idx],
                                           recursive_open_leaf=_has_open_leaf_of(prefix, recursive_quantified),
                                           wide=H.max_fanout(struct) >= 29,
                                           cuts=[list(p) for p in _open_paths(prefix)],
                                           open_text=ref_str(prefix), closed_text=ref_str(closed)))
            for i, j in pairs:
                counts["chain_pairs"] += 1
                vi, vj = verdicts[i], verdicts[j]
                if vi in ("T", "F") and vj in ("T", "F"):
                    counts["chain_definite_pairs"] += 1
                    if vi != vj:
                        violations.append(dict(kind="non-monotone-along-prefix-chain",
                                               detail=f"prefix {ref_str(prefixes[i])!r} -> {vi}, its refinement "
                                                      f"{ref_str(prefixes[j])!r} -> {vj}",
                                               closed=H.struct_to_json(struct),
                                               v_open=vi, placeholders=placeholders[i],
                                               recursive_open_leaf=_has_open_leaf_of(prefixes[i], recursive_quantified),
                                               wide=H.max_fanout(struct) >= 29,
                                               cuts=[list(p) for p in _open_paths(prefixes[i])],
                                               cuts2=[list(p) for p in _open_paths(prefixes[j])],
                                               open_text=ref_str(prefixes[i]), closed_text=ref_str(closed)))
                elif vi in ("T", "F") and vj == "U":
                    counts["information_loss"] += 1
        for entry in by_prefix.values():
            if len(entry["spec"]) == 2:
                counts["dependent_prefixes"] += 1
                if entry["isla"] == {"U"}:
                    counts["dependent_unknown"] += 1
        return dict(task=task, parse_error=None, crash=None, counts=counts, violations=violations[:40],
                    n_violations=len(violations), raises_examples=raises_examples, samples=samples,
                    cpu=round(time.process_time() - t0, 2))
    except KeyboardInterrupt:
        raise
    except BaseException:  # noqa: BLE001
        return dict(task=task, parse_error=None, crash=traceback.format_exc(limit=8))


# --------------------------------------------------------------------------- #
# Parent
# --------------------------------------------------------------------------- #


def signature(strategy: str, cat: str, v: Dict[str, Any]) -> str:
    """function : strategy : input class : verdict on the open tree : kind.

    Input class = template category, except for three classes that are
    recognised by an observation on the failing case (whatever the template):

    * ``not-valid-with-free-symbols``: the quantifier-elimination strategy
      answered FALSE although the SMT formula it checked for validity still
      contained free symbols (placeholders ``P_k`` for undecided quantifiers /
      predicates, variables for open subtrees);
    * ``open-leaf-of-recursive-quantified-nonterminal``: ``evaluate_legacy``
      gave a definite verdict that a completion contradicts, and the open tree
      has an open leaf labelled with a nonterminal N that the formula
      quantifies over and that is reachable from itself;
    * ``tree-quantifier-on-fanout>=29``: the open verdict agrees with evaluate()
      on the completion, both differ from the spec, and the completion has a
      node with >= 29 children (the closed-tree defect of C03 seen from here).
    """
    cls = cat
    contradicted = v["kind"] in ("contradicted-by-evaluate-on-completion", "non-monotone-along-prefix-chain")
    if strategy == "qe" and v.get("v_open") == "F" and v.get("placeholders") and contradicted:
        cls = "not-valid-with-free-symbols"
    elif strategy == "legacy" and contradicted and v.get("recursive_open_leaf"):
        cls = "open-leaf-of-recursive-quantified-nonterminal"
    elif strategy == "legacy" and not contradicted and v.get("wide"):
        cls = "tree-quantifier-on-fanout>=29"
    verdict = {"T": "TRUE", "F": "FALSE"}.get(v.get("v_open"), str(v.get("v_open")))
    return f"evaluate-open:{strategy}:{cls}:{verdict}-on-open-tree:{v['kind']}"


def run(rep, tier: str, seed: int) -> None:
    from bounded import c03_helpers as H
    from bounded.grammars import GRAMMARS

    cfg = TIERS[tier]
    rep.bound(f"C06: per grammar the {cfg['n_small']} smallest closed trees of the enumeration (<= {H.POOL_NODES} nodes) "
              f"+ {cfg['n_strided']} strided larger ones (wide: two 30/40-children trees); per closed tree the first "
              f"{cfg['prefixes']} open prefixes of ref_prefixes (same node ids); all plain templates of C03 + "
              f"{len(DEPENDENT_EXTRA)} templates depending on open parts; every {cfg['numeric_every']}th template also with "
              f"a numeric quantifier on the first {cfg['numeric_prefixes']} prefixes")
    rep.rule("C06 case = (grammar, constraint, closed tree t', open prefix t of t'); non-trivial iff evaluate(phi, t) is "
             "TRUE or FALSE (otherwise the antecedent of the contract is false)")
    rep.assume("exceptions raised by evaluate() on OPEN trees are outside the statement of C06 (counted in section C06.open)")
    rep.assume("the spec verdict of a completion is compared only when ref_eval_ex is exact or the numeric template is domain complete")
    rep.assume("level / consecutive: only verdicts outside the set of documented readings count (see C04)")
    rep.exhaustive = False

    tasks = _build_tasks(tier, seed)
    import isla.evaluator  # noqa: F401  (before the fork)
    import bounded.refeval  # noqa: F401
    t0 = time.time()
    # prefixes are computed before the fork (inherited); one fresh child per task, so that no verdict or
    # running time depends on the caches ISLa filled during earlier tasks of the same worker
    for name in GRAMMARS:
        for limit in sorted({cfg["prefixes"], cfg["numeric_prefixes"]}):
            _prefix_data(name, tier, seed, limit)
    with multiprocessing.get_context("fork").Pool(WORKERS, maxtasksperchild=1) as pool:
        results = list(pool.imap_unordered(_worker, tasks, chunksize=1))
    order = {(t["grammar"], t["tid"], t["variant"]): i for i, t in enumerate(tasks)}
    results.sort(key=lambda r: order[(r["task"]["grammar"], r["task"]["tid"], r["task"]["variant"])])

    total: Dict[str, int] = {}
    per_cat: Dict[str, Dict[str, int]] = {}
    raises_examples: List[str] = []
    case_no = 0
    n_shared_spec_deviation = 0
    shared_examples: Dict[str, str] = {}
    for res in results:
        task = res["task"]
        label = f"{task['grammar']}/{task['tid']}/{task['variant']}"
        if res.get("crash"):
            rep.checker_error(f"C06 worker crashed on {label}: {res['crash']}")
            continue
        if res.get("parse_error"):
            rep.checker_error(f"C06 template does not parse: {label}: {task['text']!r}: {res['parse_error']}")
            continue
        counts = res["counts"]
        for k, v in counts.items():
            total[k] = total.get(k, 0) + v
        cat = per_cat.setdefault(task["cat"] + ("|numeric" if task["variant"] != "plain" else "|plain"),
                                 dict(open_cases=0, definite=0, unknown=0, raises=0, violations=0))
        for k in ("open_cases", "definite", "unknown", "raises"):
            cat[k] += counts[k]
        cat["violations"] += res["n_violations"]
        # one rep.case per evaluated (template, prefix): keys are synthetic but deterministic
        for i in range(counts["open_cases"]):
            case_no += 1
            rep.case(key=f"{label}#{i}", nontrivial=(i < counts["definite"]),
                     sample=(res["samples"][i] if i < len(res["samples"]) and case_no % 5 == 1 else None))
        raises_examples.extend(res["raises_examples"])
        if counts["timeouts"]:
            rep.note_inconclusive(f"{label}: {counts['timeouts']} evaluate() calls on open trees hit the watchdog "
                                  f"({cfg['watchdog']} CPU s); {counts['skipped_prefixes_after_timeouts']} prefixes and "
                                  f"{counts['skipped_closed_trees_after_timeouts']} closed trees skipped afterwards")
        strategy = "qe" if task["variant"] != "plain" else "legacy"
        for v in res["violations"]:
            if v["kind"].startswith("differs-from-spec-verdict-of-completion"):
                # evaluate() gives the open tree and its completion the SAME verdict, which is
                # what C06 states; that this common verdict deviates from the specification is
                # the closed-tree defect C03 reports (DESIGN.md 11.2), counted here only
                n_shared_spec_deviation += 1
                shared_examples.setdefault(signature(strategy, task["cat"], v),
                                           f"{task['grammar']}: {task['text']!r} on {v['closed_text']!r}: {v['detail']}")
                continue
            rep.violation(
                signature(strategy, task["cat"], v),
                f"grammar={task['grammar']} constraint={task['text']!r} open tree={v['open_text']!r} "
                f"completion={v['closed_text']!r}: {v['detail']}",
                dict(module=MODULE, case=dict(grammar=task["grammar"], text=task["text"], variant=task["variant"],
                                              cat=task["cat"], dc=task["dc"], closed=v["closed"], cuts=v["cuts"],
                                              cuts2=v.get("cuts2"), kind=v["kind"])),
            )
    rep.section("C06.spec_deviation_shared_by_open_tree_and_completion", count=n_shared_spec_deviation,
                note="not a C06 violation: open tree and completion get the same verdict from evaluate(); see C03",
                examples=dict(list(sorted(shared_examples.items()))[:20]))
    rep.section("C06.open", **total)
    rep.section("C06.categories", **{k: v for k, v in sorted(per_cat.items())})
    rep.section("C06.open_tree_exceptions", examples=raises_examples[:12], total=total.get("raises", 0))
    rep.section("C06.timing", wall_s=round(time.time() - t0, 1), tasks=len(tasks))
    if total.get("definite", 0) == 0:
        rep.checker_error("C06: evaluate() never returned a definite verdict on an open tree (vacuous)")
    if total.get("unknown", 0) == 0:
        rep.checker_error("C06: evaluate() never returned UNKNOWN on an open tree")
    if total.get("dependent_prefixes", 0) == 0:
        rep.checker_error("C06: no open prefix with completions of different spec verdicts (no case where UNKNOWN is required)")
    if total.get("chain_definite_pairs", 0) == 0:
        rep.checker_error("C06: no chain of prefixes with two definite verdicts")
    if total.get("definite_checked_vs_spec", 0) == 0:
        rep.checker_error("C06: no definite open verdict was compared with the spec verdict of the completion")
    _sanity(rep)


def _sanity(rep) -> None:
    """Known by construction: with the open root only, `exists <var> v: v = "a"`
    depends on the expansion (UNKNOWN required); on the prefix where one <var> is
    expanded to "a" the verdict may be TRUE, never FALSE."""
    from bounded import c03_helpers as H
    from bounded.grammars import GRAMMARS
    from bounded.refeval import parse_formula
    from bounded.reftree import tree_from_string

    grammar = GRAMMARS["assgn"]
    formula = parse_formula('exists <var> v: v = "a"', grammar)
    closed = tree_from_string(grammar, "a := 1")
    root_only = cut_tree(closed, [()])
    v = H.call_evaluate(formula, root_only, grammar)
    rep.case(key="sanity-open-root", nontrivial=False)
    if v != "U":
        rep.checker_error(f"C06 sanity: evaluate on the open root gives {v}, expected UNKNOWN")
    rhs_cut = cut_tree(closed, [(0, 0, 2)])
    v2 = H.call_evaluate(formula, rhs_cut, grammar)
    rep.case(key="sanity-witness-closed", nontrivial=True)
    if v2 == "F":
        rep.checker_error("C06 sanity: FALSE on a prefix that already contains the witness")


# --------------------------------------------------------------------------- #
# Replay
# --------------------------------------------------------------------------- #


def replay(path: str) -> int:
    import warnings

    warnings.filterwarnings("ignore")
    from bounded import c03_helpers as H
    from bounded.grammars import GRAMMARS
    from bounded.refeval import parse_formula
    from bounded.reftree import from_struct, ref_str

    payload = json.load(open(path, encoding="utf-8"))
    case = payload["case"]
    grammar = GRAMMARS[case["grammar"]]
    formula = parse_formula(case["text"], grammar)
    closed = from_struct(H.struct_from_json(case["closed"]))
    prefix = cut_tree(closed, case["cuts"])
    v_open = H.call_evaluate(formula, prefix, grammar, 60.0)
    v_closed = H.call_evaluate(formula, closed, grammar, 60.0)
    oracle = H.oracle_verdicts(formula, closed, grammar)
    numeric = case["variant"] != "plain"
    expected = None
    if not oracle["error"] and len(oracle["verdicts"]) == 1 and (oracle["exact"] or (numeric and case["dc"])):
        expected = oracle["verdicts"][0]
    print(f"constraint: {case['text']}")
    print(f"open tree {ref_str(prefix)!r} -> {v_open}; completion {ref_str(closed)!r} -> {v_closed}; spec {expected}")
    if case.get("kind") == "non-monotone-along-prefix-chain" and case.get("cuts2") is not None:
        prefix2 = cut_tree(closed, case["cuts2"])
        v2 = H.call_evaluate(formula, prefix2, grammar, 60.0)
        print(f"refinement {ref_str(prefix2)!r} -> {v2}")
        return 1 if (v_open in ("T", "F") and v2 in ("T", "F") and v_open != v2) else 0
    problem = _judge_prefix(v_open, v_closed, expected)
    if problem is not None:
        print(f"  still failing: {problem[0]}: {problem[1]}")
        return 1
    return 0
