"""C08 (bounded) -- simplified syntax evaluates exactly like its documented core
translation.

For every generated pair (sugared text s, core text k) where k is produced from
the same AST by the INDEPENDENT desugarer ``bounded/c08_desugar.py`` (written
from islaspec.rst, section "Simplified Syntax"), and every enumerated tree t:

    evaluate(s, t) == evaluate(k, t)            (real ISLa on both texts)
    evaluate(k, t) == ref_eval(parse(k), t)      (independent semantics, when exact)

``parse_isla(s)`` must accept s (the sugar forms are documented syntax).
"""

from __future__ import annotations

import json
import time
from typing import Dict, List

from bounded import c08_desugar as D
from bounded import c08_family
from bounded.c07_helpers import (
    Watchdog,
    all_grammars,
    chunks,
    ev,
    exc_text,
    parse,
    pick_trees,
    quiet_isla,
    ref,
    run_pool,
    struct_str,
    tree_structs,
    watchdog,
)
from bounded.reftree import from_struct

MODULE = "checks.bounded_C08"
GRAMMAR_ORDER = ["assgn", "rightrec", "leftrec", "nullable", "ambig", "num", "multichar", "xmlish", "csvish", "altstart", "wide"]
TREE_CAP = {"quick": 32, "thorough": None}
CASE_TIMEOUT = {"quick": 40, "thorough": 400}  # CPU seconds per pair


def make_pairs(tier: str, seed: int):
    """-> (pairs, skipped) ; a pair is a JSON-able dict with both texts."""
    pairs: List[dict] = []
    skipped: Dict[str, int] = {}
    seen = set()
    for name in GRAMMAR_ORDER:
        grammar = all_grammars()[name]
        for case in c08_family.family(name, tier, seed):
            sugar = D.sugar_text(case["ast"], case["min_parens"])
            if (name, sugar) in seen:
                continue
            seen.add((name, sugar))
            try:
                core = D.core_text(D.desugar(case["ast"], grammar))
            except D.Unsupported as exc:
                key = f"{case['fam']}: {exc}"
                skipped[key] = skipped.get(key, 0) + 1
                continue
            pairs.append({"g": name, "fam": case["fam"], "feat": case["feat"], "cls": case["cls"], "sugar": sugar, "core": core})
    return pairs, skipped


def check_pair(pair: dict, tier: str, seed: int, verbose: bool = False) -> dict:
    quiet_isla()
    name = pair["g"]
    grammar = all_grammars()[name]
    out = dict(pair)
    out["stages"] = []
    say = print if verbose else (lambda *a, **k: None)
    say(f"sugar: {pair['sugar']}\ncore : {pair['core']}")
    try:
        with watchdog(CASE_TIMEOUT[tier]):
            fc, err_c = parse(pair["core"], grammar)
            fs, err_s = parse(pair["sugar"], grammar)
            if err_c is not None:
                out["status"] = "core-rejected"
                out["why"] = exc_text(err_c)
                say(f"parse_isla rejects the CORE text: {out['why']}")
                return out
            if err_s is not None:
                out["status"] = "violation"
                out["stages"].append("sugar-rejected")
                out["why"] = exc_text(err_s)
                out["what"] = f"parse_isla rejects the sugared text ({out['why']}) but accepts its core translation"
                say(out["what"])
                return out
            picks = pick_trees(name, tier, TREE_CAP[tier], seed)
            structs = tree_structs(name, tier)
            counts: Dict[str, int] = {}
            first: Dict[str, tuple] = {}
            n_exact = 0
            n_unknown = 0
            for ti in picks:
                t = from_struct(structs[ti])
                a = ev(fs, t, grammar)
                b = ev(fc, t, grammar)
                r = ref(fc, t, grammar)
                counts[b] = counts.get(b, 0) + 1
                if a == "U" or b == "U":
                    # UNKNOWN on a closed tree = Z3 gave up inside ISLa (time-out under
                    # load): inconclusive, never a violation
                    n_unknown += 1
                    continue
                exact = r in ("T", "F")
                n_exact += exact
                stage = None
                if exact:
                    if b == r:
                        # the core text means what the evaluator says: any difference
                        # is the translation's
                        stage = "sugar!=core" if a != r else None
                    elif a == b:
                        stage = "evaluate(core)!=ref_eval"  # translation fine, evaluator differs from the semantics
                    elif a == r:
                        stage = "evaluate(core)!=ref_eval"
                    else:
                        stage = "sugar!=core"
                elif a != b:
                    stage = "sugar!=core"
                if stage and stage not in first:
                    first[stage] = (ti, struct_str(structs[ti]), a, b, r)
            out["verdicts"] = counts
            out["trees"] = len(picks)
            out["exact"] = n_exact
            out["unknown"] = n_unknown
            for stage in ("sugar!=core", "evaluate(core)!=ref_eval"):
                if stage in first:
                    ti, s, a, b, r = first[stage]
                    out["stages"].append(stage)
                    out.setdefault("tree", ti)
                    out.setdefault(
                        "what",
                        f"tree #{ti} {s!r}: evaluate(sugar)={a} evaluate(core)={b} ref_eval(core)={r}; sugar={pair['sugar']!r} core={pair['core']!r}",
                    )
                    say(f"{stage} on tree #{ti} {s!r}: evaluate(sugar)={a} evaluate(core)={b} ref_eval(core)={r}")
            out["status"] = "violation" if out["stages"] else "ok"
            if not out["stages"]:
                say(f"holds on {len(picks)} trees ({n_exact} with an exact oracle verdict); verdicts {counts}")
            return out
    except Watchdog:
        out["status"] = "timeout"
        return out


def _worker(item):
    tier, seed, pairs = item
    return [check_pair(p, tier, seed) for p in pairs]


def _signature(rec: dict) -> str:
    cls = (rec.get("cls") or f"{rec['fam']}:{rec['feat']}").replace(" ", "_")
    return f"{rec['stages'][0]}:{cls}"


def run(rep, tier, seed):
    t0 = time.time()
    rep.rule(
        "pairs (sugared text, core text) from templates (bounded/c08_family.py) over each grammar: omitted "
        "`in start`, omitted names, free nonterminals (incl. <start>, several types, under negation / "
        "existential quantifiers, in `in` position and predicate arguments), XPath child axis (default "
        "index, [1], [2], two children, chains, in predicates), descendant axis (free / named / after a "
        "child step / followed by a child step), prefix and infix SMT-LIB notation for the lexer's "
        "operators, negative literals, implies/iff/xor incl. precedence without parentheses, seeded "
        "combinations; the core text comes from the independent desugarer bounded/c08_desugar.py; a case "
        "is one (pair, tree) triple of verdicts, non-trivial iff both texts parse"
    )
    rep.bound(
        "trees: all closed ref_trees below <start> up to bounded.grammars.ENUM_NODES nodes; per pair at most "
        f"{TREE_CAP[tier]} of them in this tier (smallest half + seeded sample); watchdog {CASE_TIMEOUT[tier]} CPU s per pair"
    )
    rep.assume("ref_eval reads the Formula objects parse_isla builds for the CORE text (field access only); core ISLa needs no translation, so the dependency is on the ANTLR front end only")
    rep.assume("excluded (the specification gives no translation): XPath heads that are the constant / a numeric variable / a match-expression variable; XPath on a quantifier that already has a match expression; an XPath prefix used and extended; nested nameless quantifiers over one type; alternatives with { } [ ] \" \\ in terminals; XPath steps no alternative offers; unparenthesised mixes of +,- with *,div,mod and chains of implies/iff/xor (associativity / arithmetic precedence are not documented)")
    rep.assume("multi-step child chains are not generated on the ambiguous grammar `ambig`: the flat match-expression text of the documented translation is itself ambiguous there; several XPath expressions on one variable only when the same alternatives offer all of them")
    rep.assume("str.to.int is applied to tree variables only on the numeral grammar (all values of the variable are numerals) and to numeric variables; str.to.int on non-numerals is outside the property")
    rep.assume("root symbol <start> for all grammars (a `const` declaration crashes parse_isla)")
    rep.exhaustive = False

    pairs, skipped = make_pairs(tier, seed)
    for name in GRAMMAR_ORDER:
        tree_structs(name, tier)
    # interleave grammars so that the expensive assgn pairs spread over the pool
    items = [(tier, seed, ch) for ch in chunks(pairs, 3)]
    results = [r for part in run_pool(_worker, items) for r in part]

    fam_counts: Dict[str, Dict[str, int]] = {}
    n_samples = 0
    for rec in results:
        fc = fam_counts.setdefault(rec["fam"], {"pairs": 0, "ok": 0, "violations": 0, "core_rejected": 0, "timeouts": 0, "triples": 0, "exact": 0})
        fc["pairs"] += 1
        key = (rec["g"], rec["sugar"])
        if rec["status"] == "core-rejected":
            fc["core_rejected"] += 1
            rep.note_inconclusive(f"core text rejected by parse_isla: {rec['g']}: {rec['core']!r}: {rec['why']}")
            rep.case(key=key, nontrivial=False)
            continue
        if rec["status"] == "timeout":
            fc["timeouts"] += 1
            rep.note_inconclusive(f"watchdog: {rec['g']}: {rec['sugar']!r}")
            rep.case(key=key, nontrivial=False)
            continue
        if rec.get("unknown"):
            rep.note_inconclusive(f"{rec['unknown']} UNKNOWN verdict(s) (Z3 time-out inside ISLa): {rec['g']}: {rec['sugar']!r}")
        fc["triples"] += rec.get("trees", 0)
        fc["exact"] += rec.get("exact", 0)
        sample = None
        if n_samples < 12 and fc["pairs"] <= 2:
            sample = {k: rec.get(k) for k in ("g", "fam", "feat", "sugar", "core", "verdicts", "status")}
            n_samples += 1
        rep.case(key=key, nontrivial=True, sample=sample)
        rep.evaluations += max(0, rec.get("trees", 0) - 1)
        if rec["status"] == "violation":
            fc["violations"] += 1
            rep.violation(
                _signature(rec),
                f"grammar {rec['g']}: {rec.get('what')}",
                {"module": MODULE, "case": {k: rec.get(k) for k in ("g", "fam", "feat", "cls", "sugar", "core")} | {"stages": rec["stages"], "tier": tier, "seed": seed}},
            )
        else:
            fc["ok"] += 1
    for fam, fc in fam_counts.items():
        rep.section("families", **{fam: fc})
        if fc["triples"] == 0:
            rep.checker_error(f"family {fam}: no (pair, tree) triple evaluated (vacuous)")
        if fc["exact"] == 0:
            rep.checker_error(f"family {fam}: the oracle was never exact")
    for fam in ("in-start", "nameless", "free", "xpath-child", "xpath-desc", "xpath-connective", "smt-notation", "negative-literal", "connective", "combo"):
        if fam not in fam_counts:
            rep.checker_error(f"family {fam} produced no pair")
    core_rej = [r for r in results if r["status"] == "core-rejected"]
    if len(core_rej) > max(3, len(results) // 20):
        rep.checker_error(f"{len(core_rej)} core texts rejected by parse_isla - the desugarer's output is suspicious: {core_rej[0]['core']!r}: {core_rej[0]['why']}")
    rep.section("totals", pairs=len(results), skipped_by_desugarer=skipped, core_rejected=len(core_rej), wall_s=round(time.time() - t0, 1))

    # sanity: hand-written pair from the specification (definition-use constraint)
    sanity = check_pair(
        {
            "g": "assgn", "fam": "sanity", "feat": "spec-example",
            "sugar": "exists <assgn> decl: (before(decl, <assgn>) and <assgn>.<rhs>.<var> = decl.<var>)",
            "core": 'forall <assgn> assgn="<var> := {<var> rhs}" in start: exists <assgn> decl="{<var> lhs} := <rhs>" in start: (before(decl, assgn) and (= lhs rhs))',
        },
        tier, seed,
    )
    if sanity["status"] != "ok" or set(sanity.get("verdicts", {})) != {"T", "F"}:
        rep.checker_error(f"sanity pair from the specification failed: {sanity}")
    # sanity 2: a deliberately WRONG core text must be detected
    wrong = check_pair({"g": "assgn", "fam": "sanity", "feat": "wrong", "sugar": '<var> = "a"', "core": 'exists <var> v in start: ((= v "a"))'}, tier, seed)
    if wrong["status"] != "violation":
        rep.checker_error("sanity: a wrong core translation was not detected")
    rep.case(key="sanity", nontrivial=True)


def replay(path):
    with open(path, encoding="utf-8") as fh:
        payload = json.load(fh)
    case = payload["case"]
    print(f"C08 replay: grammar {case['g']}")
    rec = check_pair(case, case.get("tier", "quick"), int(case.get("seed", 0)), verbose=True)
    if rec["status"] == "violation":
        print(f"still failing: {rec['stages']}")
        return 1
    print(f"status now: {rec['status']}")
    return 0
