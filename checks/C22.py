"""C22 -- reproducibility: bounded, fresh-process pairs + static nondeterminism scan (nothing proved)."""
from vlib.harness import proved_tier
from checks import bounded_C22

LEVEL = "exploration"


def run(rep, tier, seed):
    bounded_C22.run(rep, tier, seed)


def replay(path):
    import json
    d = json.load(open(path))
    if d.get("module", "").startswith("checks.bounded_") or "case" in d:
        return bounded_C22.replay(path)
    from vlib.harness import replay_file
    return replay_file(path)
