"""C13 -- tree insertion. Proved: is_prefix (path filter of insert_tree). Bounded: post-condition of insert_tree for all method subsets."""
from vlib.harness import proved_tier
from checks import bounded_C13

LEVEL = "other"


def run(rep, tier, seed):
    proved_tier(rep, "C13", seed, expected_min_obligations=5)
    bounded_C13.run(rep, tier, seed)


def replay(path):
    import json
    d = json.load(open(path))
    if d.get("module", "").startswith("checks.bounded_") or "case" in d:
        return bounded_C13.replay(path)
    from vlib.harness import replay_file
    return replay_file(path)
