"""C05 (bounded part) -- ground SMT-LIB atoms are judged exactly as Z3 judges them.

Contract (from the property statement): for every ground Boolean SMT-LIB
expression ``e`` over the operators the ISLa constraint lexer accepts,

    is_valid(e) is TRUE  iff Z3 says e is valid,
    is_valid(e) is FALSE iff Z3 says e is not valid,
    is_valid(e) never raises   (UNKNOWN only if Z3 itself answers unknown),

and the same for ``evaluate()`` on a single-atom constraint whose nonterminal
derives the instantiating string, and for the automatic evaluation inside
``SMTFormula.substitute_expressions``.

Oracle: Z3 itself (the z3 of the repo's venv): ``z3.simplify`` to a Boolean
value, else ``Solver().check(Not(e))``.  Nothing of isla.z3_helpers is used to
compute the expected verdict.  Expressions are built from operator templates
obtained from Z3's own SMT-LIB parser (the way ISLa obtains them) and
``z3.substitute`` of literal values built with the z3 API.

Families
  (i)   every lexer operator x argument tuples from critical sets, wrapped
        into a Boolean atom (``op(args) = c`` for candidate values c);
        plus random depth-2/3 compositions of those operators;
  (ii)  regex terms of depth <= 3 x short subject strings through str.in_re;
  (iii) the same atoms through evaluate() (concrete ISLa syntax, tiny grammar
        ``<start> ::= <x>; <x> ::= s``) and SMTFormula.substitute_expressions.

Signatures: ``<channel>:<operator>:<argument-class>[:raises]``.
"""
from __future__ import annotations

import contextlib
import io
import json
import random
import re as _pyre
import signal
import time
from typing import Any, Dict, List, Optional, Tuple

from bounded.c05_hardpool import run_tasks

MODULE = "checks.bounded_C05"

# --------------------------------------------------------------------------- #
# critical sets
# --------------------------------------------------------------------------- #

INTS = list(range(-7, 8))
STRS = ["", "a", "ab", "a\nb", '"', "\\", "ä", "0", "-12", "+12", "007"]
STRS_SMALL = ["", "a", "ab", "a\nb", "\\", "ä"]
NUMERALS = ["0", "7", "12", "-12", "+12", "007", "-0", "+007", "-007"]
CODES = [-1, 0, 10, 34, 48, 92, 97, 228, 0x2FFFF, 0x30000]
BODIES = ["a", "ab", "", "a.b", "\\", "]", "^", "-", "\n", "\t", "ä", '"',
          "\\n"]   # the last one is backslash + n (two characters): the fast path rewrites it
RANGES = [("a", "b"), ("a", "a"), ("b", "a"), ("\\", "]"), ("\\", "a"),
          ("^", "a"), ("]", "a"), ("-", "a"), ("\t", "\n"), ("a", "ä"),
          ('"', "a"), ("ab", "c"), ("", "a"), ("!", "~")]
LOOPS = [(0, 1), (1, 2), (2, 2), (0, 0), (2, 1)]
NUM_RE = _pyre.compile(r"[+-]?[0-9]+")

# --------------------------------------------------------------------------- #
# building z3 expressions from JSON specs
#   ["i", n] | ["s", str] | ["b", bool] | ["x", str] (string that is passed
#   through the ISLa variable x) | [op, arg, ...]
#   op is the SMT-LIB operator text; "(_ re.loop l h)" / "(_ re.^ n)" are
#   indexed operators; "re.loop-args:l:h" is the application form
#   (re.loop r l h).
# --------------------------------------------------------------------------- #

_TEMPL: Dict[Tuple[str, str], Tuple[Any, List[Any]]] = {}


def _z3():
    import z3
    return z3


def _sort_letter(e) -> str:
    z3 = _z3()
    k = e.sort().kind()
    if k == z3.Z3_INT_SORT:
        return "I"
    if k == z3.Z3_REAL_SORT:
        return "Q"
    if k == z3.Z3_BOOL_SORT:
        return "B"
    if k == z3.Z3_SEQ_SORT:
        return "S"
    return "R"


def _sort_of(letter: str):
    z3 = _z3()
    return {"I": z3.IntSort(), "Q": z3.RealSort(), "B": z3.BoolSort(),
            "S": z3.StringSort(), "R": z3.ReSort(z3.StringSort())}[letter]


def app(op: str, args: List[Any]):
    """op applied to z3 expressions, the operator node coming from Z3's own
    SMT-LIB parser (so it is the node ISLa gets from parse_smt2_string)."""
    z3 = _z3()
    letters = "".join(_sort_letter(a) for a in args)
    key = (op, letters)
    if key not in _TEMPL:
        vs = [z3.Const(f"c05v{i}", _sort_of(l)) for i, l in enumerate(letters)]
        names = " ".join(f"c05v{i}" for i in range(len(vs)))
        if op.startswith("re.loop-args:"):
            _, lo, hi = op.split(":")
            text = f"(re.loop {names} {lo} {hi})"
        elif vs:
            text = f"({op} {names})"
        else:
            text = op
        parsed = z3.parse_smt2_string(
            f"(assert (= {text} {text}))",
            decls={f"c05v{i}": v for i, v in enumerate(vs)})[0]
        _TEMPL[key] = (parsed.arg(0), vs)
    t, vs = _TEMPL[key]
    if not vs:
        return t
    return z3.substitute(t, *zip(vs, args))


def build(spec, var=None):
    z3 = _z3()
    tag = spec[0]
    if tag == "i":
        return z3.IntVal(spec[1])
    if tag == "s":
        return z3.StringVal(spec[1])
    if tag == "b":
        return z3.BoolVal(bool(spec[1]))
    if tag == "x":
        return var if var is not None else z3.StringVal(spec[1])
    return app(tag, [build(a, var) for a in spec[1:]])


def is_lit(spec) -> bool:
    return spec[0] in ("i", "s", "b", "x")


def show(spec) -> str:
    tag = spec[0]
    if tag == "i":
        return str(spec[1])
    if tag in ("s", "x"):
        return json.dumps(spec[1], ensure_ascii=True) + ("@x" if tag == "x" else "")
    if tag == "b":
        return "true" if spec[1] else "false"
    if len(spec) == 1:
        return tag
    return "(" + tag + " " + " ".join(show(a) for a in spec[1:]) + ")"


# --------------------------------------------------------------------------- #
# the oracle: Z3
# --------------------------------------------------------------------------- #

ORACLE_TIMEOUT_MS = 4000


def z3_truth(e) -> Optional[bool]:
    """True: valid; False: not valid; None: Z3 does not decide."""
    z3 = _z3()
    try:
        s = z3.simplify(e)
        if z3.is_true(s):
            return True
        if z3.is_false(s):
            return False
    except z3.Z3Exception:
        pass
    # ISLa's z3_solve toggles this global parameter after an `unknown`
    z3.set_param("parallel.enable", False)
    solver = z3.Solver()
    solver.set("timeout", ORACLE_TIMEOUT_MS)
    solver.add(z3.Not(e))
    r = solver.check()
    if r == z3.unsat:
        return True
    if r == z3.sat:
        return False
    return None


def z3_solver_truth(e) -> Optional[bool]:
    z3 = _z3()
    solver = z3.Solver()
    solver.set("timeout", ORACLE_TIMEOUT_MS)
    solver.add(z3.Not(e))
    r = solver.check()
    return True if r == z3.unsat else False if r == z3.sat else None


def zval(t):
    """Z3's value of a ground Int/Real/String/Bool term as a literal spec, or
    None when Z3 leaves it uninterpreted (x div 0, ...)."""
    z3 = _z3()
    try:
        s = z3.simplify(t)
    except z3.Z3Exception:
        return None
    if z3.is_int_value(s):
        return ["i", s.as_long()]
    if z3.is_rational_value(s):
        if s.denominator_as_long() == 1:
            return ["i", s.numerator_as_long()]
        return ["q", s.numerator_as_long(), s.denominator_as_long()]
    if z3.is_string_value(s):
        return ["s", s.as_string()]
    if z3.is_true(s):
        return ["b", True]
    if z3.is_false(s):
        return ["b", False]
    return None


# --------------------------------------------------------------------------- #
# argument classes (signatures)
# --------------------------------------------------------------------------- #

def str_class(s: str) -> str:
    if s == "":
        return "empty"
    feats = []
    if "\n" in s:
        feats.append("newline")
    if "\t" in s:
        feats.append("tab")
    if "\\" in s:
        feats.append("backslash")
    if '"' in s:
        feats.append("quote")
    if any(ord(c) > 127 for c in s):
        feats.append("non-ascii")
    if any(ord(c) < 32 and c not in "\n\t" for c in s):
        feats.append("control")
    if feats:
        return "+".join(feats)
    if NUM_RE.fullmatch(s):
        return "numeral"
    if any(c in ".]^-[()*+?{}|$" for c in s):
        return "metachar"
    return "plain"


def _merge_str_classes(strs: List[str]) -> str:
    feats: List[str] = []
    for s in strs:
        for f in str_class(s).split("+"):
            if f not in ("plain", "numeral") and f not in feats:
                feats.append(f)
    order = ["empty", "newline", "tab", "backslash", "quote", "non-ascii",
             "control", "metachar"]
    feats.sort(key=order.index)
    return "+".join(feats) if feats else "plain"


def regex_op_class(spec) -> str:
    """class of a regex term by its top operator and direct arguments"""
    op = spec[0]
    if op == "str.to_re":
        a = spec[1]
        if not is_lit(a):
            return "computed-literal"
        s = a[1]
        c = str_class(s)
        return "lit-" + c
    if op == "re.range":
        lo, hi = spec[1], spec[2]
        if not (is_lit(lo) and is_lit(hi)):
            return "computed-bound"
        lo, hi = lo[1], hi[1]
        if len(lo) != 1 or len(hi) != 1:
            return "multichar-or-empty-bound"
        for ch, name in (("\\", "bound-backslash"), ("^", "bound-caret"),
                         ("]", "bound-bracket"), ("-", "bound-dash"),
                         ("\n", "bound-newline"), ("\t", "bound-tab")):
            if ch in (lo, hi):
                return name + ("-reversed" if lo > hi else "")
        if lo > hi:
            return "reversed-bounds"
        if ord(lo) > 127 or ord(hi) > 127:
            return "bound-non-ascii"
        return "plain"
    if op.startswith("(_ re.loop") or op.startswith("re.loop-args") or op.startswith("(_ re.^"):
        body = spec[1]
        if op.startswith("re.loop-args"):
            return "any-body"
        if op.startswith("(_ re.loop"):
            lo, hi = [int(x) for x in op.rstrip(")").split()[2:4]]
            if lo > hi:
                return "lo-gt-hi"
        if body[0] == "str.to_re" and is_lit(body[1]):
            n = len(body[1][1])
            return "empty-body" if n == 0 else "singlechar-body" if n == 1 else "multichar-body"
        if body[0] in ("re.*", "re.+", "re.opt") or body[0].startswith("(_ re.loop") or body[0].startswith("(_ re.^"):
            return "quantified-body"
        return "body-" + op_name(body[0])
    if op in ("re.all", "re.allchar", "re.none"):
        return "nullary"
    return "of-" + ",".join(op_name(a[0]) if not is_lit(a) else "lit" for a in spec[1:])


_SAFE_OP = {"+": "add", "-": "sub", "*": "mul", "^": "pow", "<": "lt", "<=": "le",
            ">": "gt", ">=": "ge", "=": "eq", "=>": "implies", "str.++": "str.concat",
            "str.<": "str.lt", "str.<=": "str.le", "re.++": "re.concat", "re.*": "re.star",
            "re.+": "re.plus", "str.to_int": "str.to.int"}


def op_name(op: str) -> str:
    """operator name as used in signatures (safe in file names; the two
    spellings of str.to.int are one Z3 operator)"""
    if op.startswith("(_ re.loop"):
        return "re.loop"
    if op.startswith("re.loop-args"):
        return "re.loop-application-form"
    if op.startswith("(_ re.^"):
        return "re.pow"
    return _SAFE_OP.get(op, op)


def subject_class(s: str) -> str:
    return "subject-with-newline" if "\n" in s else ""


def arg_class(op: str, vals: List[Any]) -> str:
    """class of an operator application by the VALUES of its arguments
    (ints, strs, bools; regex arguments are given as specs)"""
    ints = [v for v in vals if isinstance(v, int) and not isinstance(v, bool)]
    strs = [v for v in vals if isinstance(v, str)]
    if op in ("div", "mod"):
        if len(ints) >= 2:
            if ints[1] == 0:
                return "zero-divisor"
            if ints[1] < 0:
                return "negative-divisor"
            if ints[0] < 0:
                return "negative-dividend"
        return "nonneg-args"
    if op == "^":
        if len(ints) >= 2:
            if ints[1] < 0:
                return "zero-base-negative-exponent" if ints[0] == 0 else "negative-exponent"
            if ints[0] == 0 and ints[1] == 0:
                return "zero-base-zero-exponent"
        return "nonneg-exponent"
    if op == "str.at" and strs and ints:
        s, i = strs[0], ints[0]
        if i < 0:
            return "index-negative"
        if i >= len(s):
            return "index-out-of-range"
        return "index-in-range" + ("" if str_class(s) in ("plain", "numeral") else "-" + str_class(s))
    if op == "str.substr" and strs and len(ints) >= 2:
        s, off, n = strs[0], ints[0], ints[1]
        if off < 0:
            return "negative-offset"
        if n < 0:
            return "negative-length"
        if off >= len(s) and s != "":
            return "offset-out-of-range"
        if off + n > len(s):
            return "length-overrun"
        return "in-range" + ("" if str_class(s) in ("plain", "numeral") else "-" + str_class(s))
    if op == "str.indexof" and len(strs) >= 2 and ints:
        s, t, i = strs[0], strs[1], ints[0]
        if i < 0:
            return "negative-start"
        if i > len(s):
            return "start-out-of-range"
        if t == "":
            return "empty-needle"
        return _merge_str_classes(strs)
    if op == "str.to_code" and strs:
        s = strs[0]
        if len(s) == 0:
            return "len-0"
        if len(s) > 1:
            return "len-gt-1"
        return "len-1" + ("" if str_class(s) in ("plain", "numeral") else "-" + str_class(s))
    if op == "str.from_code" and ints:
        n = ints[0]
        return "negative" if n < 0 else "above-max-char" if n > 0x2FFFF else "in-range" + ("" if 32 <= n < 127 else "-nonprintable-or-non-ascii")
    if op == "str.from_int" and ints:
        return "negative" if ints[0] < 0 else "nonneg"
    if op in ("str.to.int", "str.to_int") and strs:
        s = strs[0]
        if s[:1] in "+-" and s != "":
            return "signed-numeral"
        return "unsigned-zero-padded-numeral" if len(s) > 1 and s.startswith("0") else "unsigned-numeral"
    if op in ("abs", "neg", "-", "+", "*", "<", "<=", ">", ">=") and ints and not strs:
        return "negative-arg" if any(i < 0 for i in ints) else "nonneg-args"
    if strs:
        return _merge_str_classes(strs)
    if ints:
        return "negative-arg" if any(i < 0 for i in ints) else "nonneg-args"
    return "bool-args" if vals else "nullary"


def spec_value(spec):
    """python value of a literal spec; regex / compound -> the spec itself"""
    if spec[0] in ("i", "s", "x"):
        return spec[1]
    if spec[0] == "b":
        return bool(spec[1])
    return spec


def is_regex_op(op: str) -> bool:
    return op.startswith("re.") or op.startswith("(_ re.") or op == "str.to_re"


# --------------------------------------------------------------------------- #
# excluded inputs (pre-condition of the property)
# --------------------------------------------------------------------------- #

def excluded(spec) -> bool:
    """str.to.int applied to something that is not a literal optionally signed
    decimal numeral"""
    if is_lit(spec):
        return False
    if spec[0] in ("str.to.int", "str.to_int"):
        a = spec[1]
        if not (a[0] in ("s", "x") and NUM_RE.fullmatch(a[1])):
            return True
    return any(excluded(a) for a in spec[1:])


# --------------------------------------------------------------------------- #
# channels
# --------------------------------------------------------------------------- #

class _Watchdog(BaseException):
    pass


def _alarm(_sig, _frm):
    raise _Watchdog()


CASE_WATCHDOG_S = 60


def _tv(r) -> str:
    return "TRUE" if r.is_true() else "FALSE" if r.is_false() else "UNKNOWN"


def _exc_text(ex: BaseException) -> str:
    return f"{type(ex).__name__}: {str(ex)[:160]}"


def chan_is_valid(spec):
    """returns (expected, got, detail) ; got in TRUE/FALSE/UNKNOWN/raises"""
    from isla.z3_helpers import is_valid
    e = build(spec)
    expected = z3_truth(e)
    try:
        got = _tv(is_valid(e))
        detail = ""
    except _Watchdog:
        raise
    except Exception as ex:  # noqa
        got, detail = "raises", _exc_text(ex)
    return expected, got, detail


def mark_var(spec):
    """replace the first string literal (pre-order) by the variable marker"""
    done = [False]

    def go(s):
        if done[0]:
            return s
        if s[0] == "s":
            done[0] = True
            return ["x", s[1]]
        if is_lit(s):
            return s
        return [s[0]] + [go(a) for a in s[1:]]

    out = go(spec)
    return out if done[0] else None


def var_value(spec) -> Optional[str]:
    if spec[0] == "x":
        return spec[1]
    if is_lit(spec):
        return None
    for a in spec[1:]:
        v = var_value(a)
        if v is not None:
            return v
    return None


class Inexpressible(Exception):
    pass


def isla_text(spec) -> str:
    """concrete ISLa syntax (S-expression form) of an atom spec"""
    tag = spec[0]
    if tag == "i":
        return str(spec[1])
    if tag == "b":
        return "true" if spec[1] else "false"
    if tag == "x":
        return "<x>"
    if tag == "s":
        s = spec[1]
        if any(not (32 <= ord(c) < 127) or c == "\\" for c in s):
            raise Inexpressible("string literal needs an escape the ISLa lexer does not pass to Z3 unchanged")
        return '"' + s.replace('"', '\\"') + '"'
    if tag == "not":
        raise Inexpressible("'not' is a formula-level keyword, not an S-expression operator")
    if tag == "neg":
        raise Inexpressible("internal")
    if tag.startswith("re.loop-args:"):
        _, lo, hi = tag.split(":")
        return "(re.loop " + " ".join(isla_text(a) for a in spec[1:]) + f" {lo} {hi})"
    if len(spec) == 1:
        return tag
    return "(" + tag + " " + " ".join(isla_text(a) for a in spec[1:]) + ")"


def _tree_for(s: str):
    from isla.derivation_tree import DerivationTree
    return DerivationTree("<start>", (DerivationTree("<x>", (DerivationTree(s, ()),)),))


def chan_evaluate(spec):
    """evaluate() of the single-atom constraint on the grammar
    <start> ::= <x>, <x> ::= s.  The expected verdict is Z3's verdict on the
    SMT formula ISLa parsed, with its variable replaced by StringVal(s).
    returns (expected, got, detail) or raises Inexpressible"""
    z3 = _z3()
    import isla.language as L
    from isla.evaluator import evaluate
    s = var_value(spec)
    if s is None:
        s = "a"
    if "<" in s or ">" in s:
        raise Inexpressible("string not derivable in a grammar terminal")
    text = isla_text(spec)
    grammar = {"<start>": ["<x>"], "<x>": [s]}
    try:
        with contextlib.redirect_stderr(io.StringIO()):
            formula = L.parse_isla(text, grammar)
    except _Watchdog:
        raise
    except BaseException as ex:  # SyntaxError, ParseCancellation, ...
        raise Inexpressible("parse_isla: " + _exc_text(ex))
    inner = formula
    depth = 0
    while hasattr(inner, "inner_formula") and depth < 3:
        inner = inner.inner_formula
        depth += 1
    if not isinstance(inner, L.SMTFormula):
        raise Inexpressible("parsed formula is not a single SMT atom: " + type(inner).__name__)
    ground = inner.formula
    fv = list(inner.free_variables())
    if fv:
        ground = z3.substitute(ground, *[(v.to_smt(), z3.StringVal(s)) for v in fv])
    intended = build(spec)
    as_intended = bool(z3.AstRef.eq(ground, intended))
    expected = z3_truth(ground)
    try:
        got = _tv(evaluate(formula, _tree_for(s), grammar))
        detail = ""
    except _Watchdog:
        raise
    except Exception as ex:  # noqa
        got, detail = "raises", _exc_text(ex)
    detail = (detail + f" [constraint: {text}]" + ("" if as_intended else " [parsed atom differs from the intended one: " + ground.sexpr()[:120] + "]")).strip()
    return expected, got, detail


def chan_substitute(spec):
    """SMTFormula(atom[x], x).substitute_expressions({x: tree of s}) -- the
    automatic evaluation of ground formulas (language.py ~1575-1580)"""
    z3 = _z3()
    import isla.language as L
    from isla.derivation_tree import DerivationTree
    s = var_value(spec)
    expected = z3_truth(build(spec))
    try:
        if s is None:
            f = L.SMTFormula(build(spec))
            res = f.substitute_expressions({})
        else:
            var = L.BoundVariable("x", "<x>")
            f = L.SMTFormula(build(spec, var=z3.String("x")), var)
            tree = DerivationTree("<x>", (DerivationTree(s, ()),))
            res = f.substitute_expressions({var: tree})
        if z3.is_true(res.formula):
            got = "TRUE"
        elif z3.is_false(res.formula):
            got = "FALSE"
        else:
            got = "UNKNOWN"
        detail = "" if got != "UNKNOWN" else "result not ground: " + res.formula.sexpr()[:100]
    except _Watchdog:
        raise
    except Exception as ex:  # noqa
        got, detail = "raises", _exc_text(ex)
    return expected, got, detail


CHANNELS = {"is_valid": chan_is_valid, "evaluate": chan_evaluate,
            "substitute": chan_substitute}


def run_atom(channel: str, spec):
    """-> (status, expected, got, detail); status ok|violation-wrong|
    violation-raises|inconclusive|inexpressible"""
    signal.signal(signal.SIGALRM, _alarm)
    signal.setitimer(signal.ITIMER_REAL, CASE_WATCHDOG_S)
    try:
        try:
            expected, got, detail = CHANNELS[channel](spec)
        except Inexpressible as ex:
            return "inexpressible", None, None, str(ex)
    except _Watchdog:
        return "inconclusive", None, None, "watchdog expired"
    finally:
        signal.setitimer(signal.ITIMER_REAL, 0)
        # ISLa's z3_solve leaves this global Z3 parameter toggled after an
        # `unknown`; threads in a forked worker are not wanted
        _z3().set_param("parallel.enable", False)
    if got == "raises" and expected is None and (detail or "").startswith("AssertionError"):
        # Z3 (the oracle's call and ISLa's own) has no verdict for this atom and
        # ISLa's to_bool() assertion on the UNKNOWN result fires: there is no "Z3's
        # truth value" to return, the property does not speak about this case
        return "inconclusive", expected, got, "Z3 answers unknown; ISLa asserts on the unknown verdict: " + detail
    if got == "raises":
        return "violation-raises", expected, got, detail
    if expected is None:
        return "inconclusive", expected, got, "Z3 (oracle) answers unknown"
    if got == "UNKNOWN":
        return "inconclusive", expected, got, "ISLa answers UNKNOWN although the oracle's Z3 call decided (timing): " + detail
    if (got == "TRUE") != expected:
        return "violation-wrong", expected, got, detail
    return "ok", expected, got, detail


_MISMATCH_MEMO: Dict[str, Optional[str]] = {}


def failure_kind(status: str, detail: Optional[str]) -> Optional[str]:
    """None (no violation) | 'wrong' | 'raises:<ExceptionType>'"""
    if status == "violation-wrong":
        return "wrong"
    if status == "violation-raises":
        return "raises:" + (detail or "").split(":")[0]
    return None


def mismatch(channel: str, spec, kind: Optional[str] = None) -> bool:
    """does the atom violate the contract (in the same way as `kind`)?"""
    k = channel + "|" + json.dumps(spec)
    if k not in _MISMATCH_MEMO:
        if len(_MISMATCH_MEMO) > 200000:
            _MISMATCH_MEMO.clear()
        st, _e, _g, det = run_atom(channel, spec)
        _MISMATCH_MEMO[k] = failure_kind(st, det)
    got = _MISMATCH_MEMO[k]
    return got is not None and (kind is None or got == kind)


# --------------------------------------------------------------------------- #
# attribution of a failing atom to a minimal operator application
# --------------------------------------------------------------------------- #

def candidates_for(term_spec, n_eq: int = 2, with_le: bool = False) -> List[Any]:
    """atoms  term = c  for candidate values c (Z3's value, a neighbour, a
    fixed constant); the term itself when Boolean"""
    t = build(term_spec)
    letter = _sort_letter(t)
    if letter == "B":
        return [term_spec]
    v = zval(t)
    out: List[Any] = []
    if letter in ("I", "Q"):
        cands: List[Any] = []
        if v is not None and v[0] == "i":
            cands += [v[1], v[1] + 1]
        cands += [0, -1]
        seen = []
        for c in cands:
            if c not in seen:
                seen.append(c)
        out = [["=", term_spec, ["i", c]] for c in seen[:n_eq]]
        if v is not None and v[0] == "i" and letter == "I" and with_le:
            out.append(["<=", term_spec, ["i", v[1]]])
    elif letter == "S":
        cands = []
        if v is not None and v[0] == "s":
            cands += [v[1], v[1] + "a"]
        cands += [""]
        seen = []
        for c in cands:
            if c not in seen:
                seen.append(c)
        out = [["=", term_spec, ["s", c]] for c in seen[:n_eq]]
    return out


def subterms_postorder(spec, acc=None):
    if acc is None:
        acc = []
    if is_lit(spec):
        return acc
    for a in spec[1:]:
        subterms_postorder(a, acc)
    acc.append(spec)
    return acc


def _regex_size(spec) -> int:
    return 1 if is_lit(spec) else 1 + sum(_regex_size(a) for a in spec[1:])


def _substrings(s: str) -> List[str]:
    out = []
    for n in range(0, len(s) + 1):
        for i in range(0, len(s) - n + 1):
            if s[i:i + n] not in out:
                out.append(s[i:i + n])
    return out


def _flatten_value_term(channel: str, t):
    """t with every non-regex compound argument replaced by Z3's value of it;
    None if some argument has no value"""
    new = [t[0]]
    for a in t[1:]:
        if is_lit(a) or is_regex_op(a[0]):
            new.append(a)
        else:
            v = zval(build(a))
            if v is None or v[0] == "q":
                return None
            new.append(v)
    return new


def attribute(channel: str, atom, kind: Optional[str] = None) -> Tuple[str, Any]:
    """(operator:class, minimal failing atom) for a failing atom"""
    # 1. regex membership: smallest (regex subterm, substring of the subject or
    #    piece of the subterm) that fails in the same way
    if atom[0] == "str.in_re" and is_lit(atom[1]):
        subj_tag, subj = atom[1][0], atom[1][1]
        a_sig = _anchor_rule(channel, atom, kind)
        if a_sig:
            return a_sig, atom
        rsubs = [t for t in subterms_postorder(atom[2]) if is_regex_op(t[0])]
        rsubs.sort(key=_regex_size)
        for r in rsubs:
            subjects = _substrings(subj)
            for piece in regex_pieces(r):
                for w in (piece, piece + piece):
                    if w not in subjects and len(w) <= 4:
                        subjects.append(w)
            if r == atom[2]:
                continue
            for s2 in subjects:
                cand = ["str.in_re", [subj_tag, s2], r]
                if mismatch(channel, cand, kind):
                    return attribute(channel, cand, kind)   # smallest failing subterm: classify it
        # second pass: a proper subterm that is mis-evaluated in any way
        # (e.g. it raises on its own, and silently corrupts the pattern here)
        for r in (rsubs if kind == "wrong" else []):
            if r == atom[2]:
                continue
            cand = ["str.in_re", [subj_tag, ""], r]
            mismatch(channel, cand, None)
            if (_MISMATCH_MEMO.get(channel + "|" + json.dumps(cand)) or "").startswith("raises"):
                return _regex_sig(r, "") + ":in-context", atom
        # the whole regex, with the shortest substring of the subject that fails
        for s2 in _substrings(subj):
            cand = ["str.in_re", [subj_tag, s2], atom[2]]
            if s2 != subj and mismatch(channel, cand, kind):
                return (_anchor_rule(channel, cand, kind) or _regex_sig(atom[2], s2)), cand
        return _regex_sig(atom[2], subj), atom
    # 2. smallest operator application (arguments replaced by Z3's values) that
    #    fails in the same way; second pass: that fails in any way (e.g. a
    #    str.to.int value that makes an enclosing mod raise)
    subs = subterms_postorder(atom)
    for any_kind in (False, True):
        for t in subs:
            if is_regex_op(t[0]):
                continue
            flat = _flatten_value_term(channel, t)
            if flat is None or excluded(flat):
                continue
            if t is atom and flat == atom:
                continue
            if channel != "is_valid" and var_value(flat) is None and var_value(atom) is not None:
                m = mark_var(flat)
                flat2 = m if m is not None else flat
            else:
                flat2 = flat
            for cand in ([flat2] if t is atom else candidates_for(flat2)):
                if not mismatch(channel, cand, None if any_kind else kind):
                    continue
                if flat2[0] == "str.in_re" and is_lit(flat2[1]):
                    sig = attribute(channel, cand, _MISMATCH_MEMO.get(channel + "|" + json.dumps(cand)))[0]
                else:
                    sig = op_name(flat2[0]) + ":" + arg_class(flat2[0], [spec_value(a) for a in flat2[1:]])
                return (sig + ":in-context", atom) if any_kind else (sig, cand)
    top = atom
    # the wrapper "term = c" itself: classify by the term when its args are literals
    if top[0] in ("=", "<=") and not is_lit(top[1]) and all(is_lit(a) or is_regex_op(a[0]) for a in top[1][1:]) and is_lit(top[2]):
        t = top[1]
        return op_name(t[0]) + ":" + arg_class(t[0], [spec_value(a) for a in t[1:]]), atom
    if all(is_lit(a) or is_regex_op(a[0]) for a in top[1:]):
        return op_name(top[0]) + ":" + arg_class(top[0], [spec_value(a) for a in top[1:]]), atom
    return "composite:" + op_name(top[0]), atom


def _anchor_rule(channel: str, atom, kind: Optional[str]) -> Optional[str]:
    """the `$` anchor: s = w + newline is accepted exactly because w is a
    member (ISLa TRUE, Z3 not valid; both agree that w is a member)"""
    subj_tag, subj = atom[1][0], atom[1][1]
    if kind != "wrong" or not subj.endswith("\n"):
        return None
    st, exp, got, _d = run_atom(channel, atom)
    chopped = ["str.in_re", [subj_tag, subj[:-1]], atom[2]]
    st2, exp2, _got2, _d2 = run_atom(channel, chopped)
    if exp is False and got == "TRUE" and st2 == "ok" and exp2 is True:
        return "str.in_re:subject-is-member-plus-trailing-newline"
    return None


def _regex_sig(r, subj: str) -> str:
    sig = op_name(r[0]) + ":" + regex_op_class(r)
    sc = subject_class(subj) if r[0] in ("re.all", "re.allchar", "re.comp") else ""
    return sig + (":" + sc if sc else "")


# --------------------------------------------------------------------------- #
# case generation
# --------------------------------------------------------------------------- #

def I(n):
    return ["i", n]


def S(s):
    return ["s", s]


def B(b):
    return ["b", b]


def family_i_terms(tier: str) -> List[Any]:
    """operator applications over literal arguments (terms, not yet atoms)"""
    thorough = tier == "thorough"
    T: List[Any] = []
    ints = INTS
    # arithmetic
    few = ints if thorough else [-7, -2, -1, 0, 1, 2, 7]
    for op in ("+", "-", "*", "div", "mod"):
        dom = ints if op in ("div", "mod") else few
        for a in dom:
            for b in dom:
                T.append([op, I(a), I(b)])
    for a in range(-3, 4):
        for b in range(-2, 4):
            T.append(["^", I(a), I(b)])
    for a in ints:
        T.append(["abs", I(a)])
        T.append(["-", I(a)])
    tri = [(-7, 2, 0), (1, 2, 3), (0, 0, 0), (-1, -2, -3), (7, -7, 1)]
    for op in ("+", "*", "-"):
        for a, b, c in tri:
            T.append([op, I(a), I(b), I(c)])
    # comparisons
    cmp_ints = ints if thorough else [-7, -1, 0, 1, 2, 7]
    for op in ("<", "<=", ">", ">=", "=", "distinct"):
        for a in cmp_ints:
            for b in cmp_ints:
                T.append([op, I(a), I(b)])
    # Booleans
    for a in (True, False):
        T.append(["not", B(a)])
        for b in (True, False):
            for op in ("and", "or", "=>", "xor", "=", "distinct"):
                T.append([op, B(a), B(b)])
            for c in (True, False):
                T.append(["and", B(a), B(b), B(c)])
                T.append(["or", B(a), B(b), B(c)])
                T.append(["ite", B(a), B(b), B(c)])
            T.append(["ite", B(a), I(1), I(2)])
            T.append(["ite", B(a), S("a\nb"), S("")])
    # strings
    for s in STRS:
        T.append(["str.len", S(s)])
        T.append(["str.to_code", S(s)])
        T.append(["str.is_digit", S(s)])
        for i in range(-2, len(s) + 2):
            T.append(["str.at", S(s), I(i)])
            for n in range(-1, len(s) + 2):
                T.append(["str.substr", S(s), I(i), I(n)])
        for t in STRS:
            for op in ("str.++", "str.prefixof", "str.suffixof", "str.contains",
                       "str.<", "str.<=", "=", "distinct"):
                T.append([op, S(s), S(t)])
    T.append(["str.++", S("a"), S("\n"), S('"')])
    idx_strs = STRS if thorough else ["", "a", "ab", "a\nb", "ä", "007"]
    for s in idx_strs:
        for t in idx_strs:
            for i in range(-2, len(s) + 2):
                T.append(["str.indexof", S(s), S(t), I(i)])
    rep_strs = STRS if thorough else STRS_SMALL
    for s in rep_strs:
        for t in rep_strs:
            for u in rep_strs:
                T.append(["str.replace", S(s), S(t), S(u)])
                T.append(["str.replace_all", S(s), S(t), S(u)])
    for s in NUMERALS:
        T.append(["str.to.int", S(s)])
        T.append(["str.to_int", S(s)])
    for n in ints + [10, 12, 100, -100]:
        T.append(["str.from_int", I(n)])
    for n in CODES:
        T.append(["str.from_code", I(n)])
    return T


# typed operator table for random compositions: op -> (arg sorts, result sort)
OP_TABLE = [
    ("+", "II", "I"), ("-", "II", "I"), ("*", "II", "I"), ("div", "II", "I"),
    ("mod", "II", "I"), ("abs", "I", "I"), ("-", "I", "I"),
    ("<", "II", "B"), ("<=", "II", "B"), (">", "II", "B"), (">=", "II", "B"),
    ("=", "II", "B"), ("=", "SS", "B"), ("distinct", "II", "B"), ("distinct", "SS", "B"),
    ("not", "B", "B"), ("and", "BB", "B"), ("or", "BB", "B"), ("=>", "BB", "B"),
    ("xor", "BB", "B"), ("ite", "BII", "I"), ("ite", "BSS", "S"), ("ite", "BBB", "B"),
    ("str.len", "S", "I"), ("str.++", "SS", "S"), ("str.at", "SI", "S"),
    ("str.substr", "SII", "S"), ("str.prefixof", "SS", "B"), ("str.suffixof", "SS", "B"),
    ("str.contains", "SS", "B"), ("str.indexof", "SSI", "I"), ("str.replace", "SSS", "S"),
    ("str.to.int", "N", "I"), ("str.from_int", "I", "S"), ("str.to_code", "S", "I"),
    ("str.from_code", "I", "S"), ("str.<", "SS", "B"), ("str.<=", "SS", "B"),
    ("str.in_re", "SR", "B"),
]
SMALL_REGEXES = [["str.to_re", S("a")], ["re.*", ["str.to_re", S("ab")]],
                 ["re.+", ["re.range", S("0"), S("9")]],
                 ["re.union", ["str.to_re", S("-12")], ["str.to_re", S("")]],
                 ["re.++", ["re.opt", ["str.to_re", S("-")]], ["re.+", ["re.range", S("0"), S("9")]]]]


def gen_term(rng: random.Random, sort: str, depth: int):
    if sort == "N":
        return S(rng.choice(NUMERALS))
    if sort == "R":
        return rng.choice(SMALL_REGEXES)
    if depth == 0:
        if sort == "I":
            return I(rng.choice(INTS))
        if sort == "S":
            return S(rng.choice(STRS))
        return B(rng.choice([True, False]))
    ops = [o for o in OP_TABLE if o[2] == sort]
    op, args, _ = rng.choice(ops)
    return [op] + [gen_term(rng, a, rng.choice([0, depth - 1]) if i else depth - 1)
                   for i, a in enumerate(args)]


def regex_leaves() -> List[Any]:
    L = [["str.to_re", S(b)] for b in BODIES]
    L += [["re.range", S(a), S(b)] for a, b in RANGES]
    L += [["re.all"], ["re.allchar"], ["re.none"]]
    return L


UNARY_RE = ["re.*", "re.+", "re.opt", "re.comp"] + \
    [f"(_ re.loop {lo} {hi})" for lo, hi in LOOPS] + ["re.loop-args:1:2", "(_ re.^ 2)"]
BINARY_RE = ["re.++", "re.union", "re.inter", "re.diff"]


def gen_regex(rng: random.Random, depth: int, leaves: List[Any]):
    if depth == 0:
        return rng.choice(leaves)
    if rng.random() < 0.5:
        return [rng.choice(UNARY_RE), gen_regex(rng, depth - 1, leaves)]
    a = gen_regex(rng, depth - 1, leaves)
    b = gen_regex(rng, rng.randrange(0, depth), leaves)
    if rng.random() < 0.5:
        a, b = b, a
    return [rng.choice(BINARY_RE), a, b]


def regex_pieces(r, acc=None) -> List[str]:
    """literals of the regex and the bound / middle characters of its ranges"""
    if acc is None:
        acc = []
    if r[0] == "s":
        if r[1] not in acc:
            acc.append(r[1])
        return acc
    if is_lit(r):
        return acc
    if r[0] == "re.range" and is_lit(r[1]) and is_lit(r[2]):
        lo, hi = r[1][1], r[2][1]
        cs = [lo, hi]
        if len(lo) == 1 and len(hi) == 1 and ord(lo) + 1 < ord(hi):
            cs.append(chr((ord(lo) + ord(hi)) // 2))
        for c in cs:
            if c not in acc:
                acc.append(c)
        return acc
    for a in r[1:]:
        regex_pieces(a, acc)
    return acc


def subjects_for(r, rng: Optional[random.Random], n: int) -> List[str]:
    """subjects <= 4 characters: likely members (pieces and their
    concatenations), members followed by a newline, foreign characters.
    Deterministic prefix of an ordered pool when rng is None."""
    pieces = regex_pieces(r)
    pool: List[str] = [""]

    def add(w: str):
        if len(w) <= 4 and w not in pool:
            pool.append(w)

    for p in pieces:
        add(p)
    for p in pieces:
        add(p + "\n")
    for p in pieces:
        add(p + p)
    for w in ("a", "\n", "b", "a\nb", "ab"):
        add(w)
    for p in pieces:
        for q in pieces:
            add(p + q)
            add(p + q + p)
    for p in pieces:
        add("\n" + p)
        add(p + p + "\n")
        add(p + p + p)
        add(p + "a")
    for w in ("a\n", "\na", "axb", "aa", "abab", "\\", "ä", "\\n", "^", "]", "-", '"', "\t", "c", "\n\n"):
        add(w)
    if rng is None or len(pool) <= n:
        return pool[:n]
    head = pool[:max(2, n // 2)]
    rest = pool[len(head):]
    return head + rng.sample(rest, min(len(rest), n - len(head)))


# --------------------------------------------------------------------------- #
# worker
# --------------------------------------------------------------------------- #

def _record(channel: str, atom, family: str) -> Dict[str, Any]:
    status, expected, got, detail = run_atom(channel, atom)
    rec: Dict[str, Any] = {"ch": channel, "k": channel + " " + show(atom), "st": status, "fam": family}
    trivial = atom[0] == "b"
    rec["nt"] = not trivial
    if detail and "parsed atom differs" in detail:
        rec["pd"] = True
    if status == "ok":
        rec["exp"] = expected
        return rec
    rec["exp"], rec["got"], rec["detail"] = expected, got, detail
    if status.startswith("violation"):
        try:
            signal.setitimer(signal.ITIMER_REAL, 4 * CASE_WATCHDOG_S)
            cls, minimal = attribute(channel, atom, failure_kind(status, detail))
        except _Watchdog:
            cls, minimal = "unattributed:" + op_name(atom[0]), atom
        finally:
            signal.setitimer(signal.ITIMER_REAL, 0)
        mstatus, mexp, mgot, mdetail = run_atom(channel, minimal)
        if not mstatus.startswith("violation"):
            minimal, mstatus, mexp, mgot, mdetail = atom, status, expected, got, detail
        if mstatus == "violation-raises" and mexp is None and mdetail.startswith("AssertionError"):
            cls = "z3-unknown-verdict"
        rec["sig"] = channel + ":" + cls + (":raises" if mstatus == "violation-raises" else "")
        rec["atom"] = atom
        rec["min"] = minimal
        rec["what"] = (f"{channel} on {show(minimal)}: Z3 says "
                       f"{'valid' if mexp else 'not valid' if mexp is not None else 'unknown'}, ISLa "
                       f"{'raises ' + mdetail if mgot == 'raises' else 'answers ' + str(mgot)}"
                       + (f" {mdetail}" if mgot != "raises" and mdetail else ""))
    return rec


THOROUGH = False  # set in run() before the pool forks


def work(task) -> List[Dict[str, Any]]:
    """task = (kind, payload, channels, family)"""
    import warnings
    warnings.filterwarnings("ignore")
    import isla.language  # noqa: F401  (the structural-equality patch of z3 is part of the system under test)
    kind, payload, channels, family = task
    out: List[Dict[str, Any]] = []
    try:
        if kind == "term":
            atoms = [] if excluded(payload) else candidates_for(payload, 3 if THOROUGH else 2, THOROUGH)
        elif kind == "atom":
            atoms = [] if excluded(payload) else [payload]
        else:  # regex: payload = (regex spec, subjects)
            r, subs = payload
            atoms = [["str.in_re", S(s), r] for s in subs]
    except Exception as ex:  # building failed: Z3 rejects the term
        return [{"ch": "-", "k": "build " + show(payload if kind != "regex" else payload[0]), "st": "unbuildable",
                 "detail": _exc_text(ex), "fam": family, "nt": False}]
    for n, atom in enumerate(atoms):
        for ch in channels:
            if ch != "is_valid" and not THOROUGH and ((kind == "term" and n > 0) or (kind == "regex" and n >= 5)):
                continue  # quick tier: the other channels see the first atom of a term / the first 5 subjects
            a = atom
            if ch in ("evaluate", "substitute"):
                m = mark_var(atom)
                a = m if m is not None else atom
            out.append(_record(ch, a, family))
    return out


def _quiet_worker():
    """Z3 prints `(incomplete (theory seq))` and ISLa logs `could not be
    decided` on stderr for every undecided query: keep the driver output clean"""
    import os
    import logging
    logging.disable(logging.CRITICAL)
    devnull = os.open(os.devnull, os.O_WRONLY)
    os.dup2(devnull, 2)


def work_chunk(tasks) -> List[Dict[str, Any]]:
    out: List[Dict[str, Any]] = []
    for t in tasks:
        out.extend(work(t))
    return out


# --------------------------------------------------------------------------- #
# driver
# --------------------------------------------------------------------------- #

def replace_re_atoms(tier: str) -> List[Any]:
    """str.replace_re / str.replace_re_all: this Z3 neither simplifies nor
    solves them on ground arguments (`incomplete (theory seq)`), every atom
    costs ISLa's 20 solver retries; only a handful is included."""
    a = ["str.to_re", S("a")]
    out = [["=", ["str.replace_re", S("ab"), a, S("")], S("b")],
           ["=", ["str.replace_re_all", S("a\nb"), ["re.allchar"], S("x")], S("xxx")]]
    if tier == "thorough":
        for s in STRS_SMALL:
            out.append(["=", ["str.replace_re", S(s), ["re.*", a], S("\n")], S(s)])
            out.append(["=", ["str.replace_re_all", S(s), ["re.range", S("a"), S("b")], S("")], S("")])
    return out


def make_tasks(tier: str, seed: int) -> List[Any]:
    rng = random.Random(seed * 7919 + 5)
    thorough = tier == "thorough"
    tasks: List[Any] = []
    all_ch = ("is_valid", "evaluate", "substitute")
    for k, atom in enumerate(replace_re_atoms(tier)):
        tasks.append(("atom", atom, all_ch if k == 0 else ("is_valid",), "i-operators-replace_re"))
    # (i) operators x critical sets
    for t in family_i_terms(tier):
        tasks.append(("term", t, all_ch, "i-operators"))
    # (i-b) random compositions
    n_comp = 12000 if thorough else 1000
    for k in range(n_comp):
        atom = gen_term(rng, "B", rng.choice([2, 2, 3]))
        tasks.append(("atom", atom, all_ch if k % 4 == 0 else ("is_valid",), "i-compositions"))
    # (ii) regexes: a deterministic part (all leaves, every unary operator over
    # every leaf, every binary operator over representative leaves, fixed
    # subjects) and a seeded random part of depth 2 and 3
    leaves = regex_leaves()
    rep_leaves = [["str.to_re", S("a")], ["str.to_re", S("ab")], ["str.to_re", S("")],
                  ["str.to_re", S("\n")], ["re.range", S("a"), S("b")],
                  ["re.range", S("\\"), S("]")], ["re.all"], ["re.allchar"], ["re.none"]]
    det: List[Any] = list(leaves)
    for u in UNARY_RE:
        for l in leaves:
            det.append([u, l])
    for b in BINARY_RE:
        for x in (leaves if thorough else rep_leaves):
            for y in (leaves if thorough else rep_leaves):
                det.append([b, x, y])
    a_, ab_ = ["str.to_re", S("a")], ["str.to_re", S("ab")]
    bodies2 = [["re.++", a_, ["str.to_re", S("b")]], ["re.union", a_, ab_], ["re.*", a_], ["re.opt", a_],
               ["(_ re.loop 1 2)", a_], ["re.comp", a_], ["re.inter", a_, ab_],
               ["re.++", ["re.range", S("a"), S("b")], ["re.all"]]]
    det2 = [[u, b] for u in UNARY_RE for b in bodies2]
    # loops whose own pattern is broken, placed after another element
    det2 += [["re.++", pre, [u, ["str.to_re", S(e)]]] for u in UNARY_RE if "loop" in u
             for pre in (a_, ["re.range", S("a"), S("b")]) for e in ("", "ab")]
    for k, r in enumerate(det):
        subs = subjects_for(r, None, 12 if thorough else 8)
        chans = all_ch if (k < len(leaves) * (1 + len(UNARY_RE)) or k % (2 if thorough else 3) == 0) else ("is_valid",)
        tasks.append(("regex", (r, subs), chans, "ii-regex"))
    for r in det2:
        tasks.append(("regex", (r, subjects_for(r, None, 14 if thorough else 9)), all_ch, "ii-regex"))
    rnd: List[Any] = []
    for _ in range(3000 if thorough else 220):
        rnd.append(gen_regex(rng, 2, leaves))
    for _ in range(3000 if thorough else 180):
        rnd.append(gen_regex(rng, 3, leaves))
    for k, r in enumerate(rnd):
        subs = subjects_for(r, rng, 12 if thorough else 7)
        chans = all_ch if k % (8 if thorough else 4) == 0 else ("is_valid",)
        tasks.append(("regex", (r, subs), chans, "ii-regex-random"))
    return tasks


def _sanity(rep) -> None:
    import isla.language  # noqa: F401
    one_plus_one = ["=", ["+", I(1), I(1)], I(2)]
    wrong = ["=", ["+", I(1), I(1)], I(3)]
    div0 = ["=", ["div", I(1), I(0)], I(0)]
    got = [z3_truth(build(one_plus_one)), z3_truth(build(wrong)), z3_truth(build(div0))]
    if got != [True, False, False]:
        rep.checker_error(f"oracle sanity: z3_truth on 1+1=2, 1+1=3, (div 1 0)=0 gives {got}, expected [True, False, False]")
    st = run_atom("is_valid", one_plus_one)[0]
    if st != "ok":
        rep.checker_error(f"sanity: is_valid(1+1=2) is judged {st}")
    # the judge must flag a deliberately wrong evaluator
    CHANNELS["_always_true"] = lambda spec: (z3_truth(build(spec)), "TRUE", "")
    try:
        st = run_atom("_always_true", wrong)[0]
    finally:
        del CHANNELS["_always_true"]
    if st != "violation-wrong":
        rep.checker_error("sanity: an evaluator answering TRUE on 1+1=3 is not flagged")
    # z3.simplify and the solver agree on a known regex membership
    a = ["str.in_re", S("abab"), ["re.*", ["str.to_re", S("ab")]]]
    if z3_truth(build(a)) is not True or z3_solver_truth(build(a)) is not True:
        rep.checker_error("oracle sanity: 'abab' in (ab)* not valid for Z3")


HISTORY_TEMPLATES = [
    # (name, SMT-LIB atom over the string variables w and l)
    ("in_re-plus-of-variable", '(str.in_re w (re.+ (str.to_re l)))'),
    ("in_re-variable-then-any", '(str.in_re w (re.++ (str.to_re l) (re.* re.allchar)))'),
    ("in_re-union-with-variable", '(str.in_re w (re.union (str.to_re l) (str.to_re "ab")))'),
    ("in_re-opt-variable-variable", '(str.in_re w (re.++ (re.opt (str.to_re l)) (str.to_re l)))'),
    ("concat-equals", '(= (str.++ w l) "aaa")'),
    ("length-compare", '(> (str.len w) (str.len l))'),
    ("at-equals-variable", '(= (str.at w 0) l)'),
    ("substr-equals-variable", '(= (str.substr w 1 1) l)'),
]


def history_family(rep) -> None:
    """family iii (histories): ONE parametric atom (a variable inside the regular expression / in several argument
    positions) is decided for a sequence of different instantiations in one process, in two orders -- the fast
    path keeps closures per atom (lru_cache on evaluate_z3_expression), so a verdict must not depend on what was
    evaluated before.  Oracle: Z3 on the ground instance."""
    import z3
    import isla.language as L
    from isla.evaluator import evaluate
    from isla.derivation_tree import DerivationTree
    ws, ls = ["aa", "bb", "ab", "a"], ["a", "b"]
    grammar = {"<start>": ["<w>;<l>"], "<w>": ws, "<l>": ls}

    def tree(w, l):
        return DerivationTree("<start>", (DerivationTree("<w>", (DerivationTree(w, ()),)), DerivationTree(";", ()),
                                          DerivationTree("<l>", (DerivationTree(l, ()),))))
    n = 0
    for name, atom in HISTORY_TEMPLATES:
        text = f"forall <w> w in start: forall <l> l in start: {atom}"
        try:
            with contextlib.redirect_stderr(io.StringIO()):
                formula = L.parse_isla(text, grammar)
        except BaseException as ex:  # noqa
            rep.note_inconclusive(f"history family: parse_isla rejects {text!r}: {_exc_text(ex)}")
            continue
        combos = [(w, l) for w in ws for l in ls]
        for order_name, order in (("forward", combos), ("backward", list(reversed(combos)))):
            for w, l in order:
                decls = "(declare-const w String)(declare-const l String)"
                ground = z3.parse_smt2_string(f"{decls}(assert {atom})")[0]
                ground = z3.substitute(ground, (z3.String("w"), z3.StringVal(w)), (z3.String("l"), z3.StringVal(l)))
                expected = z3_truth(ground)
                try:
                    got = _tv(evaluate(formula, tree(w, l), grammar))
                    detail = ""
                except Exception as ex:  # noqa
                    got, detail = "raises", _exc_text(ex)
                n += 1
                rep.case(key=("history", name, order_name, w, l), nontrivial=True,
                         sample=dict(family="history", atom=atom, w=w, l=l, order=order_name) if n <= 2 else None)
                if expected is None:
                    rep.note_inconclusive(f"history family: oracle undecided on {atom} w={w!r} l={l!r}")
                    continue
                want = "TRUE" if expected else "FALSE"
                if got != want:
                    rep.violation(f"evaluate:history:{name}:{'raises' if got == 'raises' else 'verdict-depends-on-earlier-evaluations-or-wrong'}",
                                  f"evaluate({text!r}) on {w};{l} after the {order_name} sequence of instantiations: ISLa {got} "
                                  f"{detail}, Z3 says {want} for the ground atom",
                                  dict(module=MODULE, case=dict(family="history", atom=atom, text=text, w=w, l=l,
                                                                order=[list(x) for x in order[:order.index((w, l)) + 1]]),
                                       expected=want, got=got, detail=detail))
    rep.section("C05.history", evaluations=n, templates=len(HISTORY_TEMPLATES))


def run(rep, tier, seed):
    import warnings
    warnings.filterwarnings("ignore")
    import z3
    rep.assume(f"oracle: Z3 {z3.get_version_string()} of the repo's venv (z3.simplify to a Boolean value, else "
               f"Solver.check(Not(e)) with {ORACLE_TIMEOUT_MS} ms); 'valid' = Not(e) unsat, so atoms over terms Z3 leaves "
               "uninterpreted (x div 0, x mod 0, 0^0) are 'not valid' whatever constant they are compared with")
    rep.assume("excluded by the property statement: atoms that apply str.to.int/str.to_int to anything but a literal "
               "optionally signed decimal numeral ([+-]?[0-9]+)")
    rep.assume("operator nodes come from Z3's SMT-LIB parser (as in ISLa), literal values from z3.IntVal/StringVal/BoolVal; "
               "z3.substitute is trusted not to rewrite")
    rep.assume("evaluate channel: expected verdict is Z3's verdict on the SMT formula parse_isla produced with its variable "
               "replaced by StringVal(derived string); constraints parse_isla rejects or that are not one SMT atom are "
               "skipped and counted as inexpressible (concrete-syntax fidelity belongs to C07/C08)")
    rep.assume("an ISLa UNKNOWN while the oracle call decided is counted inconclusive (is_valid uses a 500 ms Z3 timeout)")
    rep.rule("family i: every operator of IslaLanguage.g4 (+ - * div mod ^ abs, < <= > >= = distinct, not and or => xor ite, "
             "str.len str.++ str.at str.substr str.prefixof str.suffixof str.contains str.indexof str.replace "
             "str.replace_all str.replace_re str.replace_re_all str.is_digit str.to.int str.to_int str.from_int str.to_code "
             "str.from_code str.< str.<=) x argument tuples from the critical sets, atom = `term = c` for c in {Z3's value, "
             "value+1 / value++'a', 0 / -1 / ''} and `term <= value`, Boolean terms as they are; random typed compositions "
             "of depth 2-3; family ii: str.in_re of regex terms (str.to_re re.range re.loop (indexed and application form) "
             "re.^ re.++ re.* re.+ re.opt re.union re.inter re.diff re.comp re.all re.allchar re.none) x subjects; every "
             "family through is_valid, evaluate() and SMTFormula.substitute_expressions; a case is trivial only when the "
             "atom is the literal true/false")
    rep.bound("ints -7..7 (exponent base -3..3, exponent -2..3); strings " + json.dumps(STRS) +
              "; indices -2..len+1, lengths -1..len+1; numerals " + json.dumps(NUMERALS) + "; code points " + json.dumps(CODES) +
              "; regex depth <= 3 over bodies " + json.dumps(BODIES) + " and ranges " + json.dumps(RANGES) +
              "; subjects <= 4 characters; loops " + json.dumps(LOOPS))
    rep.exhaustive = False
    _sanity(rep)
    rep.rule("family iii (histories): parametric atoms with a variable inside the regular expression or in several "
             "argument positions, decided through evaluate() for all instantiations in sequence, forward and backward, in "
             "one process; expected verdict: Z3 on the ground instance")
    try:
        history_family(rep)
    except Exception as ex:  # noqa
        rep.checker_error("history family crashed: " + _exc_text(ex))

    global THOROUGH
    THOROUGH = tier == "thorough"
    tasks = make_tasks(tier, seed)
    chunk = 24
    def is_slow(t):  # Z3 answers unknown: ISLa retries 20 times
        return t[3].endswith("replace_re") or (t[0] == "term" and t[1] == ["^", I(0), I(0)])
    slow = [t for t in tasks if is_slow(t)]
    fast = [t for t in tasks if not is_slow(t)]
    chunks = [[t] for t in slow] + [fast[i:i + chunk] for i in range(0, len(fast), chunk)]
    counters: Dict[str, Dict[str, int]] = {}
    state = {"samples": 0}
    t0 = time.time()
    deadline = t0 + (2400 if tier == "thorough" else 900)   # safety net for an overloaded machine only

    def absorb(recs):
        for rec in recs:
            fam = rec["fam"] + "/" + rec["ch"]
            c = counters.setdefault(fam, {})
            c[rec["st"]] = c.get(rec["st"], 0) + 1
            st = rec["st"]
            if rec.get("pd"):
                c["parsed-atom-differs-from-intended"] = c.get("parsed-atom-differs-from-intended", 0) + 1
            if st in ("inexpressible", "unbuildable"):
                continue
            sample = None
            if state["samples"] < 12 and (st != "ok" or c.get("ok", 0) % 997 == 1):
                sample = {"case": rec["k"], "z3": rec.get("exp"), "status": st}
                state["samples"] += 1
            rep.case(key=rec["k"], nontrivial=rec.get("nt", True), sample=sample)
            if st == "inconclusive":
                rep.note_inconclusive(rec["k"] + ": " + str(rec.get("detail")))
            elif st.startswith("violation"):
                rep.violation(rec["sig"], rec["what"],
                              {"module": MODULE,
                               "case": {"channel": rec["ch"], "atom": rec["min"], "found_in": rec["atom"]}})

    def task_text(t) -> str:
        return (show(t[1]) if t[0] != "regex" else "str.in_re " + json.dumps(t[1][1]) + " " + show(t[1][0]))[:300]

    # pass 1: chunks under a hard limit (a worker stuck inside Z3 is killed);
    # pass 2: the tasks of killed chunks one by one (regex tasks one subject at a time)
    redo: List[Any] = []
    skipped = 0
    for ci, (status, val) in run_tasks(work_chunk, chunks, 16, 300.0 if THOROUGH else 200.0, _quiet_worker, deadline):
        if status == "ok":
            absorb(val)
        elif status == "timeout":
            for t in chunks[ci]:
                if t[0] == "regex":
                    redo += [("regex", (t[1][0], [sj]), t[2], t[3]) for sj in t[1][1]]
                else:
                    redo.append(t)
        elif status == "skipped":
            skipped += 1
        elif "died" in str(val):
            # the worker process of a whole chunk vanished (killed by the kernel under memory pressure, or a crash
            # inside Z3): its tasks are re-run one by one below; only a task that kills its own worker again is an error
            for t in chunks[ci]:
                if t[0] == "regex":
                    redo += [("regex", (t[1][0], [sj]), t[2], t[3]) for sj in t[1][1]]
                else:
                    redo.append(t)
        else:
            rep.checker_error(f"worker failed on chunk {ci}: {val}")
    if skipped:
        rep.note_inconclusive(f"global watchdog: {skipped} of {len(chunks)} chunks not evaluated")
    hard = 0
    for ti, (status, val) in run_tasks(work, redo, 16, 60.0, _quiet_worker, deadline + 200):
        if status == "ok":
            absorb(val)
        elif status in ("timeout", "skipped"):
            hard += 1
            rep.note_inconclusive("hard watchdog (a Z3 call of the oracle or of ISLa did not return within 60 s): " + task_text(redo[ti]))
        else:
            rep.checker_error(f"worker failed on {task_text(redo[ti])}: {val}")
    rep.section("watchdog", tasks_rerun_one_by_one_after_a_killed_chunk=len(redo), tasks_without_answer=hard)
    for fam, c in sorted(counters.items()):
        rep.section(fam, **c)
    # anti-vacuity
    for fam in ("i-operators", "i-operators-replace_re", "i-compositions", "ii-regex", "ii-regex-random"):
        for ch in ("is_valid", "evaluate", "substitute"):
            c = counters.get(fam + "/" + ch, {})
            done = sum(v for k, v in c.items() if k in ("ok", "violation-wrong", "violation-raises")
                       or (fam.endswith("replace_re") and k == "inconclusive"))
            if fam.endswith("replace_re") and ch != "is_valid":
                continue
            if done == 0:
                rep.checker_error(f"family {fam} reached no decided case through {ch}")
    rep.section("wall", seconds=round(time.time() - t0, 1), tasks=len(tasks))


def replay(path: str) -> int:
    import warnings
    warnings.filterwarnings("ignore")
    import isla.language  # noqa: F401
    data = json.load(open(path, encoding="utf-8"))
    case = data["case"]
    channel, atom = case["channel"], case["atom"]
    status, expected, got, detail = run_atom(channel, atom)
    print(f"{channel} on {show(atom)}")
    print(f"  Z3: {'valid' if expected else 'not valid' if expected is not None else 'unknown'}; "
          f"ISLa: {got} {detail or ''}  -> {status}")
    return 1 if status.startswith("violation") else 0
