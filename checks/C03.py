"""C03 -- evaluate() vs specification. Proved: trie key encode/decode + lemmas, Kleene all/any, call shape of evaluator chains. Bounded: evaluate == ref_eval on enumerated closed trees."""
from vlib.harness import proved_tier
from checks import bounded_C03

LEVEL = "other"


def run(rep, tier, seed):
    from checks import syntactic
    syntactic.run(rep, "C03")
    proved_tier(rep, "C03", seed, expected_min_obligations=15)
    bounded_C03.run(rep, tier, seed)


def replay(path):
    import json
    d = json.load(open(path))
    if d.get("module", "").startswith("checks.bounded_") or "case" in d:
        return bounded_C03.replay(path)
    from vlib.harness import replay_file
    return replay_file(path)
