"""C09 (bounded part) -- negation, NNF, DNF, bound-variable renaming and the
simplifying ``&`` / ``|`` combinators.

For every generated formula f (built directly through the ``isla.language``
constructors, n-ary conjunctions / disjunctions of arity 2-4 included, or taken
from ``parse_isla``), every rewrite r and every enumerated closed tree t:

  * r(f) does not raise,
  * evaluate(r(f), t) == B_r(evaluate(f, t))           (real evaluator on both sides)
  * ref_eval(r(f), t) == B_r(ref_eval(f, t))            (independent semantics, when exact)

where B_r is negation for ``-f`` / ``NegatedFormula(f)`` / ``convert_to_nnf(f,
negate=True)``, identity for NNF, DNF(NNF), ``ensure_unique_bound_variables``,
``f & f``, ``f | f``; conjunction / disjunction with the verdict of g for ``f &
g``, ``g & f``, ``f | g``, ``g | f`` (g in true, false, two atoms, a quantified
formula); constant false / true for ``f & -f`` / ``f | -f``.
"""

from __future__ import annotations

import json
import time
from typing import Dict, List

from bounded import c09_formulas as F
from bounded.c07_helpers import (
    Watchdog,
    all_grammars,
    chunks,
    ev,
    exc_text,
    pick_trees,
    profile,
    quiet_isla,
    ref,
    run_pool,
    struct_str,
    tree_structs,
    watchdog,
)
from bounded.reftree import from_struct

MODULE = "checks.bounded_C09"
GRAMMAR_ORDER = {
    "quick": ["assgn", "rightrec", "nullable", "num", "multichar", "xmlish", "csvish"],
    "thorough": ["assgn", "rightrec", "leftrec", "nullable", "ambig", "num", "multichar", "xmlish", "csvish", "altstart", "wide"],
}
TREE_CAP = {"quick": 12, "thorough": 40}
INT_TREE_CAP = {"quick": 5, "thorough": 12}  # formulas with numeric quantifiers go through Z3
CASE_TIMEOUT = {"quick": 60, "thorough": 600}  # CPU seconds per formula (all rewrites, all trees)
BINARY = ("f&g", "g&f", "f|g", "g|f")


def _bool(v: str):
    return {"T": True, "F": False, "t": True, "f": False}.get(v)


def _exact(v: str) -> bool:
    return v in ("T", "F")


def check_formula(case: dict, tier: str, seed: int, verbose: bool = False, only: str = None) -> dict:
    """All rewrites on one formula.  ``only``: restrict to one rewrite name (replay)."""
    quiet_isla()
    name = case["g"]
    grammar = all_grammars()[name]
    prof = profile(name, tier)
    spec = case["spec"]
    out = {"g": name, "src": case["src"], "label": case["label"], "spec": spec, "violations": [], "features": F.features(spec)}
    say = print if verbose else (lambda *a, **k: None)
    try:
        with watchdog(CASE_TIMEOUT[tier]):
            try:
                f = F.build(spec, grammar)
            except Watchdog:
                raise
            except BaseException as exc:
                out["status"] = "build-failed"
                out["why"] = exc_text(exc)
                return out
            say(f"formula: {f}")
            has_int = "int-quantifier" in out["features"] or "exists int" in repr(spec) or "forall int" in repr(spec)
            cap = INT_TREE_CAP[tier] if has_int else TREE_CAP[tier]
            picks = pick_trees(name, tier, cap, seed)
            structs = tree_structs(name, tier)
            trees = [from_struct(structs[i]) for i in picks]
            base_ev = [ev(f, t, grammar) for t in trees]
            base_ref = [ref(f, t, grammar) for t in trees]
            out["trees"] = len(trees)
            out["base"] = {v: base_ev.count(v) for v in sorted(set(base_ev))}
            out["base_vs_ref"] = sum(1 for a, r in zip(base_ev, base_ref) if _exact(r) and a in ("T", "F") and a != r)
            out["unknown"] = base_ev.count("U")
            gs = {}
            for gname, gspec in F.operands(prof).items():
                g = F.build(gspec, grammar)
                gs[gname] = (g, [ev(g, t, grammar) for t in trees], [ref(g, t, grammar) for t in trees])
            table = F.rewrites_for(tier)
            jobs = [(rn, None) for rn in table] + F.binary_jobs(tier)
            n_checked = 0
            for rn, gn in jobs:
                full = rn if gn is None else f"{rn}[g={gn}]"
                if only is not None and full != only:
                    continue
                try:
                    rf = F.apply_rewrite(rn, f, gs[gn][0] if gn else None)
                except Watchdog:
                    raise
                except BaseException as exc:
                    small = _minimal_raising(spec, grammar, rn)
                    out["violations"].append({
                        "rewrite": full, "stage": "raises", "exc": type(exc).__name__,
                        "what": f"{full} raises {exc_text(exc)}",
                        "features": [F.shape(small if small is not None else spec)],
                        "minimal": small,
                    })
                    say(f"{full}: RAISES {exc_text(exc)}")
                    continue
                if rn in table:
                    fn = table[rn][1]
                    expect = lambda v, i: None if _bool(v) is None else fn(_bool(v))
                else:
                    op = F.AND if "&" in rn else F.OR
                    gev, gref = gs[gn][1], gs[gn][2]
                    expect = None
                bad_ev = bad_ref = None
                for i, t in enumerate(trees):
                    a = ev(rf, t, grammar)
                    if gn is None:
                        want = expect(base_ev[i], i)
                    else:
                        x, y = _bool(base_ev[i]) if base_ev[i] in ("T", "F") else None, _bool(gs[gn][1][i]) if gs[gn][1][i] in ("T", "F") else None
                        want = None if x is None or y is None else op(x, y)
                    if base_ev[i] not in ("T", "F"):
                        want = None
                    if want is not None and a != "U":
                        n_checked += 1
                        if a != ("T" if want else "F") and bad_ev is None:
                            bad_ev = (picks[i], struct_str(structs[picks[i]]), base_ev[i], a, "T" if want else "F")
                    # independent semantics on both sides
                    if _exact(base_ref[i]) and (gn is None or _exact(gs[gn][2][i])):
                        r2 = ref(rf, t, grammar)
                        if _exact(r2):
                            if gn is None:
                                want2 = table[rn][1](_bool(base_ref[i]))
                            else:
                                want2 = op(_bool(base_ref[i]), _bool(gs[gn][2][i]))
                            if _bool(r2) != want2 and bad_ref is None:
                                bad_ref = (picks[i], struct_str(structs[picks[i]]), base_ref[i], r2, "T" if want2 else "F")
                if bad_ref is not None:
                    ti, s, b, got, want = bad_ref
                    out["violations"].append({
                        "rewrite": full, "stage": "meaning-changed", "features": out["features"],
                        "what": f"{full}: ref_eval(f)={b} but ref_eval(rewritten)={got} (expected {want}) on tree #{ti} {s!r}; rewritten: {rf}",
                    })
                    say(f"{full}: MEANING CHANGED on tree {s!r}: ref_eval(f)={b}, ref_eval(r(f))={got}, expected {want}")
                elif bad_ev is not None:
                    ti, s, b, got, want = bad_ev
                    out["violations"].append({
                        "rewrite": full, "stage": "evaluate-changed", "features": out["features"],
                        "what": f"{full}: evaluate(f)={b} but evaluate(rewritten)={got} (expected {want}) on tree #{ti} {s!r}; rewritten: {rf}",
                    })
                    say(f"{full}: EVALUATE CHANGED on tree {s!r}: evaluate(f)={b}, evaluate(r(f))={got}, expected {want}")
                else:
                    say(f"{full}: ok")
            out["checked"] = n_checked
            out["rewrites"] = len(jobs)
            out["status"] = "violation" if out["violations"] else "ok"
            return out
    except Watchdog:
        out["status"] = "timeout"
        return out


def _minimal_raising(spec, grammar, rn):
    """Smallest sub-specification on which the (unary) rewrite still raises; used
    only to name the input class precisely.  Sub-formulas may be open: variables
    are declared on the way down by ``build``'s environment, so build the whole
    formula once and search the ISLa object instead."""
    if rn in BINARY:
        return None
    best = None
    for sub in F.subspecs(spec):
        try:
            env = _env_for(spec, sub)
            f = F.build(sub, grammar, env)
        except Exception:
            continue
        try:
            F.apply_rewrite(rn, f)
        except Watchdog:
            raise
        except BaseException:
            if best is None or F.spec_size(sub) < F.spec_size(best):
                best = sub
    return best


def _env_for(spec, target):
    """Variable environment (name -> ISLa variable) in which ``target`` (a
    sub-specification object of ``spec``) is built."""
    import isla.language as L

    def search(s, env):
        if s is target:
            return env
        k = s[0]
        if k == "not":
            return search(s[1], env)
        if k in ("and", "or"):
            for x in s[1:]:
                r = search(x, env)
                if r is not None:
                    return r
            return None
        if k in ("forall", "exists"):
            env2 = dict(env)
            env2[s[2]] = L.BoundVariable(s[2], s[1])
            for e in s[5] or ():
                if isinstance(e, list):
                    env2[e[2]] = L.BoundVariable(e[2], e[1])
            return search(s[4], env2)
        if k in ("existsint", "forallint"):
            env2 = dict(env)
            env2[s[1]] = L.BoundVariable(s[1], L.Variable.NUMERIC_NTYPE)
            return search(s[2], env2)
        return None

    return search(spec, {"start": L.Constant("start", "<start>")})


def _worker(item):
    tier, seed, cases = item
    return [check_formula(c, tier, seed) for c in cases]


SIG_FEATURES = ("unused-bound-variable", "int-quantifier", "mexpr", "nary", "neg-over-combinator", "duplicate-bound-names")


def _signature(v: dict) -> str:
    rewrite = v["rewrite"].split("[")[0]
    operand = v["rewrite"][len(rewrite):].strip("[]").replace("g=", "")
    feats = v.get("features") or []
    if v["stage"] != "raises":
        feats = [f for f in feats if f in SIG_FEATURES]
    feats = "+".join(feats or ["plain"])
    if v["stage"] == "evaluate-changed":
        # the independent semantics found the rewrite meaning-preserving: the two
        # evaluate() verdicts are inconsistent with each other, whatever the rewrite
        return f"evaluate-inconsistent-across-rewrite:{feats}"
    parts = [rewrite, v["stage"]]
    if v.get("exc"):
        parts.append(v["exc"])
    if operand:
        parts.append("g=" + operand)
    parts.append(feats)
    return ":".join(parts)


def run(rep, tier, seed):
    t0 = time.time()
    rep.rule(
        "formulas: (a) hand-picked shapes (bounded/c09_formulas.fixed_specs: n-ary conjunctions of disjunctions, "
        "negations over combinators / tree / numeric quantifiers, equal names in sibling scopes, match expressions, "
        "predicates, constants), (b) seeded random specifications of depth <= 3 with arity 2-4 built through the "
        "isla.language constructors, (c) formulas returned by parse_isla; rewrites: -f, NegatedFormula(f), "
        "convert_to_nnf (also negate=True), convert_to_dnf(convert_to_nnf(f)) deep and shallow, nnf of that, "
        "ensure_unique_bound_variables, --f, f&f, f&-f, f|-f, Not(f)|f and f&g, g|f for g in {true, false, SMT atom, "
        "quantified formula}, g&f, f|g for g in {true, false} (thorough tier: also nnf(dnf(nnf)), unique-vars(nnf), f|f, "
        "f&Not(f) and all four combinator orders with a count atom as well); a case = "
        "(formula, rewrite, tree) with a TRUE/FALSE base verdict"
    )
    rep.bound(
        f"trees: closed ref_trees below <start> up to ENUM_NODES; at most {TREE_CAP[tier]} per formula "
        f"({INT_TREE_CAP[tier]} when it has a numeric quantifier); depth <= 3; arity 2-4; watchdog {CASE_TIMEOUT[tier]} CPU s per formula"
    )
    rep.assume("well-formed = closed (only the constant `start` free), every variable bound before use, no shadowing of a name in a nested scope; equal names in sibling scopes are allowed")
    rep.assume("UNKNOWN verdicts (Z3 time-out inside ISLa) and base verdicts that raise are inconclusive; the ref_eval comparison is made only where both sides are exact")
    rep.exhaustive = False

    cases: List[dict] = []
    for name in GRAMMAR_ORDER[tier]:
        cases.extend(F.specs_for(name, tier, seed))
        tree_structs(name, tier)
    items = [(tier, seed, ch) for ch in chunks(cases, 2)]
    results = [r for part in run_pool(_worker, items) for r in part]

    counters = {"formulas": 0, "built": 0, "parsed": 0, "nary": 0, "int-quantifier": 0, "mexpr": 0,
                "neg-over-combinator": 0, "duplicate-bound-names": 0, "unused-bound-variable": 0, "checked_triples": 0, "timeouts": 0,
                "build_failed": 0, "base_vs_ref_disagreements": 0}
    n_samples = 0
    for rec in results:
        key = (rec["g"], json.dumps(rec["spec"]))
        if rec["status"] == "build-failed":
            counters["build_failed"] += 1
            rep.note_inconclusive(f"could not build {rec['g']} {rec['label']}: {rec['why']}")
            rep.case(key=key, nontrivial=False)
            continue
        if rec["status"] == "timeout":
            counters["timeouts"] += 1
            rep.note_inconclusive(f"watchdog: {rec['g']} {rec['label']} {json.dumps(rec['spec'])[:120]}")
            rep.case(key=key, nontrivial=False)
            continue
        counters["formulas"] += 1
        counters[rec["src"]] += 1
        for feat in ("nary", "int-quantifier", "mexpr", "neg-over-combinator", "duplicate-bound-names", "unused-bound-variable"):
            if feat in rec["features"]:
                counters[feat] += 1
        counters["checked_triples"] += rec.get("checked", 0)
        counters["base_vs_ref_disagreements"] += rec.get("base_vs_ref", 0)
        if rec.get("unknown"):
            rep.note_inconclusive(f"{rec['unknown']} UNKNOWN base verdict(s): {rec['g']} {rec['label']}")
        sample = None
        if n_samples < 10 and rec["label"] != "random" or n_samples < 12 and rec["label"] == "random" and n_samples >= 8:
            sample = {"g": rec["g"], "label": rec["label"], "spec": rec["spec"], "base": rec.get("base"), "rewrites": rec.get("rewrites"), "status": rec["status"]}
            n_samples += 1
        rep.case(key=key, nontrivial=rec.get("checked", 0) > 0, sample=sample)
        rep.evaluations += max(0, rec.get("checked", 0) - 1)
        for v in rec["violations"]:
            rep.violation(
                _signature(v),
                f"grammar {rec['g']} [{rec['label']}] f={json.dumps(rec['spec'])}: {v['what']}",
                {"module": MODULE, "case": {"g": rec["g"], "src": rec["src"], "label": rec["label"], "spec": rec["spec"],
                                              "rewrite": v["rewrite"], "stage": v["stage"], "minimal": v.get("minimal"),
                                              "tier": tier, "seed": seed}},
            )
    rep.section("totals", **counters, wall_s=round(time.time() - t0, 1))
    for feat in ("built", "parsed", "nary", "int-quantifier", "mexpr", "neg-over-combinator", "duplicate-bound-names"):
        if counters[feat] == 0:
            rep.checker_error(f"no formula with feature {feat} was checked (vacuous)")
    if counters["checked_triples"] == 0:
        rep.checker_error("no (formula, rewrite, tree) triple was checked")
    if counters["base_vs_ref_disagreements"]:
        rep.assume(f"{counters['base_vs_ref_disagreements']} (formula, tree) pairs where evaluate(f) itself differs from ref_eval(f): that is property C03's subject, not counted here")
    # sanity: a WRONG rewrite (identity claimed to negate) must be caught by both oracles
    grammar = all_grammars()["assgn"]
    f = F.build(["forall", "<var>", "x", "start", ["smt", '(= x "a")', ["x"]], None], grammar)
    structs = tree_structs("assgn", tier)[:12]
    vals = [(ev(f, from_struct(s), grammar), ref(f, from_struct(s), grammar)) for s in structs]
    if not any(a == "T" for a, _ in vals) or not any(a == "F" for a, _ in vals) or any(a != r for a, r in vals):
        rep.checker_error(f"sanity: evaluate / ref_eval on the base formula are not both-valued or disagree: {vals}")
    rep.case(key="sanity", nontrivial=True)


def replay(path):
    with open(path, encoding="utf-8") as fh:
        payload = json.load(fh)
    case = payload["case"]
    print(f"C09 replay: grammar {case['g']}, rewrite {case['rewrite']}, spec {json.dumps(case['spec'])}")
    rec = check_formula(case, case.get("tier", "quick"), int(case.get("seed", 0)), verbose=True, only=case["rewrite"])
    still = [v for v in rec.get("violations", []) if v["rewrite"] == case["rewrite"]]
    if still:
        print(f"still failing: {still[0]['stage']}: {still[0]['what']}")
        return 1
    print(f"status now: {rec['status']}")
    return 0
