"""C17 -- serialisation. Proved (AST): frame `assigns nothing` of to_json/__getstate__. Bounded: cache/serialise histories, SMT literals, CLI JSON."""
from vlib.harness import proved_tier
from checks import bounded_C17

LEVEL = "other"


def run(rep, tier, seed):
    from checks import syntactic
    syntactic.run(rep, "C17")
    bounded_C17.run(rep, tier, seed)


def replay(path):
    import json
    d = json.load(open(path))
    if d.get("module", "").startswith("checks.bounded_") or "case" in d:
        return bounded_C17.replay(path)
    from vlib.harness import replay_file
    return replay_file(path)
