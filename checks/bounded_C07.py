"""C07 (bounded) -- unparse_isla / parse_isla round trip.

Contract (property statement): for every constraint text ``c`` that
``parse_isla`` ACCEPTS, with ``f = parse_isla(c)`` and ``u = unparse_isla(f)``:

  1. ``unparse_isla(f)`` does not raise and ``parse_isla(u)`` succeeds,
  2. ``parse_isla(u) == f``,
  3. ``unparse_isla(parse_isla(u)) == u``  (fix-point),
  4. ``evaluate(f, t) == evaluate(parse_isla(u), t)`` for every enumerated tree.

A text that parse_isla rejects is outside the quantifier: skipped and counted.
"""

from __future__ import annotations

import json
import re
import time
from typing import Dict, List

from bounded import c07_family
from bounded.c07_helpers import (
    Watchdog,
    all_grammars,
    chunks,
    ev,
    exc_text,
    parse,
    pick_trees,
    quiet_isla,
    run_pool,
    struct_str,
    tree_structs,
    unparse,
    watchdog,
)
from bounded.reftree import from_struct

MODULE = "checks.bounded_C07"
GRAMMAR_ORDER = [
    "assgn", "rightrec", "leftrec", "nullable", "ambig", "num", "multichar",
    "xmlish", "csvish", "altstart", "wide", "esc", "brace",
]
TREE_CAP = {"quick": 16, "thorough": None}
CASE_TIMEOUT = {"quick": 12, "thorough": 120}  # CPU seconds per constraint
SLOW_FAMILIES = ("numeric", "int-name")  # Z3-based evaluation strategy: fewer trees in the quick tier
SLOW_TREE_CAP = {"quick": 6, "thorough": None}


def check_case(case: dict, tier: str, seed: int, verbose: bool = False) -> dict:
    """Evaluate the contract on one constraint.  Returns a JSON-able record:
    ``status`` in {rejected, ok, violation, timeout}; for violations ``stage`` in
    {unparse-raises, reparse-rejected, not-equal, not-fixpoint, eval-differs}."""
    quiet_isla()
    name, text = case["g"], case["c"]
    grammar = all_grammars()[name]
    out = {"g": name, "fam": case["fam"], "feat": case["feat"], "sig": case.get("sig"), "c": text, "stages": []}
    say = print if verbose else (lambda *a, **k: None)
    t_start = time.time()
    try:
        with watchdog(CASE_TIMEOUT[tier]):
            f, err = parse(text, grammar)
            if err is not None:
                out["status"] = "rejected"
                out["why"] = exc_text(err)
                say(f"parse_isla rejects the constraint: {out['why']} (outside the property's quantifier)")
                return out
            u, err = unparse(f)
            if err is not None:
                out["status"] = "violation"
                out["stages"].append("unparse-raises")
                out["what"] = f"unparse_isla raises {exc_text(err)}"
                say(out["what"])
                return out
            out["u"] = u
            say(f"unparse_isla(parse_isla(c)) = {u!r}")
            f2, err = parse(u, grammar)
            if err is not None:
                out["status"] = "violation"
                out["stages"].append("reparse-rejected")
                out["why"] = exc_text(err)
                out["what"] = f"parse_isla rejects the unparsed text {u!r}: {exc_text(err)}"
                say(out["what"])
                return out
            try:
                equal = bool(f == f2)
            except Exception as exc:  # __eq__ itself must not raise
                equal = False
                out["eq_exc"] = exc_text(exc)
            if not equal:
                out["stages"].append("not-equal")
                out["what"] = f"parse_isla(u) != parse_isla(c); u={u!r}"
                say("re-parsed formula is NOT equal to the first one")
            u2, err = unparse(f2)
            if err is not None or u2 != u:
                out["stages"].append("not-fixpoint")
                out.setdefault("what", f"unparse(parse(u)) != u: u={u!r} u2={u2!r}")
                out["u2"] = u2
                say(f"unparse(parse(u)) = {u2!r} differs from u")
            cap = SLOW_TREE_CAP[tier] if case["fam"] in SLOW_FAMILIES else TREE_CAP[tier]
            picks = pick_trees(name, tier, cap, seed)
            structs = tree_structs(name, tier)
            counts: Dict[str, int] = {}
            diff = None
            for ti in picks:
                tree = from_struct(structs[ti])
                v1 = ev(f, tree, grammar)
                v2 = ev(f2, tree, grammar)
                counts[v1] = counts.get(v1, 0) + 1
                if "U" in (v1, v2) and v1 != v2:
                    out["unknown"] = out.get("unknown", 0) + 1  # Z3 time-out inside ISLa: inconclusive
                    continue
                if v1 != v2 and diff is None:
                    diff = (ti, struct_str(structs[ti]), v1, v2)
            out["verdicts"] = counts
            out["trees"] = len(picks)
            if diff is not None:
                out["stages"].append("eval-differs")
                out["tree"] = diff[0]
                out.setdefault(
                    "what",
                    f"evaluate differs on tree #{diff[0]} {diff[1]!r}: original {diff[2]}, re-parsed {diff[3]}; u={u!r}",
                )
                say(f"evaluate differs on tree {diff[1]!r}: {diff[2]} vs {diff[3]}")
            out["status"] = "violation" if out["stages"] else "ok"
            out["dt"] = round(time.time() - t_start, 2)
            if not out["stages"]:
                say(f"round trip holds; verdicts on {len(picks)} trees: {counts}")
            return out
    except Watchdog:
        out["status"] = "timeout"
        return out


def _worker(item):
    tier, seed, cases = item
    return [check_case(c, tier, seed) for c in cases]


ISLA_KEYWORDS = {"const", "forall", "exists", "in", "int", "not", "and", "or", "xor", "implies",
                 "iff", "true", "false", "div", "mod", "abs"}
SMTLIB_SYMBOLS = {"char", "let", "ite", "String", "Int", "Bool", "as", "par", "_", "!", "match", "Real"}
_RE_BOUND = re.compile(r"(?:forall|exists) <[^<> ]+> ([^\s=:]+)|\{<[^<> ]+> ([^\s}]+)\}|(?:forall|exists) int ([^\s:]+)")
_RE_IDENT = re.compile(r"[A-Za-z_][A-Za-z0-9_.^-]*")


def generated_names(c: str, u: str) -> List[str]:
    """Variable names bound in the unparsed text ``u`` that are not identifiers of
    the original text ``c`` (i.e. names ISLa made up for nameless quantifiers, free
    nonterminals and XPath expressions)."""
    own = set(_RE_IDENT.findall(re.sub(r"<[^<> ]+>", " ", c)))
    out: List[str] = []
    for m in _RE_BOUND.finditer(u or ""):
        name = m.group(1) or m.group(2) or m.group(3)
        if name and name not in own and name not in out:
            out.append(name)
    return out


def _signature(rec: dict) -> str:
    """stage + cause-oriented input class.  A made-up variable name that is an ISLa
    keyword / an SMT-LIB symbol / `start` dominates the template's own class."""
    stage = rec["stages"][0]
    cls = rec.get("sig") or f"{rec['fam']}:{rec['feat']}"
    if stage == "reparse-rejected":
        gen = generated_names(rec["c"], rec.get("u", ""))
        if any(n in ISLA_KEYWORDS for n in gen):
            cls = "generated-variable-name-is-isla-keyword"
        elif "start" in gen:
            cls = "generated-variable-named-start"
        elif any(n in SMTLIB_SYMBOLS for n in gen):
            cls = "generated-variable-name-is-smtlib-symbol"
    return f"unparse_isla:{stage}:{cls}".replace(" ", "_")


def run(rep, tier, seed):
    t0 = time.time()
    rep.rule(
        "constraints = templates (bounded/c07_family.py) over each grammar's profile: critical string "
        "literals in SMT atoms / predicate arguments, bound names incl. `start`, numeric suffixes and "
        "keywords, free nonterminals incl. <start>, XPath child/index/descendant expressions, match "
        "expressions (all alternatives, optionals, terminals needing escapes), numeric quantifiers, all "
        "standard predicates, every SMT-LIB operator of IslaLanguage.g4 in infix/prefix/S-expression "
        "notation, propositional structure; a case is non-trivial iff parse_isla accepts the text "
        "(rejected texts are outside the quantifier and only counted)"
    )
    rep.bound(
        "trees: all closed ref_trees below <start> up to bounded.grammars.ENUM_NODES nodes per grammar "
        f"(esc/brace: 9); per constraint at most {TREE_CAP[tier]} of them in this tier (the smallest half + seeded sample; "
        f"{SLOW_TREE_CAP[tier]} for constraints with numeric quantifiers); watchdog {CASE_TIMEOUT[tier]} CPU seconds per constraint"
    )
    rep.assume("equality of formulas is ISLa's own Formula.__eq__ (that is what the property states)")
    rep.assume("the root symbol is <start> for every grammar (a `const` declaration crashes parse_isla: such texts are skipped as rejected)")
    rep.assume("evaluate verdicts are compared as TRUE/FALSE/UNKNOWN/exception class; two equal exception classes count as agreement")
    rep.exhaustive = False

    cases: List[dict] = []
    for name in GRAMMAR_ORDER:
        cases.extend(c07_family.family(name, tier))
    # distinct texts per grammar only
    seen = set()
    uniq = []
    for c in cases:
        key = (c["g"], c["c"])
        if key not in seen:
            seen.add(key)
            uniq.append(c)
    cases = uniq
    for name in GRAMMAR_ORDER:
        tree_structs(name, tier)  # enumerate before forking
    items = [(tier, seed, ch) for ch in chunks(cases, 4)]
    results = [r for part in run_pool(_worker, items) for r in part]

    fam_counts: Dict[str, Dict[str, int]] = {}
    accepted = 0
    samples = 0
    for rec in results:
        fc = fam_counts.setdefault(rec["fam"], {"generated": 0, "accepted": 0, "rejected": 0, "violations": 0, "timeouts": 0})
        fc["generated"] += 1
        key = (rec["g"], rec["c"])
        if rec["status"] == "rejected":
            fc["rejected"] += 1
            rep.case(key=key, nontrivial=False)
            continue
        if rec["status"] == "timeout":
            fc["timeouts"] += 1
            rep.note_inconclusive(f"watchdog: {rec['g']} {rec['c']!r}")
            rep.case(key=key, nontrivial=False)
            continue
        accepted += 1
        fc["accepted"] += 1
        if rec.get("unknown"):
            rep.note_inconclusive(f"{rec['unknown']} one-sided UNKNOWN verdict(s) (Z3 time-out inside ISLa): {rec['g']}: {rec['c']!r}")
        sample = None
        if samples < 10 and rec["fam"] not in ("smt-literal",) or (samples < 12 and rec["status"] == "violation"):
            sample = {k: rec.get(k) for k in ("g", "fam", "feat", "c", "u", "verdicts", "status")}
            samples += 1
        rep.case(key=key, nontrivial=True, sample=sample)
        if rec["status"] == "violation":
            fc["violations"] += 1
            rep.violation(
                _signature(rec),
                f"grammar {rec['g']}: c={rec['c']!r}: {rec.get('what')}",
                {"module": MODULE, "case": {"g": rec["g"], "fam": rec["fam"], "feat": rec["feat"], "sig": rec.get("sig"), "c": rec["c"],
                                              "stages": rec["stages"], "tier": tier, "seed": seed}},
            )
    for fam, fc in fam_counts.items():
        rep.section("families", **{fam: fc})
        if fc["accepted"] == 0:
            rep.checker_error(f"family {fam}: no constraint accepted by parse_isla (vacuous)")
    rejected = [r for r in results if r["status"] == "rejected"]
    rep.section(
        "totals",
        constraints=len(results),
        accepted=accepted,
        rejected_by_parse_isla=len(rejected),
        rejected_examples=[f"{r['g']}: {r['c']!r}: {r['why']}" for r in rejected[:25]],
        wall_s=round(time.time() - t0, 1),
    )
    # sanity: a constraint whose round trip is known to hold by construction
    sanity = check_case({"g": "assgn", "fam": "sanity", "feat": "core", "c": 'forall <var> v in start:\n  (= v "a")'}, tier, seed)
    if sanity["status"] != "ok" or sanity.get("u") != 'forall <var> v in start:\n  (= v "a")' or set(sanity.get("verdicts", {})) != {"T", "F"}:
        rep.checker_error(f"sanity case (core text is its own unparse, verdicts T and F both occur) failed: {sanity}")
    rep.case(key="sanity", nontrivial=True)


def replay(path):
    with open(path, encoding="utf-8") as fh:
        payload = json.load(fh)
    case = payload["case"]
    print(f"C07 replay: grammar {case['g']}, constraint {case['c']!r}")
    rec = check_case(case, case.get("tier", "quick"), int(case.get("seed", 0)), verbose=True)
    if rec["status"] == "violation":
        print(f"still failing: stages {rec['stages']}")
        return 1
    print(f"status now: {rec['status']}")
    return 0
