"""C15 (bounded part) -- integer intervals inferred from a regex are exactly
the numbers it matches; compressing a concatenation keeps the language.

Contract 1 (numeric_intervals_from_regex): for every regex term of the
documented recognized shape (grammar in the docstring, z3_helpers.py) for
which the function returns ``Some(intervals)``:

    for every integer n:  n in union(intervals)
        <=>  the regex matches some string  sign . 0^k . digits(|n|)
             (sign in {"", "+", "-"}, value = -|n| for "-", else |n|)

with ``-sys.maxsize`` / ``sys.maxsize`` interval ends read as -oo / +oo.
``Nothing`` is never a violation (only counted).  Checked for n in
[-1200, 1200], the finite interval ends and their neighbours, and a few large
numbers, with k up to 3 + the number of zero-literals of the term.

Contract 2 (compress_concatenation_elements): L(Concat(xs)) = L(Concat(f(xs)))
on all strings of length <= 6 over the characters of xs, plus one Z3
inequivalence query per instance (unsat = equivalence proved for the instance).

Oracle: an own Thompson-NFA matcher over z3 regex terms (decl().kind()),
written independently of isla.z3_helpers; cross-checked against Z3's
``str.in_re`` on a sample at every run.
"""
from __future__ import annotations

import json
import multiprocessing
import random
import signal
import sys
import time
from typing import Any, Dict, List, Optional, Set, Tuple

MODULE = "checks.bounded_C15"
N_RANGE = 1200
BIG = [99999, 10 ** 19]
MAXSIZE = sys.maxsize


def _z3():
    import z3
    return z3


# --------------------------------------------------------------------------- #
# regex specs (JSON) -> z3 terms
#   ["re", s] ["range", a, b] ["star", X] ["plus", X] ["opt", X]
#   ["union", X, Y, ...] ["concat", X, Y, ...]
# --------------------------------------------------------------------------- #

def build(spec):
    z3 = _z3()
    t = spec[0]
    if t == "re":
        return z3.Re(spec[1])
    if t == "range":
        return z3.Range(spec[1], spec[2])
    if t == "star":
        return z3.Star(build(spec[1]))
    if t == "plus":
        return z3.Plus(build(spec[1]))
    if t == "opt":
        return z3.Option(build(spec[1]))
    if t == "union":
        return z3.Union(*[build(a) for a in spec[1:]])
    if t == "concat":
        return z3.Concat(*[build(a) for a in spec[1:]])
    raise ValueError(spec)


def show(spec) -> str:
    t = spec[0]
    if t == "re":
        return f'Re("{spec[1]}")'
    if t == "range":
        return f'Range("{spec[1]}","{spec[2]}")'
    name = {"star": "Star", "plus": "Plus", "opt": "Option", "union": "Union", "concat": "Concat"}[t]
    return name + "(" + ", ".join(show(a) for a in spec[1:]) + ")"


def skeleton(spec) -> str:
    """shape of a term with digits abstracted (file-name safe)"""
    t = spec[0]
    if t == "re":
        s = spec[1]
        return {"0": "zero", "+": "plussign", "-": "minussign"}.get(s, "digit" if len(s) == 1 and s.isdigit() else "lit")
    if t == "range":
        return {("0", "9"): "range09", ("1", "9"): "range19", ("0", "0"): "range00"}.get(
            (spec[1], spec[2]), "range0d" if spec[1] == "0" else "rangedd")
    return t + "(" + ",".join(skeleton(a) for a in spec[1:]) + ")"


def subterms(spec, acc=None) -> List[Any]:
    if acc is None:
        acc = []
    if spec[0] not in ("re", "range"):
        for a in spec[1:]:
            subterms(a, acc)
    acc.append(spec)
    return acc


def size(spec) -> int:
    return 1 if spec[0] in ("re", "range") else 1 + sum(size(a) for a in spec[1:])


# --------------------------------------------------------------------------- #
# own matcher: Thompson NFA over z3 regex terms
# --------------------------------------------------------------------------- #

class NFA:
    def __init__(self):
        self.eps: List[List[int]] = []
        self.tr: List[List[Tuple[int, int, int]]] = []   # (lo, hi, target) code points

    def new(self) -> int:
        self.eps.append([])
        self.tr.append([])
        return len(self.eps) - 1

    def frag(self, r) -> Tuple[int, int]:
        z3 = _z3()
        k = r.decl().kind()
        s, e = self.new(), self.new()
        kids = r.children()
        if k == z3.Z3_OP_SEQ_TO_RE:
            cur = s
            for ch in kids[0].as_string():
                nxt = self.new()
                self.tr[cur].append((ord(ch), ord(ch), nxt))
                cur = nxt
            self.eps[cur].append(e)
        elif k == z3.Z3_OP_RE_RANGE:
            lo, hi = kids[0].as_string(), kids[1].as_string()
            if len(lo) == 1 and len(hi) == 1:          # otherwise the empty language
                self.tr[s].append((ord(lo), ord(hi), e))
        elif k == z3.Z3_OP_RE_UNION:
            for c in kids:
                cs, ce = self.frag(c)
                self.eps[s].append(cs)
                self.eps[ce].append(e)
        elif k == z3.Z3_OP_RE_CONCAT:
            cur = s
            for c in kids:
                cs, ce = self.frag(c)
                self.eps[cur].append(cs)
                cur = ce
            self.eps[cur].append(e)
        elif k in (z3.Z3_OP_RE_STAR, z3.Z3_OP_RE_PLUS, z3.Z3_OP_RE_OPTION):
            cs, ce = self.frag(kids[0])
            self.eps[s].append(cs)
            self.eps[ce].append(e)
            if k != z3.Z3_OP_RE_PLUS:
                self.eps[s].append(e)
            if k != z3.Z3_OP_RE_OPTION:
                self.eps[ce].append(cs)
        elif k == z3.Z3_OP_RE_LOOP:
            ps = r.params()
            lo, hi = ps[0], (ps[1] if len(ps) > 1 else None)
            cur = s
            for _ in range(lo):
                cs, ce = self.frag(kids[0])
                self.eps[cur].append(cs)
                cur = ce
            if hi is None:
                cs, ce = self.frag(kids[0])
                self.eps[cur].append(cs)
                self.eps[ce].append(cs)
                self.eps[ce].append(e)
            else:
                for _ in range(max(0, hi - lo)):
                    self.eps[cur].append(e)
                    cs, ce = self.frag(kids[0])
                    self.eps[cur].append(cs)
                    cur = ce
                if hi < lo:
                    cur = self.new()                     # empty language
            self.eps[cur].append(e)
        else:
            raise NotImplementedError(f"matcher: operator {r.decl().name()} outside the fragment")
        return s, e

    def closure(self, states) -> frozenset:
        seen = set(states)
        stack = list(states)
        while stack:
            q = stack.pop()
            for p in self.eps[q]:
                if p not in seen:
                    seen.add(p)
                    stack.append(p)
        return frozenset(seen)

    def step(self, states: frozenset, ch: str) -> frozenset:
        c = ord(ch)
        nxt = set()
        for q in states:
            for lo, hi, p in self.tr[q]:
                if lo <= c <= hi:
                    nxt.add(p)
        return self.closure(nxt) if nxt else frozenset()


class Matcher:
    def __init__(self, regex):
        self.nfa = NFA()
        self.start, self.accept = self.nfa.frag(regex)
        self.init = self.nfa.closure([self.start])
        self._memo: Dict[Tuple[frozenset, str], frozenset] = {}

    def step(self, st: frozenset, ch: str) -> frozenset:
        k = (st, ch)
        if k not in self._memo:
            self._memo[k] = self.nfa.step(st, ch)
        return self._memo[k]

    def matches(self, s: str) -> bool:
        st = self.init
        for ch in s:
            st = self.step(st, ch)
            if not st:
                return False
        return self.accept in st


# --------------------------------------------------------------------------- #
# contract 1: intervals vs matched integer values
# --------------------------------------------------------------------------- #

_TRIES: Dict[int, Any] = {}


def _trie_for(k_max: int):
    """trie of all  sign . 0^k . digits(m)  for m in 0..N_RANGE, k <= k_max;
    node = [children dict, list of values]"""
    if k_max not in _TRIES:
        root = [{}, []]
        for m in range(0, N_RANGE + 1):
            for sign in ("", "+", "-"):
                for k in range(0, k_max + 1):
                    node = root
                    for ch in sign + "0" * k + str(m):
                        node = node[0].setdefault(ch, [{}, []])
                    node[1].append(-m if sign == "-" else m)
        _TRIES[k_max] = root
    return _TRIES[k_max]


def matched_values(m: Matcher, k_max: int, extra_abs: List[int]) -> Set[int]:
    out: Set[int] = set()
    stack = [(_trie_for(k_max), m.init)]
    while stack:
        node, st = stack.pop()
        if node[1] and m.accept in st:
            out.update(node[1])
        for ch, child in node[0].items():
            nst = m.step(st, ch)
            if nst:
                stack.append((child, nst))
    for a in extra_abs:
        if a <= N_RANGE:
            continue
        for sign in ("", "+", "-"):
            for k in range(0, k_max + 1):
                if m.matches(sign + "0" * k + str(a)):
                    out.add(-a if sign == "-" else a)
    return out


def in_union(n: int, intervals) -> bool:
    for lo, hi in intervals:
        if (lo <= -MAXSIZE or lo <= n) and (hi >= MAXSIZE or n <= hi):
            return True
    return False


def count_zero_literals(spec) -> int:
    if spec[0] == "re":
        return spec[1].count("0")
    if spec[0] == "range":
        return 1 if spec[1] == "0" else 0
    return sum(count_zero_literals(a) for a in spec[1:])


def call_intervals(spec):
    """-> ("some", intervals) | ("nothing",) | ("raises", text)"""
    from isla.z3_helpers import numeric_intervals_from_regex
    from returns.maybe import Nothing
    try:
        res = numeric_intervals_from_regex(build(spec))
    except Exception as ex:  # noqa
        return ("raises", f"{type(ex).__name__}: {str(ex)[:160]}")
    if res == Nothing:
        return ("nothing",)
    return ("some", [tuple(iv) for iv in res.unwrap()])


def check_intervals(spec, intervals=None) -> Dict[str, Any]:
    """evaluates contract 1 on one term.  status: ok | nothing | violation"""
    if intervals is None:
        res = call_intervals(spec)
        if res[0] == "nothing":
            return {"st": "nothing"}
        if res[0] == "raises":
            return {"st": "violation", "kind": "raises", "detail": res[1], "sign": "", "n": None, "intervals": None}
        intervals = res[1]
    m = Matcher(build(spec))
    k_max = 3 + min(count_zero_literals(spec), 4)
    ends = []
    for lo, hi in intervals:
        for v in (lo, hi):
            if -MAXSIZE < v < MAXSIZE:
                ends += [v - 1, v, v + 1]
    extra = sorted({abs(v) for v in ends} | set(BIG))
    got = matched_values(m, k_max, extra)
    tests = list(range(-N_RANGE, N_RANGE + 1)) + [v for v in ends if abs(v) > N_RANGE] + \
        [s * b for b in BIG for s in (1, -1)]
    bad_missing = [n for n in tests if n in got and not in_union(n, intervals)]
    bad_extra = [n for n in tests if n not in got and in_union(n, intervals)]
    if not bad_missing and not bad_extra:
        return {"st": "ok", "intervals": intervals, "matched": len(got)}

    def pick(ns):
        return min(ns, key=lambda v: (abs(v), v))
    if bad_missing:
        n, kind = pick(bad_missing), "matched-number-missing-from-intervals"
    else:
        n, kind = pick(bad_extra), "unmatched-number-inside-intervals"
    return {"st": "violation", "kind": kind, "n": n, "intervals": intervals,
            "sign": "negative" if n < 0 else "zero" if n == 0 else "positive",
            "n_missing": len(bad_missing), "n_extra": len(bad_extra),
            "detail": f"{len(bad_missing)} matched numbers outside the intervals (e.g. {bad_missing[:3]}), "
                      f"{len(bad_extra)} unmatched numbers inside (e.g. {sorted(bad_extra, key=abs)[:3]})"}


def flatten_concat(spec) -> List[Any]:
    if spec[0] != "concat":
        return [spec]
    out: List[Any] = []
    for a in spec[1:]:
        out += flatten_concat(a)
    return out


def _signish(e) -> bool:
    if e[0] == "re":
        return e[1] in ("+", "-")
    if e[0] == "opt":
        return _signish(e[1])
    if e[0] == "union":
        return any(_signish(a) for a in e[1:])
    return False


def has_inner_sign(spec, leading: bool = True) -> bool:
    """a sign (Re("+"), Re("-"), also under Option / Union) at a position
    other than the very beginning of the matched string"""
    t = spec[0]
    if t == "re":
        return spec[1] in ("+", "-") and not leading
    if t == "opt":
        return has_inner_sign(spec[1], leading)
    if t == "union":
        return any(has_inner_sign(a, leading) for a in spec[1:])
    if t == "concat":
        flat = flatten_concat(spec)
        return any(has_inner_sign(e, leading and i == 0) for i, e in enumerate(flat))
    return False


def cause_class(spec) -> str:
    """input class of a minimal violating term"""
    if spec[0] in ("star", "plus") and spec[1] == ["range", "0", "9"]:
        return "full-range-" + spec[0]
    if has_inner_sign(spec):
        return "sign-after-first-element"
    return "shape-" + skeleton(spec)


def attribute_intervals(spec, res) -> Tuple[str, Any, Dict[str, Any]]:
    """smallest subterm that violates the contract in the same way (same
    kind of deviation), classified by cause_class"""
    subs = sorted(subterms(spec), key=size)
    for sub in subs:
        if sub == spec:
            break
        r = check_intervals(sub)
        if r["st"] == "violation" and r["kind"] == res["kind"]:
            return cause_class(sub), sub, r
    return cause_class(spec), spec, res


# --------------------------------------------------------------------------- #
# contract 2: compress_concatenation_elements
# --------------------------------------------------------------------------- #

def alphabet_of(specs: List[Any]) -> List[str]:
    chars: List[str] = []

    def go(s):
        if s[0] == "re":
            for ch in s[1]:
                if ch not in chars:
                    chars.append(ch)
        elif s[0] == "range":
            lo, hi = s[1], s[2]
            for ch in (lo, hi, chr((ord(lo) + ord(hi)) // 2)):
                if ch not in chars:
                    chars.append(ch)
        else:
            for a in s[1:]:
                go(a)
    for sp in specs:
        go(sp)
    return chars[:4]


def language_difference(m1: Matcher, m2: Matcher, alphabet: List[str], max_len: int) -> Optional[str]:
    """a string of length <= max_len on which the two matchers differ"""
    seen = set()
    stack = [("", m1.init, m2.init)]
    while stack:
        w, s1, s2 = stack.pop()
        if (m1.accept in s1) != (m2.accept in s2):
            return w
        if len(w) == max_len:
            continue
        key = (s1, s2, len(w))
        if key in seen:
            continue
        seen.add(key)
        for ch in alphabet:
            n1, n2 = m1.step(s1, ch), m2.step(s2, ch)
            if n1 or n2:
                stack.append((w + ch, n1, n2))
    return None


def group_shape(specs: List[Any]) -> str:
    bases: List[str] = []
    out = []
    for s in specs:
        wrap = ""
        b = s
        while b[0] in ("star", "plus"):
            wrap = ("S" if b[0] == "star" else "P") + wrap
            b = b[1]
        key = json.dumps(b)
        if key not in bases:
            bases.append(key)
        out.append("rstuvw"[min(bases.index(key), 5)] + wrap)
    return "-".join(out)


def z3_concat(parts):
    z3 = _z3()
    return parts[0] if len(parts) == 1 else z3.Concat(*parts)


def check_compress(specs: List[Any]) -> Dict[str, Any]:
    z3 = _z3()
    from isla.z3_helpers import compress_concatenation_elements
    xs = [build(s) for s in specs]
    try:
        ys = compress_concatenation_elements(xs)
    except Exception as ex:  # noqa
        return {"st": "violation", "kind": "raises", "detail": f"{type(ex).__name__}: {str(ex)[:160]}"}
    if not ys:
        return {"st": "violation", "kind": "empty-result", "detail": "returns the empty list"}
    X, Y = z3_concat(xs), z3_concat(list(ys))
    try:
        m1, m2 = Matcher(X), Matcher(Y)
    except NotImplementedError as ex:
        return {"st": "inconclusive", "detail": str(ex)}
    w = language_difference(m1, m2, alphabet_of(specs), 6)
    if w is not None:
        return {"st": "violation", "kind": "language-changed",
                "detail": f"result {[y.sexpr() for y in ys]}: string {json.dumps(w)} is matched by "
                          f"{'the input only' if m1.matches(w) else 'the result only'}"}
    s = z3.String("c15s")
    solver = z3.Solver()
    solver.set("timeout", 3000)
    # one membership in the symmetric difference: decided by Z3's derivative
    # based emptiness check (the xor of two memberships mostly ends in unknown)
    solver.add(z3.InRe(s, z3.Union(z3.Diff(X, Y), z3.Diff(Y, X))))
    r = solver.check()
    if r == z3.sat:
        wit = solver.model()[s]
        wit_s = wit.as_string() if wit is not None else ""
        if m1.matches(wit_s) != m2.matches(wit_s):
            return {"st": "violation", "kind": "language-changed",
                    "detail": f"Z3 witness {json.dumps(wit_s)} (longer than the enumerated strings)"}
        return {"st": "inconclusive", "detail": "Z3 claims inequivalence with a witness the own matcher does not confirm: " + json.dumps(wit_s)}
    return {"st": "ok", "z3": "proved" if r == z3.unsat else "unknown",
            "changed": len(ys) != len(xs) or any(not z3.AstRef.eq(a, b) for a, b in zip(xs, ys))}


# --------------------------------------------------------------------------- #
# term generation from the documented grammar
# --------------------------------------------------------------------------- #

def RE(s):
    return ["re", s]


ZEROES = [["star", RE("0")], ["plus", RE("0")]]
FULL = [["star", ["range", "0", "9"]], ["plus", ["range", "0", "9"]]]
PM = [RE("+"), RE("-")]
OPT_PM: List[Optional[Any]] = [None] + PM + [["opt", p] for p in PM]
SEQ_ZERO_ELEM = ZEROES + [RE("0")]
ONE_OR_ZERO_NINE = [["range", "0", "9"], ["range", "1", "9"]]
FIRST_ELEM = PM + ZEROES + [RE("0")]
QUICK_RANGES = [("0", "0"), ("0", "9"), ("1", "9"), ("1", "4"), ("2", "9"), ("5", "5"), ("3", "7"), ("0", "5")]
QUICK_DIGITS = ["0", "1", "5", "6", "9"]


def atoms(tier: str) -> List[Any]:
    if tier == "thorough":
        digs = list("0123456789")
        rngs = [(a, b) for a in digs for b in digs if a <= b]
    else:
        digs, rngs = QUICK_DIGITS, QUICK_RANGES
    return [RE(d) for d in digs] + [["range", a, b] for a, b in rngs] + ZEROES + FULL


def seq_zeroes_lists(max_len: int) -> List[List[Any]]:
    out: List[List[Any]] = []
    cur: List[List[Any]] = [[]]
    for _ in range(max_len):
        cur = [c + [e] for c in cur for e in SEQ_ZERO_ELEM]
        out += cur
    return out


def first_unions(rng: Optional[random.Random], n_triples: int) -> List[Any]:
    out = [["union", a, b] for a in FIRST_ELEM for b in FIRST_ELEM]
    triples = [["union", a, b, c] for a in FIRST_ELEM for b in FIRST_ELEM for c in FIRST_ELEM]
    if rng is not None and len(triples) > n_triples:
        triples = rng.sample(triples, n_triples)
    return out + triples


def sequences_over(tails: List[Any], rng: random.Random, tier: str) -> List[Any]:
    """the four <sequence> forms with <regex> := one of `tails`"""
    out: List[Any] = []
    zs = seq_zeroes_lists(2)
    # form 1: opt-pm maybe-seq-zeroes one-or-zero-nine zero-nines
    for pm in OPT_PM:
        for z in [[]] + zs:
            for d in ONE_OR_ZERO_NINE:
                for f in FULL:
                    out.append(["concat"] + ([pm] if pm else []) + z + [d, f])
    # form 2: opt-pm seq-zeroes regex
    for pm in OPT_PM:
        for z in zs:
            for t in tails:
                out.append(["concat"] + ([pm] if pm else []) + z + [t])
    # form 3 / 4
    fu = first_unions(rng, 125 if tier == "thorough" else 20)
    for u in fu:
        for d in ONE_OR_ZERO_NINE:
            for f in FULL:
                out.append(["concat", u, d, f])
        for t in tails:
            out.append(["concat", u, t])
    return out


def gen_regex(rng: random.Random, depth: int, base: List[Any]):
    """random term of the documented grammar, nesting depth <= depth"""
    if depth == 0:
        return rng.choice(base)
    c = rng.random()
    if c < 0.25:
        n = rng.choice([2, 2, 3])
        kids = [gen_regex(rng, depth - 1, base)] + [gen_regex(rng, rng.randrange(0, depth), base) for _ in range(n - 1)]
        rng.shuffle(kids)
        return ["union"] + kids
    pm = rng.choice(OPT_PM)
    pre = [pm] if pm else []
    if c < 0.45:      # form 1
        z = [rng.choice(SEQ_ZERO_ELEM) for _ in range(rng.choice([0, 0, 1, 2]))]
        return ["concat"] + pre + z + [rng.choice(ONE_OR_ZERO_NINE), rng.choice(FULL)]
    if c < 0.75:      # form 2
        z = [rng.choice(SEQ_ZERO_ELEM) for _ in range(rng.choice([1, 1, 2, 3]))]
        return ["concat"] + pre + z + [gen_regex(rng, depth - 1, base)]
    u = ["union"] + [rng.choice(FIRST_ELEM) for _ in range(rng.choice([2, 2, 3]))]
    if c < 0.85:      # form 3
        return ["concat", u, rng.choice(ONE_OR_ZERO_NINE), rng.choice(FULL)]
    return ["concat", u, gen_regex(rng, depth - 1, base)]   # form 4


DOCTESTS = [
    (RE("1"), [(1, 1)]),
    (["concat", ["plus", RE("0")], RE("0"), ["star", ["range", "0", "0"]]], [(0, 0)]),
    (["union", ["range", "1", "4"], RE("5")], [(1, 5)]),
    (["union", RE("6"), ["range", "1", "4"]], [(1, 4), (6, 6)]),
    (["concat", ["union", RE("+"), RE("-")], ["range", "0", "9"]], [(-9, 9)]),
    (["concat", ["opt", RE("-")], ["range", "0", "9"]], [(-9, 9)]),
    (["concat", ["opt", RE("+")], ["range", "0", "9"]], [(0, 9)]),
    (["concat", ["union", RE("+"), RE("-")], ["range", "2", "9"]], [(-9, -2), (2, 9)]),
    (["concat", ["star", RE("0")], ["range", "1", "9"], ["star", ["range", "0", "9"]]], [(1, MAXSIZE)]),
    (["concat", ["range", "1", "9"], ["plus", ["range", "0", "9"]]], [(10, MAXSIZE)]),
    (["concat", RE("-"), ["range", "1", "9"], ["plus", ["range", "0", "9"]]], [(-MAXSIZE, -10)]),
    (["concat", ["concat", ["range", "1", "9"], ["star", ["range", "0", "9"]]], ["range", "0", "9"]], [(10, MAXSIZE)]),
]


def interval_terms(tier: str, seed: int) -> List[Tuple[str, Any]]:
    rng = random.Random(seed * 104729 + 15)
    base = atoms(tier)
    out: List[Tuple[str, Any]] = [("doctest", d[0]) for d in DOCTESTS]
    # small hand-made terms of the grammar (form 2 / form 4 with a signed
    # <sequence> as <regex>): minimal witnesses come first
    out += [("probe", t) for t in (
        ["concat", RE("0"), ["concat", RE("-"), RE("0"), RE("5")]],
        ["concat", ["plus", RE("0")], ["concat", RE("-"), RE("0"), ["range", "1", "9"]]],
        ["concat", ["union", RE("-"), RE("0")], ["concat", RE("-"), RE("0"), RE("5")]],
        ["concat", RE("-"), RE("0"), ["plus", ["range", "0", "9"]]],
    )]
    out += [("depth0", a) for a in base]
    # depth 1: unions of two atoms, the four sequence forms over atoms
    unions2 = [["union", a, b] for a in base for b in base]
    if tier != "thorough":
        unions2 = rng.sample(unions2, 150)
    out += [("depth1-union", u) for u in unions2]
    out += [("depth1-union", ["union", rng.choice(base), rng.choice(base), rng.choice(base)]) for _ in range(40)]
    seqs = sequences_over(base, rng, tier)
    if tier != "thorough":
        seqs = [s for i, s in enumerate(seqs) if i % 4 == 0]
    out += [("depth1-sequence", s) for s in seqs]
    # depth 2 and 3: seeded random terms
    n2, n3 = (20000, 20000) if tier == "thorough" else (400, 400)
    out += [("depth2", gen_regex(rng, 2, base)) for _ in range(n2)]
    out += [("depth3", gen_regex(rng, 3, base)) for _ in range(n3)]
    return out


def compress_instances(tier: str, seed: int) -> List[List[Any]]:
    rng = random.Random(seed * 15485863 + 16)
    bases = [RE("a"), RE("ab"), ["range", "0", "9"], ["union", RE("a"), RE("b")], RE("0"), ["opt", RE("a")]]
    wraps = [lambda b: b, lambda b: ["star", b], lambda b: ["plus", b]]
    out: List[List[Any]] = []
    # runs over one base: every wrapper sequence of length <= 4
    for b in (bases if tier == "thorough" else bases[:4]):
        seqs: List[List[int]] = [[]]
        for _ in range(4):
            seqs = [s + [w] for s in seqs for w in range(3)]
            out += [[wraps[w](b) for w in s] for s in seqs]
    # nested wrappers (keys of the grouping collide with wrapped elements)
    nested = [["star", ["star", RE("a")]], ["plus", ["star", RE("a")]], ["star", ["plus", RE("a")]],
              ["plus", ["plus", RE("a")]], ["star", RE("a")], ["plus", RE("a")], RE("a")]
    for a in nested:
        for b in nested:
            out.append([a, b])
            for c in nested[:5]:
                out.append([a, b, c])
    # mixed bases
    pool = [w(b) for b in bases for w in wraps]
    for _ in range(6000 if tier == "thorough" else 500):
        out.append([rng.choice(pool) for _ in range(rng.choice([2, 3, 3, 4, 5]))])
    return out


# --------------------------------------------------------------------------- #
# workers
# --------------------------------------------------------------------------- #

class _Watchdog(BaseException):
    pass


def _alarm(_s, _f):
    raise _Watchdog()


def work(task) -> Dict[str, Any]:
    import warnings
    warnings.filterwarnings("ignore")
    import isla.language  # noqa: F401
    kind, fam, spec = task
    signal.signal(signal.SIGALRM, _alarm)
    signal.setitimer(signal.ITIMER_REAL, 120)
    try:
        if kind == "intervals":
            res = check_intervals(spec)
            rec = {"kind": kind, "fam": fam, "k": "intervals " + show(spec), "st": res["st"]}
            if res["st"] == "ok":
                rec["intervals"] = _jsonable_intervals(res["intervals"])
            if res["st"] == "violation":
                sk, sub, r = attribute_intervals(spec, res)
                rec["sig"] = "numeric_intervals_from_regex:" + sk + ":" + r["kind"]
                rec["spec"], rec["min"] = spec, sub
                rec["what"] = (f"numeric_intervals_from_regex({show(sub)}) = "
                               f"{_jsonable_intervals(r['intervals']) if r.get('intervals') is not None else 'raises'}: "
                               + (f"n = {r['n']} is " + ("matched by the regex but outside the intervals"
                                                         if r["kind"].startswith("matched") else "inside the intervals but no string "
                                                         "sign.0^k.digits with that value is matched") + "; " if r.get("n") is not None else "")
                               + str(r.get("detail")))
            return rec
        res = check_compress(spec)
        rec = {"kind": kind, "fam": fam, "k": "compress [" + ", ".join(show(s) for s in spec) + "]", "st": res["st"]}
        rec.update({k: v for k, v in res.items() if k in ("z3", "changed", "detail")})
        if res["st"] == "violation":
            rec["sig"] = "compress_concatenation_elements:" + group_shape(spec) + ":" + res["kind"]
            rec["spec"] = spec
            rec["what"] = "compress_concatenation_elements([" + ", ".join(show(s) for s in spec) + "]): " + res["detail"]
        return rec
    except _Watchdog:
        return {"kind": kind, "fam": fam, "k": kind + " " + json.dumps(spec)[:200], "st": "inconclusive", "detail": "watchdog expired"}
    finally:
        signal.setitimer(signal.ITIMER_REAL, 0)


def work_chunk(tasks) -> List[Dict[str, Any]]:
    return [work(t) for t in tasks]


def _jsonable_intervals(ivs):
    return [["-inf" if lo <= -MAXSIZE else lo, "+inf" if hi >= MAXSIZE else hi] for lo, hi in ivs]


def _quiet_worker():
    import logging
    logging.disable(logging.CRITICAL)


# --------------------------------------------------------------------------- #
# driver
# --------------------------------------------------------------------------- #

def _sanity(rep, seed: int) -> None:
    z3 = _z3()
    import isla.language  # noqa: F401
    # 1. own matcher against Z3's str.in_re on a sample
    rng = random.Random(seed + 1)
    base = atoms("quick")
    bad = 0
    n = 0
    for _ in range(60):
        spec = gen_regex(rng, 2, base)
        r = build(spec)
        m = Matcher(r)
        for s in ("", "0", "5", "-5", "+05", "007", "12", "-0", "10", "0-5", "+", "99", "-120", "000"):
            n += 1
            if m.matches(s) != z3.is_true(z3.simplify(z3.InRe(z3.StringVal(s), r))):
                bad += 1
    lp = z3.Loop(z3.Re("ab"), 1, 2)
    for s, exp in (("", False), ("ab", True), ("abab", True), ("ababab", False), ("a", False)):
        n += 1
        if Matcher(lp).matches(s) != exp:
            bad += 1
    rep.section("sanity", matcher_vs_z3_cases=n, matcher_vs_z3_disagreements=bad)
    if bad:
        rep.checker_error(f"own matcher disagrees with Z3 str.in_re on {bad} of {n} sample cases")
    # 2. the documented examples satisfy the contract with their documented
    #    results, and a wrong result is flagged
    for spec, ivs in DOCTESTS:
        r = check_intervals(spec, intervals=ivs)
        if r["st"] != "ok":
            rep.checker_error(f"sanity: documented result {ivs} of {show(spec)} is judged {r}")
    r = check_intervals(DOCTESTS[2][0], intervals=[(1, 6)])
    if r["st"] != "violation" or r["n"] != 6:
        rep.checker_error("sanity: the wrong result [(1,6)] for Union(Range(1,4),Re(5)) is not flagged")
    r = check_intervals(DOCTESTS[7][0], intervals=[(2, 9)])
    if r["st"] != "violation" or r["n"] != -2:
        rep.checker_error("sanity: the incomplete result [(2,9)] for (+|-)[2-9] is not flagged")
    # 3. language_difference sees a* a != a*
    a = z3.Re("a")
    if language_difference(Matcher(z3.Concat(z3.Star(a), a)), Matcher(z3.Star(a)), ["a"], 6) != "":
        rep.checker_error("sanity: a*a and a* are not told apart")


def run(rep, tier, seed):
    import warnings
    warnings.filterwarnings("ignore")
    rep.assume("integer value of a string (from the docstring of numeric_intervals_from_regex: '+' and '-' signs are "
               "recognized, 'always with an optional left-padding of 0s'): strings  [+-]?0*d+  have the value -|n| for '-' "
               "and |n| otherwise ('-0' = 0); every other matched string ('', '+', '0-5') has no integer value and is ignored")
    rep.assume("interval ends -sys.maxsize / sys.maxsize are read as -oo / +oo (docstring); all other ends are closed")
    rep.assume("only terms generated from the documented grammar (plus the docstring examples) are judged; ranges are ordered "
               "(documented pre-condition); a Nothing result is never a violation")
    rep.assume("oracle: own Thompson-NFA matcher over z3 terms, cross-checked against Z3 str.in_re at every run; Z3 is trusted "
               "for the per-instance inequivalence query of compress_concatenation_elements")
    rep.assume("compress_concatenation_elements: elements are not concatenations themselves (docstring pre-condition)")
    rep.rule("intervals: every term t of the documented grammar (atoms; unions; the four <sequence> forms; random nesting to "
             "depth 3) with a Some result: n in union <=> some sign.0^k.digits(|n|) matched, for every n in [-1200,1200], the "
             "finite interval ends +-1 and +-99999, +-10^19; a Nothing result is a trivial case.  compress: element lists "
             "(every star/plus/plain sequence of length <= 4 over one base, nested star/plus, random mixed lists of length "
             "<= 5): languages equal on all strings <= 6 over the characters of the list, then a Z3 inequivalence query")
    rep.bound(f"n in [-{N_RANGE},{N_RANGE}] + interval ends +-1 + {BIG}; zero padding k <= 3 + #zero literals (max 7); grammar "
              "nesting depth <= 3; compress: lists of <= 5 elements, strings <= 6 over <= 4 characters")
    rep.exhaustive = False
    _sanity(rep, seed)

    tasks: List[Any] = [("intervals", fam, spec) for fam, spec in interval_terms(tier, seed)]
    tasks += [("compress", "compress", specs) for specs in compress_instances(tier, seed)]
    chunk = 12
    chunks = [tasks[i:i + chunk] for i in range(0, len(tasks), chunk)]
    counters: Dict[str, Dict[str, int]] = {}
    samples = 0
    t0 = time.time()
    deadline = t0 + (2400 if tier == "thorough" else 900)   # safety net for an overloaded machine only
    for k in range(3, 8):        # built once, shared copy-on-write by the workers
        _trie_for(k)
    import gc
    gc.freeze()
    ctx = multiprocessing.get_context("fork")
    pool = ctx.Pool(16, initializer=_quiet_worker)
    try:
        it = pool.imap(work_chunk, chunks)
        for ci in range(len(chunks)):
            try:
                recs = it.next(timeout=max(5.0, deadline - time.time()))
            except multiprocessing.TimeoutError:
                rep.note_inconclusive(f"global watchdog: {len(chunks) - ci} of {len(chunks)} chunks not evaluated")
                break
            for rec in recs:
                c = counters.setdefault(rec["fam"], {})
                st = rec["st"]
                c[st] = c.get(st, 0) + 1
                if rec.get("z3"):
                    c["z3-" + rec["z3"]] = c.get("z3-" + rec["z3"], 0) + 1
                if rec.get("changed"):
                    c["result-differs-from-input"] = c.get("result-differs-from-input", 0) + 1
                sample = None
                if samples < 12 and st in ("ok", "violation") and c[st] % 211 == 1:
                    sample = {"case": rec["k"], "status": st, "intervals": rec.get("intervals"), "z3": rec.get("z3")}
                    samples += 1
                rep.case(key=rec["k"], nontrivial=(st != "nothing"), sample=sample)
                if st == "inconclusive":
                    rep.note_inconclusive(rec["k"] + ": " + str(rec.get("detail")))
                elif st == "violation":
                    case = {"kind": rec["kind"], "spec": rec.get("min", rec["spec"]), "found_in": rec["spec"]}
                    rep.violation(rec["sig"], rec["what"], {"module": MODULE, "case": case})
    finally:
        pool.terminate()
        pool.join()
    for fam, c in sorted(counters.items()):
        rep.section(fam, **c)
    for fam in ("depth0", "depth1-union", "depth1-sequence", "depth2", "depth3"):
        c = counters.get(fam, {})
        if c.get("ok", 0) + c.get("violation", 0) == 0:
            rep.checker_error(f"intervals family {fam}: no term with a Some result was judged")
    c = counters.get("compress", {})
    if c.get("ok", 0) + c.get("violation", 0) == 0 or c.get("result-differs-from-input", 0) == 0:
        rep.checker_error("compress family: no instance judged or no instance on which the function changes its input")
    rep.section("wall", seconds=round(time.time() - t0, 1), tasks=len(tasks))


def replay(path: str) -> int:
    import warnings
    warnings.filterwarnings("ignore")
    import isla.language  # noqa: F401
    data = json.load(open(path, encoding="utf-8"))
    case = data["case"]
    if case["kind"] == "intervals":
        spec = case["spec"]
        res = call_intervals(spec)
        print(f"numeric_intervals_from_regex({show(spec)}) -> {res}")
        r = check_intervals(spec)
        print("  ", {k: v for k, v in r.items() if k != "intervals"})
        return 1 if r["st"] == "violation" else 0
    r = check_compress(case["spec"])
    print("compress_concatenation_elements([" + ", ".join(show(s) for s in case["spec"]) + "]) ->", r)
    return 1 if r["st"] == "violation" else 0
