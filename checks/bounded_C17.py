"""C17 -- serialisation round trips (bounded).

Contract (property statement C17):

A. trees: for every history over the actions {k_paths on the root, k_paths on
   a child, hash(), structural_hash(), str(), is_open(), to_json/from_json,
   pickle.dumps/loads, copy.deepcopy} (length <= 4) applied to ONE live tree
   * no action raises;
   * every decoded tree has the structure, the node ids and the string of the
     original (own traversals), is ``==`` to it and answers hash/k_paths alike;
   * after the history all observations on the original equal those of a fresh
     twin (same structure, same ids) that never saw a serialisation.
B. ``SMTFormula`` pickle round trip for string literals of a critical set:
   the unpickled formula ``==`` the original, its literal denotes the same
   string (decided by z3) and both formulas evaluate alike on sample strings.
C. CLI JSON: ``cli.derivation_tree_to_json`` -> ``json.loads`` ->
   ``DerivationTree.from_parse_tree`` gives the same tree (structure, string),
   also through ``isla solve --tree`` / ``isla parse``.
"""
from __future__ import annotations

import copy
import io
import itertools
import json
import multiprocessing as mp
import os
import pickle
import random
import shutil
import signal
import tempfile
import traceback
from typing import Dict, List, Optional, Tuple

MODULE = "checks.bounded_C17"
ACTIONS = ["kp_root", "kp_conc", "kp_child", "hash", "shash", "str", "open", "json", "pickle", "deepcopy"]
K = 3

SPECIAL_GRAMMAR = {
    "<start>": ["<s>"],
    "<s>": ["<q><s>", "<q>"],
    "<q>": ['"', "\\", "\n", "ä", "€", "\\u{41}", "a", "\t", "'", "\U0001F600"],
}


# --------------------------------------------------------------------------- #
# trees
# --------------------------------------------------------------------------- #

_STRUCTS: Dict[str, tuple] = {}
_GRAPHS: Dict[str, object] = {}


def _tree(name: str):
    """-> (tree with fresh ids, grammar); structure cached per process"""
    from bounded.reftree import from_struct, to_struct
    if name not in _STRUCTS:
        t, g = _tree_uncached(name)
        _STRUCTS[name] = (to_struct(t), g)
    st, g = _STRUCTS[name]
    return from_struct(st), g


def _graph(name: str, g):
    from grammar_graph import gg
    if name not in _GRAPHS:
        _GRAPHS[name] = gg.GrammarGraph.from_grammar(g)
    return _GRAPHS[name]


def _tree_uncached(name: str):
    from bounded.grammars import GRAMMARS
    from bounded.reftree import tree_from_string, from_struct, ref_prefixes, to_struct
    from bounded.c16_trees import build
    if name == "assgn":
        g = GRAMMARS["assgn"]
        return tree_from_string(g, "a := 1 ; b := a"), g
    if name == "assgn-open":
        g = GRAMMARS["assgn"]
        t = tree_from_string(g, "a := 1 ; b := a")
        pre = ref_prefixes(t, limit=40)
        return from_struct(to_struct(pre[17 % len(pre)])), g
    if name == "xmlish":
        g = GRAMMARS["xmlish"]
        return tree_from_string(g, "<a><b>tt</b></a>", eps_style="empty"), g
    if name == "nullable":
        g = GRAMMARS["nullable"]
        # parser-style epsilon nodes (children == ()); grammar_graph rejects the ("", ()) child style
        return tree_from_string(g, "-nn", eps_style="empty"), g
    if name == "special":
        g = SPECIAL_GRAMMAR
        qs = SPECIAL_GRAMMAR["<q>"]

        def chain(i):
            q = ("<q>", ((qs[i], ()),))
            if i == len(qs) - 1:
                return ("<s>", (q,))
            return ("<s>", (q, chain(i + 1)))
        return from_struct(("<start>", (chain(0),))), g
    if name == "wide40":
        t, g, _ = build(["wide", 40, 2])
        return t, g
    raise ValueError(name)


TREES = ["assgn", "assgn-open", "xmlish", "nullable", "special", "wide40"]


def _twin(t):
    from isla.derivation_tree import DerivationTree
    if t.children is None:
        return DerivationTree(t.value, None, id=t.id)
    return DerivationTree(t.value, [_twin(c) for c in t.children], id=t.id)


def _kp(paths) -> list:
    return sorted(tuple(f"{type(n).__name__}:{getattr(n, 'symbol', n)}" for n in p) for p in paths)


def _child_of(t):
    from bounded.reftree import ref_paths, is_nt
    for p, n in ref_paths(t):
        if p and is_nt(n.value) and n.children:
            return n
    for p, n in ref_paths(t):
        if p:
            return n
    return t


def _clear_lru():
    """The twin is ==-equal to the original (same ids), so ISLa's lru_cached methods would answer
    for the original from the twin's entries; drop them so that the original is really observed."""
    from isla.derivation_tree import DerivationTree
    for name in ("paths", "to_string", "get_subtree", "trie", "depth"):
        fn = getattr(DerivationTree, name, None)
        if fn is not None and hasattr(fn, "cache_clear"):
            fn.cache_clear()


def _observe(t, graph) -> dict:
    """ISLa's own observers on ``t`` (fills caches)."""
    child = _child_of(t)
    return dict(str=str(t), open=t.is_open(), hash=hash(t), shash=t.structural_hash(),
                kp_root=_kp(t.k_paths(graph, K)), kp_child=_kp(child.k_paths(graph, K)),
                len=len(t), paths=[(p, n.value, n.id) for p, n in t.paths()],
                kp_root_concrete=_kp(t.k_paths(graph, K, include_potential_paths=False)))


def _decoded_ok(d, t, base, graph, how: str) -> List[Tuple[str, str]]:
    from bounded.reftree import to_struct, ref_paths, ref_str, ref_open
    out = []
    if to_struct(d) != to_struct(t):
        out.append((f"{how}:decoded-structure-differs", f"{to_struct(d)!r:.120} vs {to_struct(t)!r:.120}"))
        return out
    if [n.id for _, n in ref_paths(d)] != [n.id for _, n in ref_paths(t)]:
        out.append((f"{how}:decoded-node-ids-differ", f"{[n.id for _, n in ref_paths(d)][:6]} vs {[n.id for _, n in ref_paths(t)][:6]}"))
    if str(d) != ref_str(t):
        out.append((f"{how}:decoded-string-differs", f"{str(d)!r:.80} vs {ref_str(t)!r:.80}"))
    if d.is_open() != ref_open(t):
        out.append((f"{how}:decoded-openness-differs", f"{d.is_open()} vs {ref_open(t)}"))
    if not (d == t):
        out.append((f"{how}:decoded-not-equal-to-original", "d == t is False"))
    try:
        if hash(d) != base["hash"] or d.structural_hash() != base["shash"]:
            out.append((f"{how}:decoded-hash-differs", f"{hash(d)}/{d.structural_hash()} vs {base['hash']}/{base['shash']}"))
        if _kp(d.k_paths(graph, K)) != base["kp_root"]:
            out.append((f"{how}:decoded-k_paths-differ", "k_paths(graph,3) of the decoded tree differs"))
        # the decoded tree can itself be serialised again
        d2 = pickle.loads(pickle.dumps(d))
        if to_struct(d2) != to_struct(t):
            out.append((f"{how}:decoded-tree-does-not-round-trip-again", ""))
    except Exception as exc:  # noqa
        out.append((f"{how}:decoded-tree-unusable:{type(exc).__name__}", f"{exc}"[:200]))
    return out


def run_tree_history(tree_name: str, actions: Tuple[str, ...]) -> List[Tuple[str, str]]:
    """-> violations [(signature, what)]"""
    from grammar_graph import gg
    from isla.derivation_tree import DerivationTree
    t, g = _tree(tree_name)
    graph = _graph(tree_name, g)
    base = _observe(_twin(t), graph)
    _clear_lru()
    child = _child_of(t)
    out: List[Tuple[str, str]] = []
    hist = "+".join(actions)
    cached: List[str] = []  # which caches were filled before the failing action
    for i, a in enumerate(actions):
        prev = "after-" + ("+".join(sorted(set(cached))) if cached else "nothing-cached")
        try:
            if a == "kp_root":
                v = _kp(t.k_paths(graph, K))
                if v != base["kp_root"]:
                    out.append((f"k_paths(root):value-changed:{prev}", f"history {hist} on {tree_name}"))
                cached.append("k_paths(root)")
            elif a == "kp_conc":
                # the second k-path cache (concrete paths only, as the solver's cost function computes them)
                v = _kp(t.k_paths(graph, K, include_potential_paths=False))
                if v != base["kp_root_concrete"]:
                    out.append((f"k_paths(root,concrete):value-changed:{prev}", f"history {hist} on {tree_name}"))
                cached.append("k_paths(root,concrete)")
            elif a == "kp_child":
                v = _kp(child.k_paths(graph, K))
                if v != base["kp_child"]:
                    out.append((f"k_paths(child):value-changed:{prev}", f"history {hist} on {tree_name}"))
                cached.append("k_paths(child)")
            elif a == "hash":
                if hash(t) != base["hash"]:
                    out.append((f"hash:value-changed:{prev}", f"history {hist} on {tree_name}"))
                cached.append("hash")
            elif a == "shash":
                if t.structural_hash() != base["shash"]:
                    out.append((f"structural_hash:value-changed:{prev}", f"history {hist} on {tree_name}"))
                cached.append("structural_hash")
            elif a == "str":
                if str(t) != base["str"]:
                    out.append((f"str:value-changed:{prev}", f"history {hist} on {tree_name}"))
            elif a == "open":
                if t.is_open() != base["open"]:
                    out.append((f"is_open:value-changed:{prev}", f"history {hist} on {tree_name}"))
                cached.append("is_open")
            elif a == "json":
                d = DerivationTree.from_json(t.to_json())
                out += [(s, f"history {hist} on {tree_name}: {w}") for s, w in _decoded_ok(d, t, base, graph, "to_json/from_json")]
                cached.append("serialised")
            elif a == "pickle":
                d = pickle.loads(pickle.dumps(t))
                out += [(s, f"history {hist} on {tree_name}: {w}") for s, w in _decoded_ok(d, t, base, graph, "pickle")]
                cached.append("serialised")
            elif a == "deepcopy":
                d = copy.deepcopy(t)
                out += [(s, f"history {hist} on {tree_name}: {w}") for s, w in _decoded_ok(d, t, base, graph, "deepcopy")]
                cached.append("serialised")
        except Exception as exc:  # noqa
            out.append((f"{a}:raises-{type(exc).__name__}:{prev}",
                        f"history {hist} on {tree_name}, action #{i + 1} {a}: {type(exc).__name__}: {exc}"[:300]))
            return out
    # all observations on the original are unchanged
    try:
        final = _observe(t, graph)
    except Exception as exc:  # noqa
        out.append((f"original-unusable-after-history:{type(exc).__name__}:after-{'+'.join(sorted(set(cached))) or 'nothing'}",
                    f"history {hist} on {tree_name}: {type(exc).__name__}: {exc}"[:300]))
        return out
    for k in base:
        if final[k] != base[k]:
            out.append((f"original-observation-changed:{k}:after-{'+'.join(sorted(set(cached))) or 'nothing'}",
                        f"history {hist} on {tree_name}: {k} = {final[k]!r:.80} vs fresh twin {base[k]!r:.80}"))
    return out


# --------------------------------------------------------------------------- #
# SMT formulas
# --------------------------------------------------------------------------- #

CRITICAL_LITERALS = [
    "", "a", "abc", " ", 'a"b', '"', '""', '"a"', "a\\b", "\\", "\\\\", '\\"', "a\nb", "\n", "\t", "\r\n",
    "ä", "é€", "ß", "\U0001F600", "\\u{41}", "\\u{}", "\\u{e4}", "\\x41", "\\n", "a'b", "(", ")", "(a b)",
    ";", 'a;b"c', "|", "\x00", "\x7f", "\x80", "ÿ", "Ā", "{", "}", "u{", "<start>", "a b", "0", "-1",
]


def _lit_class(s: str) -> str:
    """One class per literal (first match), to keep signatures few and stable."""
    if '"' in s:
        return "double-quote"
    if any(ord(c) > 127 for c in s):
        return "non-ascii"
    if "\\" in s:
        return "backslash"
    if any(ord(c) < 32 or ord(c) == 127 for c in s):
        return "control-char"
    return "plain-ascii"


def _z3_lit(s: str):
    import z3
    escaped = "".join(ch if 32 <= ord(ch) < 127 and ch != "\\" else "\\u{%x}" % ord(ch) for ch in s)
    return z3.StringVal(escaped)


def _z3_true(e) -> Optional[bool]:
    import z3
    r = z3.simplify(e)
    if z3.is_true(r):
        return True
    if z3.is_false(r):
        return False
    s = z3.Solver()
    s.set("timeout", 5000)
    s.add(z3.Not(e))
    c = s.check()
    return True if c == z3.unsat else False if c == z3.sat else None


def run_smt_case(lit: str, shape: str) -> Tuple[List[Tuple[str, str]], bool]:
    """-> (violations, conclusive)"""
    import z3
    import isla.language as L
    from isla.z3_helpers import z3_eq
    x = L.Constant("x", "<start>")
    lv = _z3_lit(lit)
    # the literal must denote `lit` before we start (guards the harness)
    if _z3_true(z3_eq(z3.Length(lv), z3.IntVal(len(lit)))) is not True:
        return [("HARNESS", f"z3 literal for {lit!r} has wrong length")], True
    if shape == "eq":
        f = L.SMTFormula(z3_eq(x.to_smt(), lv), x)
    elif shape == "in_re":
        f = L.SMTFormula(z3.InRe(x.to_smt(), z3.Concat(z3.Re(lv), z3.Star(z3.Re(z3.StringVal("z"))))), x)
    else:  # two literals and an integer
        f = L.SMTFormula(z3.And(z3.PrefixOf(lv, x.to_smt()), z3.Not(z3_eq(x.to_smt(), z3.StringVal("q"))),
                                z3.Length(x.to_smt()) >= z3.IntVal(len(lit))), x)
    cls = _lit_class(lit)
    out: List[Tuple[str, str]] = []
    try:
        g = pickle.loads(pickle.dumps(f))
    except Exception as exc:  # noqa
        return [(f"SMTFormula.pickle:raises-{type(exc).__name__}:literal-with-{cls}",
                 f"literal {lit!r} shape {shape}: {type(exc).__name__}: {str(exc)[:160]}")], True
    if not (g == f):
        out.append((f"SMTFormula.pickle:unpickled-formula-differs:literal-with-{cls}",
                    f"literal {lit!r} shape {shape}: original {f.formula.sexpr()!r:.100} unpickled {g.formula.sexpr()!r:.100}"))
    if list(g.free_variables_) != list(f.free_variables_) or g.substitutions != f.substitutions:
        out.append(("SMTFormula.pickle:variables-or-substitutions-differ", f"literal {lit!r}"))
    conclusive = True
    for sample in (lit, lit + "z", "q", "", lit + lit):
        sv = _z3_lit(sample)
        a = _z3_true(z3.substitute(f.formula, (x.to_smt(), sv)))
        b = _z3_true(z3.substitute(g.formula, (x.to_smt(), sv)))
        if a is None or b is None:
            conclusive = False
            continue
        if a != b:
            out.append((f"SMTFormula.pickle:unpickled-formula-evaluates-differently:literal-with-{cls}",
                        f"literal {lit!r} shape {shape}: on x={sample!r} original {a}, unpickled {b}"))
            break
    return out, conclusive


# --------------------------------------------------------------------------- #
# CLI JSON
# --------------------------------------------------------------------------- #

def run_cli_json_tree(spec) -> List[Tuple[str, str]]:
    from isla.cli import derivation_tree_to_json
    from isla.derivation_tree import DerivationTree
    from bounded.reftree import to_struct, ref_str
    from bounded.c16_trees import build
    if spec[0] == "named":
        t, _g = _tree(spec[1])
    else:
        t, _g, _ = build(spec)
    out = []
    for pretty in (False, True):
        try:
            js = derivation_tree_to_json(t, pretty)
            back = DerivationTree.from_parse_tree(json.loads(js))
        except Exception as exc:  # noqa
            out.append((f"derivation_tree_to_json:round-trip-raises-{type(exc).__name__}", f"{spec}: {exc}"[:200]))
            continue
        if to_struct(back) != to_struct(t):
            out.append(("derivation_tree_to_json:tree-read-back-differs", f"{spec} pretty={pretty}: {to_struct(back)!r:.100} vs {to_struct(t)!r:.100}"))
        elif str(back) != ref_str(t):
            out.append(("derivation_tree_to_json:string-read-back-differs", f"{spec}"))
    return out


def _cli(argv, cwd):
    from isla import cli
    out, err = io.StringIO(), io.StringIO()
    old = os.getcwd()
    os.chdir(cwd)
    try:
        try:
            cli.main(*argv, stdout=out, stderr=err)
            code = 0
        except SystemExit as e:
            code = e.code if isinstance(e.code, int) else (0 if e.code is None else 1)
    finally:
        os.chdir(old)
    return code, out.getvalue(), err.getvalue()


def run_cli_commands(gname: str, seed: int) -> Tuple[List[Tuple[str, str]], int]:
    """solve --tree and parse: the JSON printed reads back as a valid tree with
    the printed string; check accepts it.  -> (violations, number of JSON trees read)"""
    from isla.derivation_tree import DerivationTree
    from bounded.grammars import GRAMMARS
    from bounded.reftree import ref_valid, ref_str, ref_open
    from bounded.c19_files import grammar_to_bnf
    g = GRAMMARS[gname]
    out: List[Tuple[str, str]] = []
    n = 0
    tmp = tempfile.mkdtemp(prefix="c17_")
    try:
        with open(os.path.join(tmp, "g.bnf"), "w") as fh:
            fh.write(grammar_to_bnf(g))
        random.seed(seed)
        code, so, se = _cli(["solve", "g.bnf", "-c", "true", "--tree", "-n", "6", "-t", "20"], tmp)
        lines = [ln for ln in so.splitlines() if ln.strip()]
        if code != 0 or not lines:
            return [("HARNESS", f"solve --tree on {gname} gave exit {code}, {len(lines)} lines, stderr {se[-200:]!r}")], 0
        for ln in lines:
            try:
                t = DerivationTree.from_parse_tree(json.loads(ln))
            except Exception as exc:  # noqa
                out.append((f"solve--tree:output-line-not-readable-as-tree:{type(exc).__name__}", f"{gname}: {ln[:120]!r}"))
                continue
            n += 1
            if ref_open(t) or not ref_valid(g, t, "<start>"):
                out.append(("solve--tree:tree-read-back-is-not-a-closed-grammar-tree", f"{gname}: {ln[:120]!r}"))
                continue
            s = ref_str(t)
            # parse the string again, compare the JSON, and feed the JSON to check
            code2, so2, se2 = _cli(["parse", "g.bnf", "-c", "true", "-i", ln], tmp)
            if code2 != 0:
                out.append(("parse:json-tree-from-solve-rejected", f"{gname}: exit {code2} {so2[-100:]!r} {se2[-100:]!r} for {ln[:100]!r}"))
            else:
                try:
                    t2 = DerivationTree.from_parse_tree(json.loads(so2))
                    if ref_str(t2) != s:
                        out.append(("parse:json-output-has-different-string", f"{gname}: {ref_str(t2)!r} vs {s!r}"))
                    n += 1
                except Exception as exc:  # noqa
                    out.append((f"parse:json-output-not-readable:{type(exc).__name__}", f"{gname}: {so2[:100]!r}"))
            code3, so3, se3 = _cli(["check", "g.bnf", "-c", "true", "-i", ln], tmp)
            if code3 != 0:
                out.append(("check:json-tree-from-solve-rejected", f"{gname}: exit {code3} {so3[-100:]!r}"))
    finally:
        shutil.rmtree(tmp, ignore_errors=True)
    return out, n


# --------------------------------------------------------------------------- #
# worker / run
# --------------------------------------------------------------------------- #

def _alarm(_s, _f):
    raise TimeoutError("watchdog")


def _worker(job):
    idx, kind, payload = job
    signal.signal(signal.SIGALRM, _alarm)
    signal.alarm(180)
    try:
        if kind == "tree":
            name, chunk = payload
            res = []
            for actions in chunk:
                res.append((list(actions), run_tree_history(name, tuple(actions))))
            return dict(idx=idx, kind=kind, name=name, res=res)
        if kind == "smt":
            lit, shape = payload
            v, concl = run_smt_case(lit, shape)
            return dict(idx=idx, kind=kind, lit=lit, shape=shape, viol=v, conclusive=concl)
        if kind == "clijson":
            return dict(idx=idx, kind=kind, spec=payload, viol=run_cli_json_tree(payload))
        if kind == "clicmd":
            gname, seed = payload
            v, n = run_cli_commands(gname, seed)
            return dict(idx=idx, kind=kind, gname=gname, seed=seed, viol=v, n=n)
    except TimeoutError:
        return dict(idx=idx, kind=kind, payload=payload, timeout=True)
    except Exception:
        return dict(idx=idx, kind=kind, payload=payload, crash=traceback.format_exc(limit=8))
    finally:
        signal.alarm(0)


def _histories(max_len: int):
    for n in range(1, max_len + 1):
        yield from itertools.product(ACTIONS, repeat=n)


def run(rep, tier, seed):
    quick = tier == "quick"
    rng = random.Random(f"C17:{seed}")
    rep.rule("A: case = (tree, action history); actions " + ",".join(ACTIONS) + f" with k_paths at k={K}; trees: " + ", ".join(TREES)
             + " (closed, open prefix, nested, epsilon nodes, terminals with quote/backslash/newline/non-ASCII/\\u{..} text, 40-children node); "
             "B: case = (literal, formula shape in eq / in_re / and-of-three-atoms); C: case = tree -> derivation_tree_to_json -> "
             "json.loads -> from_parse_tree, and solve --tree / parse / check through cli.main; every case is non-trivial")
    rep.bound("A: all histories of length <= 4 over 9 actions (7380 per tree)"
              + (" -- quick tier: all of length <= 3 (819) plus 1500 sampled of length 4 per tree" if quick else " exhaustively")
              + "; B: " + str(len(CRITICAL_LITERALS)) + " critical literals x 3 shapes"
              + ("" if quick else " plus all strings of length <= 2 over the alphabet a \" \\ \\n ä { } u") + "; C: named trees, fan/wide trees, "
              "6 solutions x 3 grammars through the CLI")
    rep.assume("oracle A: a twin tree built with DerivationTree(value, children, id=...) (same structure and ids) that is only "
               "observed, never serialised; structure/ids/strings of decoded trees by bounded.reftree traversals")
    rep.assume("hash values are compared within one process (same PYTHONHASHSEED)")
    rep.assume("oracle B: z3 itself (literal built from code points with \\u{..} escapes; equivalence of original and unpickled "
               "formula on sample strings by simplify / check); z3 'unknown' is inconclusive")
    rep.assume("C: 'the same tree' for the CLI JSON output means same structure and string; node ids are not part of the CLI format")
    rep.exhaustive = not quick

    jobs = []
    # A
    all_h = list(_histories(4))
    for name in TREES:
        if quick:
            hs = [h for h in all_h if len(h) <= 3]
            rest = [h for h in all_h if len(h) == 4]
            hs += random.Random(f"{seed}:{name}").sample(rest, 1500)
        else:
            hs = all_h
        for i in range(0, len(hs), 60):
            jobs.append(("tree", (name, hs[i:i + 60])))
    # B
    lits = list(CRITICAL_LITERALS)
    if not quick:
        alpha = ["a", '"', "\\", "\n", "ä", "{", "}", "u"]
        lits += [a + b for a in alpha for b in alpha if a + b not in lits]
    for lit in lits:
        for shape in ("eq", "in_re", "and3"):
            jobs.append(("smt", (lit, shape)))
    # C
    for name in TREES:
        jobs.append(("clijson", ["named", name]))
    for k in (1, 2, 28, 29, 40):
        for v in (0, 1, 2):
            jobs.append(("clijson", ["fan", k, v]))
    for gname in ("assgn", "rightrec", "csvish"):
        jobs.append(("clicmd", (gname, seed)))
    jobs = [(i, k, p) for i, (k, p) in enumerate(jobs)]
    with mp.Pool(16) as pool:
        results = pool.map(_worker, jobs, chunksize=1)
    results.sort(key=lambda r: r["idx"])

    viol = []  # (sig, size, what, case)
    counts = dict(tree_histories=0, smt_cases=0, cli_json_trees=0, cli_command_trees=0,
                  histories_with_serialisation_after_cache=0)
    for r in results:
        if r.get("timeout"):
            rep.note_inconclusive(f"watchdog: {r['kind']} {r['payload']!r:.100}")
            continue
        if r.get("crash"):
            rep.checker_error(f"worker crashed on {r['kind']} {r['payload']!r:.100}: {r['crash'][-300:]}")
            continue
        if r["kind"] == "tree":
            for actions, v in r["res"]:
                counts["tree_histories"] += 1
                ser = [i for i, a in enumerate(actions) if a in ("json", "pickle", "deepcopy")]
                if ser and any(a in ("kp_root", "kp_conc", "kp_child", "hash", "shash", "open") for a in actions[:ser[-1]]):
                    counts["histories_with_serialisation_after_cache"] += 1
                rep.case(key=(r["name"], "+".join(actions)), nontrivial=True,
                         sample=dict(tree=r["name"], history=actions) if counts["tree_histories"] % 3001 == 1 else None)
                for sig, what in v:
                    viol.append((sig, len(actions), what, dict(kind="tree", tree=r["name"], actions=actions, signature=sig)))
        elif r["kind"] == "smt":
            counts["smt_cases"] += 1
            rep.case(key=("smt", r["lit"], r["shape"]), nontrivial=True,
                     sample=dict(literal=r["lit"], shape=r["shape"]) if counts["smt_cases"] % 40 == 1 else None)
            if not r["conclusive"]:
                rep.note_inconclusive(f"z3 unknown on literal {r['lit']!r} {r['shape']}")
            for sig, what in r["viol"]:
                if sig == "HARNESS":
                    rep.checker_error(what)
                else:
                    viol.append((sig, len(r["lit"]) + (0 if r["shape"] == "eq" else 5), what,
                                 dict(kind="smt", literal=r["lit"], shape=r["shape"], signature=sig)))
        elif r["kind"] == "clijson":
            counts["cli_json_trees"] += 1
            rep.case(key=("clijson", json.dumps(r["spec"])), nontrivial=True)
            for sig, what in r["viol"]:
                viol.append((sig, 0, what, dict(kind="clijson", spec=r["spec"], signature=sig)))
        elif r["kind"] == "clicmd":
            counts["cli_command_trees"] += r["n"]
            for i in range(r["n"]):
                rep.case(key=("clicmd", r["gname"], i), nontrivial=True)
            for sig, what in r["viol"]:
                if sig == "HARNESS":
                    rep.checker_error(what)
                else:
                    viol.append((sig, 0, what, dict(kind="clicmd", gname=r["gname"], seed=r["seed"], signature=sig)))
    viol.sort(key=lambda v: (v[0], v[1], len(v[2])))
    for sig, _n, what, case in viol:
        rep.violation(sig, what, dict(module=MODULE, case=case))
    rep.section("counts", **counts)
    for k, v in counts.items():
        if not v:
            rep.checker_error(f"family counter {k} is zero")
    # sanity: verdicts known by construction
    _sanity(rep)


def _sanity(rep):
    from isla.derivation_tree import DerivationTree as D
    from bounded.reftree import to_struct
    t = D("<start>", [D("<a>", [D("x", ())])])
    d = pickle.loads(pickle.dumps(t))
    if to_struct(d) != ("<start>", (("<a>", (("x", ()),)),)) or d.id != t.id:
        rep.checker_error("sanity: pickle round trip of <start>(<a>(x)) does not give that tree")
    # the decoded-tree comparison must notice a different tree
    from grammar_graph import gg
    g = {"<start>": ["<a>"], "<a>": ["x", "y"]}
    graph = gg.GrammarGraph.from_grammar(g)
    other = D("<start>", [D("<a>", [D("y", ())])])
    if not _decoded_ok(other, t, _observe(_twin(t), graph), graph, "sanity"):
        rep.checker_error("sanity: comparison of decoded trees accepts a different tree")
    v, _ = run_smt_case("abc", "eq")
    if v:
        rep.checker_error(f"sanity: plain literal 'abc' reported {v}")
    rep.case(key="sanity", nontrivial=True)


def replay(path) -> int:
    case = json.load(open(path))["case"]
    want = case.get("signature")
    if case["kind"] == "tree":
        v = run_tree_history(case["tree"], tuple(case["actions"]))
    elif case["kind"] == "smt":
        v, _ = run_smt_case(case["literal"], case["shape"])
    elif case["kind"] == "clijson":
        v = run_cli_json_tree(case["spec"])
    else:
        v, _ = run_cli_commands(case["gname"], case["seed"])
    for s, w in v[:8]:
        print(f"  {s}: {w[:300]}")
    sigs = {s for s, _ in v}
    still = (want in sigs) if want else bool(sigs)
    print(f"{case['kind']} case {({k: v_ for k, v_ in case.items() if k != 'signature'})!r:.200}: "
          + (f"signature {want} still fails" if still else "no longer fails"))
    return 1 if still else 0
