"""C18 (bounded) -- ``ISLaSolver.check / parse / repair / mutate`` agree with the
constraint (independent oracle) and with each other.

Relations checked (property statement of C18):

R1  ``check(s)`` is True exactly when ``s`` is in the language and its parse tree
    satisfies the constraint (unambiguous ``s``: the unique tree; ambiguous
    ``s``: only when all parses agree).
R2  ``parse(s)`` raises ``SyntaxError`` iff ``s`` is not in the language, raises
    ``isla.solver.SemanticError`` iff ``s`` is in the language and violates the
    constraint, and otherwise returns a closed derivation tree whose string is ``s``.
R3  for unambiguous ``s``: ``check(tree) == check(str(tree))``.
R4  ``repair(x)`` for valid ``x`` returns ``Some(x)`` (same string / same tree).
R5  ``repair(x) == Some(y)`` implies ``y`` is a closed derivation tree satisfying
    the constraint.
R6  every tree from ``mutate(x)`` is a closed derivation tree satisfying the
    constraint.
"""

from __future__ import annotations

import json
import os
import random
import time
from typing import Any, Dict, List, Tuple

from bounded import c01_cases as cc
from bounded.c18_worker import GRAMMARS
from bounded.grammars import ENUM_NODES, terminals_chars

MODULE = "checks.bounded_C18"

MAX_LEN = 14


def _valid_strings(gname: str) -> List[str]:
    from bounded import reftree

    g = GRAMMARS[gname]
    out: List[str] = []
    seen = set()
    for struct in reftree.ref_tree_structs(g, "<start>", ENUM_NODES.get(gname, {"recstart": 22}.get(gname, 8))):
        s = reftree.ref_str(reftree.from_struct(struct))
        if s not in seen and len(s) <= (45 if gname == "wide" else MAX_LEN):
            seen.add(s)
            out.append(s)
    return out


def _mutations(s: str, alphabet: List[str], rng: random.Random, n: int) -> List[str]:
    out = []
    for _ in range(n):
        kind = rng.randrange(4)
        if kind == 0 and s:
            i = rng.randrange(len(s))
            out.append(s[:i] + s[i + 1:])
        elif kind == 1:
            i = rng.randrange(len(s) + 1)
            out.append(s[:i] + rng.choice(alphabet) + s[i:])
        elif kind == 2 and s:
            i = rng.randrange(len(s))
            out.append(s[:i] + rng.choice(alphabet) + s[i + 1:])
        elif len(s) >= 2:
            i = rng.randrange(len(s) - 1)
            out.append(s[:i] + s[i + 1] + s[i] + s[i + 2:])
    return out


def input_strings(gname: str, rng: random.Random, n_valid: int, n_mut: int) -> List[str]:
    """Deterministic input list: the shortest valid strings, seed-sampled longer
    valid ones, character-level mutations of them (in or out of the language),
    the empty string and a string over foreign characters."""
    valid = _valid_strings(gname)
    head = valid[: n_valid // 2]
    rest = valid[n_valid // 2:]
    sample = rng.sample(rest, min(len(rest), n_valid - len(head)))
    chosen = head + sample
    alphabet = terminals_chars(GRAMMARS[gname]) + ["?"]
    muts: List[str] = []
    base = list(chosen)
    rng.shuffle(base)
    for s in base:
        muts.extend(_mutations(s, alphabet, rng, 2))
        if len(muts) >= n_mut:
            break
    out: List[str] = []
    for s in chosen + muts[:n_mut] + ["", "?!"]:
        if s not in out:
            out.append(s)
    if gname in ("wide", "wide1"):
        out = [s for s in ["x", "y", "x" * 30, "x" * 29 + "y", "y" + "x" * 29, "x" * 40, "x" * 39 + "y",
                           "x" * 31, "", "xx"]]
    return out


def build_tasks(tier: str, seed: int) -> List[Dict[str, Any]]:
    rng = random.Random(f"C18:{seed}")
    quick = tier == "quick"
    n_valid, n_mut = (26, 14) if quick else (90, 60)
    strings = {g: input_strings(g, random.Random(f"C18:{seed}:{g}"), n_valid, n_mut) for g in GRAMMARS}
    templates = [dict(t) for t in cc.TEMPLATES if t["text"] is not None]
    for t in list(templates):
        if t["grammar"] == "wide":
            templates.append(dict(t, grammar="wide1", tid=t["tid"].replace("wide:", "wide1:")))
            t["cls"] = "grammar-start-with-several-alternatives"
    templates.append(dict(tid="recstart:recursive-start-symbol", grammar="recstart", cls="recursive-start-symbol",
                          text='exists <A> a: str.len(a) >= 3', expect="sat"))
    # repair / mutate are expensive: quick runs them for a seed-selected subset of the templates
    rm_templates = set(t["tid"] for t in (rng.sample(templates, 64) if quick else templates))
    tasks = []
    for t in templates:
        ss = strings[t["grammar"]]
        task = dict(tid=t["tid"], grammar=t["grammar"], cls=t["cls"], text=t["text"], expect=t["expect"],
                    strings=ss, repairs=[], mutations=[], random_seed=seed)
        if t["tid"] in rm_templates and not t["grammar"].startswith("wide"):
            n_rep = 4 if quick else 10
            n_mutate = 1 if quick else 3
            cands = [s for s in ss if s]
            picks = rng.sample(cands, min(len(cands), n_rep))
            for k, s in enumerate(picks):
                task["repairs"].append(dict(s=s, as_tree=(k % 2 == 1), fix_timeout=rng.choice([1, 3]),
                                            budget=20 if quick else 40))
            if t["expect"] == "sat":
                for s in rng.sample(cands, min(len(cands), n_mutate)):
                    lo, hi = rng.choice([(1, 1), (2, 5), (1, 3)])
                    task["mutations"].append(dict(s=s, min=lo, max=hi, fix_timeout=rng.choice([1, 2]),
                                                  budget=20))
        # one pool task per repair()/mutate() call (they dominate the wall clock), one for all check/parse inputs
        for plan in task["repairs"]:
            tasks.append(dict(task, strings=[], repairs=[plan], mutations=[]))
        for plan in task["mutations"]:
            tasks.append(dict(task, strings=[], repairs=[], mutations=[plan]))
        tasks.append(dict(task, repairs=[], mutations=[]))
    tasks.sort(key=lambda k: (-(len(k["repairs"]) + len(k["mutations"])), 0 if k["grammar"] == "assgn" else 1))
    return tasks


# --------------------------------------------------------------------------- #
# Judging
# --------------------------------------------------------------------------- #


def expected_verdict(oracle: Dict[str, Any]):
    """True / False / None (no expectation: ambiguous with mixed verdicts, or inexact)."""
    if not oracle["member"]:
        return False
    if not oracle["exact"] or not oracle["verdicts"]:
        return None
    if all(oracle["verdicts"]):
        return True
    if not any(oracle["verdicts"]):
        return False
    return None


def _exc_name(r: Dict[str, Any]) -> str:
    return r["exc"]["type"]


def _func(where: str) -> str:
    parts = where.split(":")
    return f"{parts[0]}:{parts[2]}".replace("<lambda>", "lambda") if len(parts) >= 3 else where


def judge_input(obs: Dict[str, Any]) -> Tuple[List[Tuple[str, str]], List[str], bool]:
    """-> (violations [(signature-core, text)], inconclusive notes, nontrivial)"""
    vio: List[Tuple[str, str]] = []
    inc: List[str] = []
    oracle = obs["oracle"]
    exp = expected_verdict(oracle)
    s = obs["s"]
    nontrivial = oracle["member"]
    undecided = bool(oracle["note"]) and "OracleUndecided" in oracle["note"]
    # R1 ---------------------------------------------------------------
    c = obs["check_str"]
    if "watchdog" in c:
        inc.append(f"check({s!r}) watchdog")
    elif "exc" in c:
        if _exc_name(c) == "UnknownResultError":
            inc.append(f"check({s!r}) raised UnknownResultError")
        elif undecided:
            inc.append(f"check({s!r}) raised {_exc_name(c)} at {c['exc']['where']} while the oracle's Z3 query is "
                       f"undecided too ({oracle['note']})")
        else:
            vio.append((f"check(str):raises:{_exc_name(c)}",
                        f"check({s!r}) raised {_exc_name(c)}({c['exc']['msg'][:100]!r}) at {c['exc']['where']}; "
                        f"expected {exp}"))
    elif exp is None:
        if oracle["member"]:
            inc.append(f"check({s!r}): no oracle expectation ({oracle['note'] or 'ambiguous string with mixed verdicts'})")
    elif c["ok"] != exp:
        why = "not-in-language" if not oracle["member"] else ("violating" if exp is False else "valid")
        vio.append((f"check(str):{c['ok']}-for-{why}-input",
                    f"check({s!r}) = {c['ok']}; oracle: member={oracle['member']} parses={oracle['parses']} "
                    f"verdicts={oracle['verdicts']}"))
    # R2 ---------------------------------------------------------------
    p = obs["parse"]
    if "watchdog" in p:
        inc.append(f"parse({s!r}) watchdog")
    elif "exc" in p:
        name = _exc_name(p)
        if name == "SyntaxError":
            if oracle["member"]:
                vio.append(("parse:SyntaxError-for-member", f"parse({s!r}) raised SyntaxError but the string is in the language"))
        elif name == "SemanticError":
            if not oracle["member"]:
                vio.append(("parse:SemanticError-for-non-member", f"parse({s!r}) raised SemanticError, string not in the language"))
            elif exp is True:
                vio.append(("parse:SemanticError-for-valid-input",
                            f"parse({s!r}) raised SemanticError; oracle verdicts {oracle['verdicts']}"))
        elif name == "UnknownResultError":
            inc.append(f"parse({s!r}) raised UnknownResultError")
        elif undecided:
            inc.append(f"parse({s!r}) raised {name} at {p['exc']['where']} while the oracle's Z3 query is undecided too")
        else:
            vio.append((f"parse:raises:{name}",
                        f"parse({s!r}) raised {name}({p['exc']['msg'][:100]!r}) at {p['exc']['where']}; expected "
                        f"{'SyntaxError' if not oracle['member'] else ('a tree' if exp else 'SemanticError' if exp is False else 'a tree or SemanticError')}"))
    else:
        t = p["ok"]
        if not oracle["member"]:
            vio.append(("parse:no-SyntaxError-for-non-member", f"parse({s!r}) returned {t.get('str')!r}, string not in the language"))
        else:
            if not t["is_tree"] or t["open"] or not t["valid"]:
                vio.append(("parse:result-not-a-closed-derivation-tree", f"parse({s!r}) returned {t}"))
            elif t["str"] != s:
                vio.append(("parse:result-string-differs", f"parse({s!r}) returned a tree for {t['str']!r}"))
            if exp is False:
                vio.append(("parse:no-SemanticError-for-violating-input",
                            f"parse({s!r}) returned a tree; oracle verdicts {oracle['verdicts']}"))
    # R3 ---------------------------------------------------------------
    if "ok" in c:
        for style in ("child", "empty"):
            ct = obs.get("check_tree_" + style)
            if ct is None:
                continue
            if "watchdog" in ct:
                inc.append(f"check(tree of {s!r}) watchdog")
            elif "exc" in ct:
                if _exc_name(ct) == "UnknownResultError" or undecided:
                    inc.append(f"check(tree of {s!r}) raised {_exc_name(ct)}")
                else:
                    vio.append((f"check(tree):raises:{_exc_name(ct)}-but-check(str)-returns",
                                f"check(tree[{style}-style epsilon] of {s!r}) raised {_exc_name(ct)} at "
                                f"{ct['exc']['where']}, check(str) = {c['ok']}"))
            elif ct["ok"] != c["ok"]:
                vio.append((f"check(tree)!=check(str):epsilon-style-{style}",
                            f"unambiguous {s!r}: check(tree) = {ct['ok']} but check(str) = {c['ok']} "
                            f"(oracle verdicts {oracle['verdicts']})"))
    return vio, inc, nontrivial


def _result_tree_failures(t: Dict[str, Any]) -> List[str]:
    if not t["is_tree"]:
        return ["non-tree"]
    out = []
    if t["open"]:
        out.append("open-tree")
    if not t["valid"]:
        out.append("non-derivation-tree")
    if t["eval"] is False and t["exact"]:
        out.append("constraint-violating-tree")
    return out


def judge_repair(e: Dict[str, Any]) -> Tuple[List[Tuple[str, str]], List[str], str]:
    vio: List[Tuple[str, str]] = []
    inc: List[str] = []
    exp = expected_verdict(e["oracle"])
    s = e["s"]
    r = e["result"]
    kind = "valid" if exp is True else "violating" if exp is False else "undetermined"
    how = "tree" if e["as_tree"] else "str"
    if "watchdog" in r:
        inc.append(f"repair({s!r}) watchdog")
    elif "exc" in r:
        undecided = bool(e["oracle"]["note"]) and "OracleUndecided" in e["oracle"]["note"]
        if _exc_name(r) == "UnknownResultError" or undecided:
            inc.append(f"repair({s!r}) raised {_exc_name(r)} at {r['exc']['where']}")
        else:
            vio.append((f"repair:raises:{_exc_name(r)}:{_func(r['exc']['where'])}",
                        f"repair({how} {s!r}, fix_timeout_seconds={e['fix_timeout']}) raised {_exc_name(r)}"
                        f"({r['exc']['msg'][:100]!r}) at {r['exc']['where']}; expected Some(valid tree) or Nothing"))
    elif "nothing" in r:
        if exp is True and e["oracle"]["parses"] == 1:
            vio.append(("repair:Nothing-for-valid-input", f"repair({how} {s!r}) returned Nothing; the input satisfies the constraint"))
    else:
        t = r["some"]
        fails = _result_tree_failures(t)
        for f in fails:
            vio.append((f"repair:returns-{f}",
                        f"repair({how} {s!r}, fix_timeout_seconds={e['fix_timeout']}) returned {t.get('str', t.get('repr'))!r}: "
                        f"open={t.get('open')} valid={t.get('valid')} satisfies={t.get('eval')}"))
        if t.get("is_tree") and t.get("eval") is None and not fails:
            inc.append(f"repair({s!r}) result {t.get('str')!r}: {t.get('note')}")
        if exp is True and e["oracle"]["parses"] == 1 and t.get("is_tree"):
            if t["str"] != s:
                vio.append(("repair:changes-valid-input",
                            f"repair({how} {s!r}) returned {t['str']!r}; the input already satisfies the constraint"))
            elif e["as_tree"] and not r.get("same_struct"):
                vio.append(("repair:changes-valid-input-tree",
                            f"repair(tree of {s!r}) returned a structurally different tree with the same string"))
    return vio, inc, kind


def judge_mutation(e: Dict[str, Any]) -> Tuple[List[Tuple[str, str]], List[str]]:
    vio: List[Tuple[str, str]] = []
    inc: List[str] = []
    r = e["result"]
    s = e["s"]
    if "watchdog" in r:
        inc.append(f"mutate({s!r}) watchdog")
    elif "exc" in r:
        undecided = bool(e["oracle"]["note"]) and "OracleUndecided" in e["oracle"]["note"]
        if _exc_name(r) == "UnknownResultError" or undecided:
            inc.append(f"mutate({s!r}) raised {_exc_name(r)} at {r['exc']['where']}")
        else:
            vio.append((f"mutate:raises:{_exc_name(r)}:{_func(r['exc']['where'])}",
                        f"mutate({s!r}, min_mutations={e['min_mutations']}, max_mutations={e['max_mutations']}, "
                        f"fix_timeout_seconds={e['fix_timeout']}) raised {_exc_name(r)}({r['exc']['msg'][:100]!r}) at "
                        f"{r['exc']['where']}; expected a tree satisfying the constraint"))
    else:
        t = r["tree"]
        for f in _result_tree_failures(t):
            vio.append((f"mutate:returns-{f}",
                        f"mutate({s!r}, min_mutations={e['min_mutations']}, max_mutations={e['max_mutations']}, "
                        f"fix_timeout_seconds={e['fix_timeout']}) returned {t.get('str', t.get('repr'))!r}: "
                        f"open={t.get('open')} valid={t.get('valid')} satisfies={t.get('eval')}"))
        if t.get("is_tree") and t.get("eval") is None and not _result_tree_failures(t):
            inc.append(f"mutate({s!r}) result {t.get('str')!r}: {t.get('note')}")
    return vio, inc


def _sanity(rep) -> None:
    o_valid = dict(member=True, parses=1, verdicts=[True], exact=True, note=None)
    o_viol = dict(member=True, parses=1, verdicts=[False], exact=True, note=None)
    o_non = dict(member=False, parses=0, verdicts=[], exact=True, note=None)
    tree = dict(is_tree=True, str="a", open=False, valid=True, eval=True, exact=True, note=None)
    a = judge_input(dict(s="a", oracle=o_valid, check_str={"ok": True}, parse={"ok": tree},
                         check_tree_child={"ok": True}, check_tree_empty={"ok": True}))[0]
    b = judge_input(dict(s="a", oracle=o_viol, check_str={"ok": True}, parse={"ok": tree}))[0]
    c = judge_input(dict(s="a", oracle=o_non, check_str={"ok": False},
                         parse={"exc": dict(type="SemanticError", msg="", where="")}))[0]
    d = judge_repair(dict(s="a", oracle=o_valid, as_tree=False, fix_timeout=1,
                          result={"some": dict(tree, str="b")}))[0]
    ok = (a == [] and [x for x, _ in b] == ["check(str):True-for-violating-input", "parse:no-SemanticError-for-violating-input"]
          and [x for x, _ in c] == ["parse:SemanticError-for-non-member"]
          and [x for x, _ in d] == ["repair:changes-valid-input"])
    rep.section("sanity", judge_sanity_cases=4, passed=bool(ok))
    if not ok:
        rep.checker_error(f"C18 judge sanity cases failed: {a} {b} {c} {d}")


def run(rep, tier: str, seed: int) -> None:
    t0 = time.time()
    _sanity(rep)
    tasks = build_tasks(tier, seed)
    rep.rule("case = (grammar, constraint template, input string) for check/parse [non-trivial iff the string is in "
             "the language], plus one case per repair() and mutate() call; inputs per grammar: shortest strings of "
             "the exhaustive tree enumeration (bounded.reftree.ref_trees up to ENUM_NODES nodes), seed-sampled longer "
             "ones, character-level mutations (delete/insert/replace/swap) of them, '' and '?!'")
    rep.bound(f"{len(set(t['tid'] for t in tasks))} (grammar, constraint) pairs from bounded.c01_cases.TEMPLATES; strings <= {MAX_LEN} "
              "characters from trees within ENUM_NODES (wide: 10 hand-picked strings up to 40 characters); "
              + ("quick: 26 valid + 14 mutated strings per grammar, repair/mutate for 64 seed-selected templates "
                 "(4 repair, 1 mutate each)" if tier == "quick" else
                 "thorough: 90 valid + 60 mutated strings per grammar, 10 repair and 3 mutate calls per template")
              + "; repair/mutate settings: fix_timeout_seconds in {1,2,3}, (min,max)_mutations in {(1,1),(2,5),(1,3)}; "
              "watchdog 15 s per check/parse, 20-40 s per repair, 20 s per mutate")
    rep.assume("oracles bounded.reftree (membership, parse counting, reference trees) and bounded.refeval are trusted")
    rep.assume("ambiguous strings: check/parse are compared only when ALL reference parses (<= 16) agree on the "
               "constraint; R3/R4 are restricted to strings with exactly one parse")
    rep.assume("UnknownResultError from check is documented and counted as inconclusive; so is any exception of "
               "check/parse/repair/mutate on an input for which the ORACLE's own ground Z3 query is `unknown`")
    rep.assume("an exception escaping repair()/mutate() means that no result was returned at all; the statement's "
               "clauses `returns ... unchanged / returns only valid inputs / every tree returned by mutate` presuppose "
               "a result, so such an exception is reported as a violation (repair:raises:... / mutate:raises:...) with "
               "the raising function in the signature, independent of the constraint class")
    rep.assume("grammar `wide` has a start symbol with several alternatives; it is kept (signature class "
               "grammar-start-with-several-alternatives) and complemented by `wide1`, the same language with a "
               "single-alternative <start>, for the wide-node cases")
    rep.assume("repair() is only called on strings of the language (its documented pre-condition)")
    rep.assume("besides bounded.grammars.GRAMMARS two local grammars are used (bounded.c18_worker): `wide1` and "
               "`recstart` = {<start>: [<A>], <A>: ['(<start>)', 'x']}, a grammar with a recursive start symbol")
    rep.exhaustive = False
    hard = {"quick": 200.0, "thorough": 900.0}[tier]
    pool = cc.KillablePool(16, "bounded.c18_worker", "run_task", hard)
    results: List[Any] = [None] * len(tasks)
    for idx, status, value in pool.run(tasks):
        results[idx] = (status, value)

    counters = dict(inputs=0, members=0, non_members=0, violating_inputs=0, valid_inputs=0, ambiguous_inputs=0,
                    check_tree_compared=0, parse_returned_tree=0, parse_SyntaxError=0, parse_SemanticError=0)
    rm = dict(repair_calls=0, repair_valid_input=0, repair_violating_input=0, repair_some=0, repair_nothing=0,
              repair_exceptions=0, repair_watchdog=0, mutate_calls=0, mutate_trees=0, mutate_exceptions=0,
              mutate_watchdog=0)
    exc_types: Dict[str, int] = {}
    dump = []
    for task, res in zip(tasks, results):
        if res is None:
            continue
        status, rec = res
        if status == "killed":
            rep.note_inconclusive(f"{task['tid']}: {rec}")
            continue
        if status != "ok":
            rep.checker_error(f"worker failed on {task['tid']}: {str(rec)[:400]}")
            continue
        if rec["error"]:
            if rec.get("ctor"):
                rep.note_inconclusive(f"{task['tid']}: {rec['error'][:200]}")
            else:
                rep.checker_error(f"{task['tid']}: {rec['error']}")
            continue
        cls = task["cls"]

        def report(core: str, text: str, payload: Dict[str, Any]):
            dump.append((task["tid"], core, text))
            sig = core if core.startswith(("repair:raises", "mutate:raises")) else f"{core}:{cls}"
            rep.violation(sig, f"grammar {task['grammar']} constraint {task['text']!r}: {text}",
                          dict(module=MODULE, case=dict(task, strings=payload.get("strings", []),
                                                        repairs=payload.get("repairs", []),
                                                        mutations=payload.get("mutations", [])), core=core))

        for obs in rec["inputs"]:
            vio, inc, nontrivial = judge_input(obs)
            o = obs["oracle"]
            counters["inputs"] += 1
            counters["members" if o["member"] else "non_members"] += 1
            exp = expected_verdict(o)
            if o["member"]:
                counters["valid_inputs" if exp is True else "violating_inputs" if exp is False else "ambiguous_inputs"] += 1
            if "check_tree_child" in obs:
                counters["check_tree_compared"] += 1
            p = obs["parse"]
            if "ok" in p:
                counters["parse_returned_tree"] += 1
            elif "exc" in p and p["exc"]["type"] in ("SyntaxError", "SemanticError"):
                counters["parse_" + p["exc"]["type"]] += 1
            rep.case(key=f"{task['tid']}|{obs['s']}", nontrivial=nontrivial,
                     sample=(dict(grammar=task["grammar"], constraint=task["text"], input=obs["s"], oracle=o,
                                  check=obs["check_str"], parse=("tree" if "ok" in p else p.get("exc", {}).get("type", "watchdog")))
                             if counters["inputs"] % 701 == 3 else None))
            for text in inc:
                rep.note_inconclusive(f"{task['tid']}: {text}")
            for core, text in vio:
                report(core, text, dict(strings=[obs["s"]]))
        for e in rec["repairs"]:
            vio, inc, kind = judge_repair(e)
            rm["repair_calls"] += 1
            if kind in ("valid", "violating"):
                rm[f"repair_{kind}_input"] += 1
            r = e["result"]
            if "some" in r:
                rm["repair_some"] += 1
            elif "nothing" in r:
                rm["repair_nothing"] += 1
            elif "exc" in r:
                rm["repair_exceptions"] += 1
                k = f"repair:{r['exc']['type']}@{r['exc']['where'].split(':')[-1]}"
                exc_types[k] = exc_types.get(k, 0) + 1
            else:
                rm["repair_watchdog"] += 1
            rep.case(key=f"{task['tid']}|repair|{e['s']}|{e['as_tree']}", nontrivial=True,
                     sample=(dict(grammar=task["grammar"], constraint=task["text"], repair_input=e["s"],
                                  input_kind=kind, result=r) if rm["repair_calls"] % 41 == 2 else None))
            for text in inc:
                rep.note_inconclusive(f"{task['tid']}: {text}")
            plan = [p for p in task["repairs"] if p["s"] == e["s"] and p["as_tree"] == e["as_tree"]]
            for core, text in vio:
                report(core, text, dict(repairs=plan))
        for e in rec["mutations"]:
            vio, inc = judge_mutation(e)
            rm["mutate_calls"] += 1
            r = e["result"]
            if "tree" in r:
                rm["mutate_trees"] += 1
            elif "exc" in r:
                rm["mutate_exceptions"] += 1
                k = f"mutate:{r['exc']['type']}@{r['exc']['where'].split(':')[-1]}"
                exc_types[k] = exc_types.get(k, 0) + 1
            else:
                rm["mutate_watchdog"] += 1
            rep.case(key=f"{task['tid']}|mutate|{e['s']}", nontrivial=True,
                     sample=(dict(grammar=task["grammar"], constraint=task["text"], mutate_input=e["s"], result=r)
                             if rm["mutate_calls"] % 17 == 1 else None))
            for text in inc:
                rep.note_inconclusive(f"{task['tid']}: {text}")
            plan = [p for p in task["mutations"] if p["s"] == e["s"]]
            for core, text in vio:
                report(core, text, dict(mutations=plan))

    rep.section("check_parse", **counters)
    rep.section("repair_mutate", exceptions_by_type=exc_types, **rm)
    rep.section("timing", wall_s=round(time.time() - t0, 1))
    if os.environ.get("C18_DUMP"):
        json.dump(dict(violations=dump, results=[r for r in results]), open(os.environ["C18_DUMP"], "w"))
    for name in ("members", "non_members", "violating_inputs", "valid_inputs", "check_tree_compared",
                 "parse_returned_tree", "parse_SyntaxError", "parse_SemanticError"):
        if counters[name] == 0:
            rep.checker_error(f"anti-vacuity: counter {name} is zero")
    for name in ("repair_valid_input", "repair_violating_input", "repair_some", "mutate_trees"):
        if rm[name] == 0:
            rep.checker_error(f"anti-vacuity: counter {name} is zero")


def replay(path: str) -> int:
    payload = json.load(open(path, encoding="utf-8"))
    task = payload["case"]
    core = payload.get("core")
    print(f"replaying {task['tid']}: constraint {task['text']!r}; strings {task['strings']} "
          f"repairs {task['repairs']} mutations {task['mutations']}; looking for {core}")
    pool = cc.KillablePool(1, "bounded.c18_worker", "run_task", 300.0)
    (_, status, rec), = list(pool.run([task]))
    if status != "ok" or rec.get("error"):
        print("could not re-run:", status, rec if status != "ok" else rec["error"])
        return 0
    found = []
    for obs in rec["inputs"]:
        vio, inc, _ = judge_input(obs)
        print(f"  input {obs['s']!r}: oracle {obs['oracle']} check={obs['check_str']} "
              f"parse={'tree ' + repr(obs['parse']['ok'].get('str')) if 'ok' in obs['parse'] else obs['parse']}")
        found += [c for c, _ in vio]
    for e in rec["repairs"]:
        vio, inc, kind = judge_repair(e)
        print(f"  repair {e['s']!r} ({kind}): {e['result']}")
        found += [c for c, _ in vio]
    for e in rec["mutations"]:
        vio, inc = judge_mutation(e)
        print(f"  mutate {e['s']!r}: {e['result']}")
        found += [c for c, _ in vio]
    still = 1 if (core in found or (core is None and found)) else 0
    print("still failing" if still else "no longer failing", found)
    return still
