"""C20 -- library semantic predicates.  Proved: decision logic of crop / just (all six justify-crop predicates) /
count / octal_to_dec_both_trees on closed arguments from their real text (over assumed parser / str / int contracts),
call-shape of the octal_to_dec dispatch chain, path helpers.  Bounded: exhaustive small scope end-to-end."""
from vlib.harness import proved_tier
from checks import bounded_C20

LEVEL = "other"


def run(rep, tier, seed):
    from checks import syntactic
    syntactic.run(rep, "C20")
    proved_tier(rep, "C20", seed, expected_min_obligations=20)
    bounded_C20.run(rep, tier, seed)


def replay(path):
    import json
    d = json.load(open(path))
    if d.get("module", "").startswith("checks.bounded_") or "case" in d:
        return bounded_C20.replay(path)
    from vlib.harness import replay_file
    return replay_file(path)
