"""C20 -- library semantic predicates. Proved (AST): call-shape of the octal_to_dec dispatch chain; path helpers used by count. Bounded: exhaustive small scope for count, octal_to_decimal, crop/just."""
from vlib.harness import proved_tier
from checks import bounded_C20

LEVEL = "other"


def run(rep, tier, seed):
    from checks import syntactic
    syntactic.run(rep, "C20")
    proved_tier(rep, "C20", seed, expected_min_obligations=2)
    bounded_C20.run(rep, tier, seed)


def replay(path):
    import json
    d = json.load(open(path))
    if d.get("module", "").startswith("checks.bounded_") or "case" in d:
        return bounded_C20.replay(path)
    from vlib.harness import replay_file
    return replay_file(path)
