"""C02 (bounded) -- every ``ISLaSolver.solve()`` call returns a tree or raises
``StopIteration`` / ``TimeoutError``, never anything else; after the first
``StopIteration`` / ``TimeoutError`` every later call raises one of the two
again ("After that, an exception will be raised every time", docstring of
``solve``).

Cases are call histories on the solver objects of ``bounded.c01_cases`` (the
same templates and settings grid as C01, an independent seed-selected subset):
up to 10 calls, then 5 more after the first terminal exception.
"""

from __future__ import annotations

import json
import os
import time
from typing import Any, Dict, List, Tuple

from bounded import c01_cases as cc
from vlib.report import msg_slug

MODULE = "checks.bounded_C02"
TERMINAL = cc.TERMINAL

family = cc.family


def _func(where: str) -> str:
    """``file.py:123:function`` -> ``file.py:function`` (no line numbers in signatures)."""
    parts = where.split(":")
    if len(parts) >= 3:
        return f"{parts[0]}:{parts[2]}".replace("<lambda>", "lambda")
    return where


def history_failures(rec: Dict[str, Any]) -> List[Tuple[str, str]]:
    """``[(signature-core, description)]`` for one call history."""
    out: List[Tuple[str, str]] = []
    first_terminal = None
    for i, call in enumerate(rec["calls"]):
        if call["kind"] == "exc":
            if call["type"] in TERMINAL:
                first_terminal = call["type"]
            else:
                out.append((f"solve:raises:{call['type']}:{_func(call['where'])}:{msg_slug(call['msg'])}",
                            f"solve() call #{i + 1} raised {call['type']}({call['msg'][:160]!r}) at {call['where']} "
                            f"(trace {' < '.join(reversed(call['trace'][-4:]))})"))
        elif call["kind"] == "non-tree":
            out.append((f"solve:returns-non-tree:{call['type']}",
                        f"solve() call #{i + 1} returned {call['repr']}"))
    if first_terminal is not None:
        for j, post in enumerate(rec["post"]):
            if post["kind"] == "exc" and post["type"] in TERMINAL:
                continue
            got = "a-tree" if post["kind"] == "tree" else post["type"]
            out.append((f"solve:not-sticky:{first_terminal}-then-{got}",
                        f"after {first_terminal} at call #{len(rec['calls'])}, later call #{j + 1} "
                        f"{'returned ' + repr(post.get('str')) if post['kind'] == 'tree' else 'raised ' + post['type'] + ' at ' + post.get('where', '?')}"))
            break
    return out


def _sanity(rep) -> None:
    good = dict(calls=[dict(kind="tree"), dict(kind="exc", type="StopIteration", msg="", where="solver.py:714:solve", trace=[])],
                post=[dict(kind="exc", type="StopIteration", msg="", where="x", trace=[])] * 5)
    bad1 = dict(calls=[dict(kind="exc", type="TypeError", msg="m", where="z3_helpers.py:1:f", trace=["a"])], post=[])
    bad2 = dict(calls=[dict(kind="exc", type="TimeoutError", msg="", where="solver.py:647:solve", trace=[])],
                post=[dict(kind="exc", type="TimeoutError", msg="", where="x", trace=[]), dict(kind="tree", str="a")])
    ok = (history_failures(good) == []
          and [s for s, _ in history_failures(bad1)] == ["solve:raises:TypeError:z3_helpers.py:f:m"]
          and [s for s, _ in history_failures(bad2)] == ["solve:not-sticky:TimeoutError-then-a-tree"])
    rep.section("sanity", history_classifier_cases=3, passed=bool(ok))
    if not ok:
        rep.checker_error("C02 history classifier sanity cases failed")


def run(rep, tier: str, seed: int) -> None:
    t0 = time.time()
    _sanity(rep)
    cases, info = cc.select_cases(tier, seed, salt="C02", quick_total=172)
    rep.rule("case = one solve() call in a call history on one solver object (constraint template of "
             "bounded.c01_cases.TEMPLATES, incl. one template per operator of the lexer grammar, x settings grid "
             "point); up to 10 calls, then 5 further calls after the first StopIteration/TimeoutError; every call is "
             "non-trivial")
    rep.rule("quick: every template once with a seed-drawn grid point plus seed-drawn templates with default "
             "settings; thorough: default settings, 30 seed-drawn grid points per template and a pairwise cover")
    rep.bound(f"{info['templates']} templates over 11 grammars, settings grid of {info['grid_points']} points (full "
              f"product {info['full_grid_solver_objects']} solver objects NOT enumerated; {info['selected']} selected "
              f"in tier {tier}); histories of <= 15 calls; timeout_seconds=10; soft watchdog 45 s, hard 75 s")
    rep.assume("constraints accepted by parse_isla from the fragment of C01; templates that parse_isla rejects "
               "(`re.none`, S-expression `str.<`) are not part of the case set")
    rep.assume("exceptions raised by the constructor ISLaSolver(...) are outside the statement (it speaks about "
               "solve() calls); they are counted as inconclusive")
    rep.assume("a history cut by the watchdog is inconclusive for the remaining calls")
    rep.exhaustive = False
    results = cc.run_cases(cases, n_procs=16)

    n_calls = n_trees = n_objects = 0
    n_stop = n_timeout = n_sticky_stop = n_sticky_timeout = n_other = 0
    samples: List[Dict[str, Any]] = []
    for case, status, rec in results:
        n_objects += 1
        cid = case["cid"]
        if status == "killed":
            rep.note_inconclusive(f"{cid}: {rec}")
            continue
        if status != "ok":
            rep.checker_error(f"worker failed on {cid}: {str(rec)[:400]}")
            continue
        if rec["formula_parse_error"]:
            rep.checker_error(f"template {case['tid']} does not parse: {rec['formula_parse_error']}")
            continue
        if rec["ctor_exc"]:
            rep.note_inconclusive(f"{cid}: constructor raised {rec['ctor_exc']['type']}: {rec['ctor_exc']['msg'][:120]}")
            rep.section("histories", constructor_exceptions=1)
            continue
        if rec["watchdog"]:
            rep.note_inconclusive(f"{cid}: soft watchdog after {len(rec['calls'])} calls")
        history = []
        for i, call in enumerate(rec["calls"]):
            n_calls += 1
            if call["kind"] == "exc":
                history.append(call["type"])
                if call["type"] == "StopIteration":
                    n_stop += 1
                elif call["type"] == "TimeoutError":
                    n_timeout += 1
                else:
                    n_other += 1
            else:
                n_trees += 1
                history.append("tree")
            rep.case(key=f"{cid}#{i}", nontrivial=True, sample=None)
        n_first = len(history)
        for j, post in enumerate(rec["post"]):
            n_calls += 1
            history.append("post:" + (post["type"] if post["kind"] == "exc" else "tree"))
            rep.case(key=f"{cid}#post{j}", nontrivial=True, sample=None)
        if rec["post"] and all(p["kind"] == "exc" and p["type"] in TERMINAL for p in rec["post"]):
            if rec["calls"][-1]["type"] == "StopIteration":
                n_sticky_stop += 1
            else:
                n_sticky_timeout += 1
        if n_objects % 23 == 1 and len(samples) < 10:
            samples.append(dict(grammar=case["grammar"], constraint=case["text"], settings=case["settings"],
                                start_symbol=case["start_symbol"], call_history=history[:n_first],
                                calls_after_first_terminal_exception=history[n_first:]))
        fam = family(case["cls"])
        for core, text in history_failures(rec):
            rep.violation(
                core if core.startswith("solve:raises:") else f"{core}:{fam}",
                f"grammar {case['grammar']} constraint {case['text']!r} (class {case['cls']}) settings "
                f"{cc.settings_key(case['settings'])} start_symbol {case['start_symbol']}: {text}; expected a tree, "
                "StopIteration or TimeoutError",
                dict(module=MODULE, case=case, core=core),
            )

    rep.samples.extend(samples)
    rep.section("histories", solver_objects=n_objects, solve_calls=n_calls, trees_returned=n_trees,
                StopIteration_first=n_stop, TimeoutError_first=n_timeout, other_exceptions=n_other,
                sticky_after_StopIteration_5_of_5=n_sticky_stop, sticky_after_TimeoutError_5_of_5=n_sticky_timeout)
    rep.section("timing", wall_s=round(time.time() - t0, 1))
    if os.environ.get("C02_DUMP"):
        json.dump([(s, r) for _, s, r in results], open(os.environ["C02_DUMP"], "w"))
    if n_trees == 0:
        rep.checker_error("no solve() call returned a tree")
    if n_stop == 0 or n_sticky_stop == 0:
        rep.checker_error("no history reached StopIteration with 5 sticky follow-up calls -- anti-vacuity")
    if n_timeout == 0 or n_sticky_timeout == 0:
        rep.checker_error("no history reached TimeoutError with 5 sticky follow-up calls -- anti-vacuity")


def replay(path: str) -> int:
    payload = json.load(open(path, encoding="utf-8"))
    case = payload["case"]
    core = payload.get("core")
    print(f"replaying {case['cid']}: constraint {case['text']!r}, looking for {core}")
    _, status, rec = cc.run_cases([case], n_procs=1)[0]
    if status != "ok":
        print("could not re-run:", status, rec)
        return 0
    for i, call in enumerate(rec["calls"]):
        print(f"  call #{i + 1}:", call.get("str") if call["kind"] == "tree" else f"raised {call['type']}: {call['msg'][:120]} at {call['where']}")
    for j, post in enumerate(rec["post"]):
        print(f"  later call #{j + 1}:", post.get("str") if post["kind"] == "tree" else f"raised {post['type']}")
    fails = history_failures(rec)
    still = 1 if any(c == core or core is None for c, _ in fails) else 0
    # the same defect class (exception type) counts as still failing even if the frame moved
    if not still and core and any(c.split(":")[:3] == core.split(":")[:3] for c, _ in fails):
        still = 1
    print("still failing" if still else "no longer failing", [c for c, _ in fails])
    return still
