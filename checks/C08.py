"""C08 -- simplified syntax. Proved: list_set, nth_occ, is_prefix used by XPath elimination. Bounded: sugared vs independently desugared core."""
from vlib.harness import proved_tier
from checks import bounded_C08

LEVEL = "other"


def run(rep, tier, seed):
    proved_tier(rep, "C08", seed, expected_min_obligations=15)
    bounded_C08.run(rep, tier, seed)


def replay(path):
    import json
    d = json.load(open(path))
    if d.get("module", "").startswith("checks.bounded_") or "case" in d:
        return bounded_C08.replay(path)
    from vlib.harness import replay_file
    return replay_file(path)
