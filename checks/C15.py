"""C15 -- integer intervals from a regex.  Proved: merge_two_intervals and the
fold step of merge_intervals keep the union and the normal form; induction
lemmas for the fold.  Bounded: numeric_intervals_from_regex vs an independent
matcher, compress_concatenation_elements language equality (bounded_C15)."""
from vlib.harness import proved_tier

LEVEL = "other"


def run(rep, tier, seed):
    proved_tier(rep, "C15", seed, expected_min_obligations=6)
    rep.assume("functools.reduce is a left fold; sorted(xs, key) is a permutation ordered by key; "
               "returns.Maybe.bind/map apply the function to the contained value (assumed library contracts)")
    try:
        from checks import bounded_C15
    except ImportError:
        rep.assume("bounded part (regex intervals vs independent matcher) not built yet")
        return
    bounded_C15.run(rep, tier, seed)


def replay(path):
    import json
    d = json.load(open(path))
    if d.get("module", "").startswith("checks.bounded_") or "case" in d:
        from checks import bounded_C15
        return bounded_C15.replay(path)
    from vlib.harness import replay_file
    return replay_file(path)
