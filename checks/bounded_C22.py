"""C22 (bounded) -- solving is reproducible for a fixed random seed.

Contract (a *reads clause*): the sequence of ``solve()`` results depends only on
(grammar, constraint, settings, state of Python's ``random``, ``PYTHONHASHSEED``).

B1 dynamic: for each (grammar, constraint, settings) triple two FRESH
    interpreters (``bounded/c22_runner.py``) with the same ``PYTHONHASHSEED`` and
    the same ``random.seed(n)`` executed before the solver is created must print
    the same first 8 results (strings, tree structure digests, and the position
    and type of a terminating exception).  A third run with another random
    seed must differ for at least one triple of the batch (anti-vacuity).
B2 static: AST scan of /repo/src/isla for nondeterminism sources outside the
    reads clause (clock reads that flow anywhere but the timeout book-keeping,
    os.urandom / uuid / secrets / SystemRandom, ``id(...)``, Z3 seed parameters
    not drawn from ``random``).
"""

from __future__ import annotations

import ast
import json
import os
import random
import subprocess
import sys
import time
from concurrent.futures import ThreadPoolExecutor
from typing import Any, Dict, List, Optional, Tuple

from bounded import c01_cases as cc

MODULE = "checks.bounded_C22"
ROOT = os.path.dirname(os.path.dirname(os.path.abspath(__file__)))
RUNNER = os.path.join(ROOT, "bounded", "c22_runner.py")
import isla as _isla_pkg
ISLA_SRC = os.path.dirname(os.path.abspath(_isla_pkg.__file__))

N_SOLUTIONS = 8
HASHSEEDS = ("0", "1", "42", "123456")

#: modules that can be reached from ISLaSolver.__init__ / solve()
SOLVE_PATH_MODULES = (
    "solver.py", "z3_helpers.py", "fuzzer.py", "evaluator.py", "existential_helpers.py", "language.py",
    "helpers.py", "derivation_tree.py", "isla_predicates.py", "parser.py", "trie.py", "three_valued_truth.py",
    "type_defs.py", "global_config.py", "mutator.py", "isla_shortcuts.py", "tree_insertion.py",
)


# --------------------------------------------------------------------------- #
# B1: fresh-process runs
# --------------------------------------------------------------------------- #


def select_triples(tier: str, seed: int) -> List[Dict[str, Any]]:
    rng = random.Random(f"C22:{seed}")
    n = 24 if tier == "quick" else 120
    grid = list(cc.settings_grid())
    pool = [t for t in cc.TEMPLATES if t["expect"] == "sat" and t["grammar"] != "wide"]
    rng.shuffle(pool)
    triples = []
    # every grammar at least once, then round-robin through the shuffled templates
    by_grammar: Dict[str, List[Dict[str, Any]]] = {}
    for t in pool:
        by_grammar.setdefault(t["grammar"], []).append(t)
    order: List[Dict[str, Any]] = []
    while len(order) < n and any(by_grammar.values()):
        for g in sorted(by_grammar):
            if by_grammar[g] and len(order) < n:
                order.append(by_grammar[g].pop())
    for i, tpl in enumerate(order):
        s = dict(cc.DEFAULT_SETTINGS) if i % 3 == 0 else grid[rng.randrange(len(grid))]
        case = cc.make_case(tpl, s, timeout_seconds=30 if tier == "quick" else 60)
        triples.append(dict(case=case, hashseed=HASHSEEDS[i % len(HASHSEEDS)],
                            seed_a=rng.randrange(1, 10 ** 6), seed_c=rng.randrange(10 ** 6, 2 * 10 ** 6)))
    return triples


def run_child(case: Dict[str, Any], hashseed: str, random_seed: int, hard_s: float) -> Dict[str, Any]:
    spec = json.dumps(dict(case=case, random_seed=random_seed, n=N_SOLUTIONS))
    env = dict(os.environ)
    env["PYTHONHASHSEED"] = hashseed
    env.pop("PYTHONPATH", None)
    t0 = time.time()
    try:
        proc = subprocess.run([sys.executable, RUNNER, spec], env=env, cwd=ROOT, capture_output=True, text=True,
                              timeout=hard_s)
    except subprocess.TimeoutExpired:
        return dict(status="hard-timeout", elapsed=round(time.time() - t0, 1))
    for line in reversed(proc.stdout.splitlines()):
        if line.startswith("C22RESULT "):
            d = json.loads(line[len("C22RESULT "):])
            d["status"] = "ok"
            return d
    return dict(status="no-result", returncode=proc.returncode, stderr=proc.stderr[-400:])


def hit_timeout(res: Dict[str, Any]) -> bool:
    return res["status"] != "ok" or any(r[0] == "exc" and r[1] == "TimeoutError" for r in res["results"])


def z3_timeouts(res: Dict[str, Any]) -> int:
    """Number of Z3 queries of a run that ended `unknown` because of their wall-clock timeout."""
    return sum(n for reason, n in (res.get("z3_unknown") or {}).items()
               if any(k in reason for k in ("timeout", "canceled", "max. resource", "interrupted")))


def first_difference(a: List[Any], b: List[Any]) -> Optional[int]:
    for i in range(max(len(a), len(b))):
        if i >= len(a) or i >= len(b) or a[i] != b[i]:
            return i
    return None


# --------------------------------------------------------------------------- #
# B2: static scan
# --------------------------------------------------------------------------- #

CLOCK = {"time.time", "time.time_ns", "time.perf_counter", "time.perf_counter_ns", "time.monotonic",
         "time.monotonic_ns", "time.process_time", "datetime.now", "datetime.utcnow", "datetime.today",
         "datetime.datetime.now", "datetime.datetime.utcnow", "date.today", "datetime.date.today"}
ENTROPY_PREFIX = ("os.urandom", "uuid.", "secrets.", "random.SystemRandom", "SystemRandom", "os.getpid", "os.getrandom")


def _dotted(node) -> Optional[str]:
    if isinstance(node, ast.Name):
        return node.id
    if isinstance(node, ast.Attribute):
        base = _dotted(node.value)
        return None if base is None else base + "." + node.attr
    return None


def scan_source(path: str, text: str) -> List[Dict[str, Any]]:
    """Findings of one file: dicts with category / call / function / line / allowed / why."""
    tree = ast.parse(text)
    parents: Dict[int, Any] = {}
    for node in ast.walk(tree):
        for child in ast.iter_child_nodes(node):
            parents[id(child)] = node

    def chain(node):
        out = []
        while id(node) in parents:
            node = parents[id(node)]
            out.append(node)
        return out

    def func_name(node) -> str:
        names = [a.name for a in chain(node) if isinstance(a, (ast.FunctionDef, ast.AsyncFunctionDef, ast.ClassDef))]
        return ".".join(reversed(names)) or "<module>"

    findings = []
    base = os.path.basename(path)
    for node in ast.walk(tree):
        if isinstance(node, (ast.Import, ast.ImportFrom)):
            mods = [a.name for a in node.names] if isinstance(node, ast.Import) else [node.module or ""]
            for m in mods:
                if m.split(".")[0] in ("threading", "multiprocessing", "pathos", "concurrent", "asyncio"):
                    findings.append(dict(category="concurrency-import", call=m, function=func_name(node),
                                         line=node.lineno, file=base, allowed=True,
                                         why="import only; flagged when the file is on the solve path"))
            continue
        if not isinstance(node, ast.Call):
            continue
        name = _dotted(node.func)
        if name is None:
            continue
        anc = chain(node)
        entry = dict(call=name, function=func_name(node), line=node.lineno, file=base)
        if name in CLOCK or name.endswith((".time.time", ".datetime.now")):
            # allowed: value only stored in `*.start_time` or compared against a timeout
            allowed, why = False, "clock value flows somewhere else than the timeout book-keeping"
            for a in anc:
                if isinstance(a, ast.Assign) and all(
                        isinstance(t, ast.Attribute) and t.attr == "start_time" for t in a.targets):
                    allowed, why = True, "stored in .start_time (timeout book-keeping)"
                    break
                if isinstance(a, ast.Compare):
                    names = {n.attr for n in ast.walk(a) if isinstance(n, ast.Attribute)} | \
                            {n.id for n in ast.walk(a) if isinstance(n, ast.Name)}
                    if any("timeout" in x for x in names):
                        allowed, why = True, "compared with a timeout"
                    break
                if isinstance(a, (ast.FunctionDef, ast.AsyncFunctionDef)):
                    break
            findings.append(dict(entry, category="clock", allowed=allowed, why=why))
        elif name.startswith(ENTROPY_PREFIX) or name in ("SystemRandom",):
            findings.append(dict(entry, category="entropy", allowed=False, why="entropy source outside `random`"))
        elif name == "id" and isinstance(node.func, ast.Name):
            findings.append(dict(entry, category="identity", allowed=False, why="object identity (address) used as a value"))
        elif name == "hash" and isinstance(node.func, ast.Name):
            # a class object hashes by its address (not covered by PYTHONHASHSEED): hash((type(self), ...)) differs
            # from process to process; type(self).__name__ (a string) does not
            def is_class_obj(e) -> bool:
                if isinstance(e, ast.Call) and isinstance(e.func, ast.Name) and e.func.id == "type" and len(e.args) == 1:
                    return True
                return isinstance(e, ast.Attribute) and e.attr == "__class__"
            hits = []
            for arg in node.args:
                cand = [arg] + (list(arg.elts) if isinstance(arg, (ast.Tuple, ast.List)) else [])
                hits += [ast.unparse(c) for c in cand if is_class_obj(c)]
            if hits:
                findings.append(dict(entry, category="identity", allowed=False,
                                     why=f"hash of a class object ({', '.join(hits)}): address-dependent, differs between processes"))
        elif name.split(".")[-1] in ("set_param", "set_option", "set"):
            consts = [a.value for a in node.args if isinstance(a, ast.Constant) and isinstance(a.value, str)]
            consts += [k.arg for k in node.keywords if k.arg]
            if any("seed" in c for c in consts):
                values = [a for a in node.args if not (isinstance(a, ast.Constant) and isinstance(a.value, str))]
                values += [k.value for k in node.keywords]
                from_random = bool(values) and all(
                    isinstance(v, ast.Call) and (_dotted(v.func) or "").startswith("random.") for v in values)
                findings.append(dict(entry, category="z3-seed", allowed=from_random,
                                     why="seed drawn from Python's random" if from_random else
                                     "seed is not drawn from Python's random"))
            elif any("timeout" in c for c in consts):
                findings.append(dict(entry, category="z3-wall-clock-timeout", allowed=True,
                                     why="per-query wall-clock timeout: the outcome (sat/unknown) can depend on "
                                         "machine speed; observable only by B1"))
    return findings


def static_scan(rep) -> None:
    files = []
    for dirpath, _dirs, names in os.walk(ISLA_SRC):
        if "isla_language" in dirpath or "__pycache__" in dirpath:
            continue
        for n in sorted(names):
            if n.endswith(".py"):
                files.append(os.path.join(dirpath, n))
    files.sort()
    all_findings: List[Dict[str, Any]] = []
    for f in files:
        try:
            all_findings.extend(scan_source(f, open(f, encoding="utf-8").read()))
        except SyntaxError as e:
            rep.checker_error(f"static scan cannot parse {f}: {e}")
    counts: Dict[str, int] = {}
    listing = []
    for fd in all_findings:
        on_path = fd["file"] in SOLVE_PATH_MODULES
        key = f"{fd['category']}:{'solve-path' if on_path else 'off-path'}:{'allowed' if fd['allowed'] else 'NOT-allowed'}"
        counts[key] = counts.get(key, 0) + 1
        if on_path or not fd["allowed"]:
            listing.append(f"{fd['file']}:{fd['line']} {fd['function']} {fd['call']} [{fd['category']}, "
                           f"{'solve path' if on_path else 'NOT on the solve path'}] "
                           f"{'ok' if fd['allowed'] else ('REFUTED' if on_path else 'ignored')}: {fd['why']}")
        if on_path and fd["category"] == "concurrency-import":
            rep.violation(f"static:concurrency-on-solve-path:{fd['file']}",
                          f"{fd['file']}:{fd['line']} imports {fd['call']}",
                          dict(module=MODULE, case=dict(kind="static", finding=fd)), no_failing_input=True)
        elif on_path and not fd["allowed"]:
            rep.violation(f"static:{fd['category']}:{fd['file']}:{fd['function']}",
                          f"{fd['file']}:{fd['line']} in {fd['function']}: call {fd['call']} -- {fd['why']} "
                          "(nondeterminism source outside the reads clause random/PYTHONHASHSEED)",
                          dict(module=MODULE, case=dict(kind="static", finding=fd)), no_failing_input=True)
    rep.section("static_scan", files=len(files), findings=len(all_findings), by_kind=counts, solve_path_listing=listing[:40])
    rep.assume("B2 static scan: " + "; ".join(listing[:12]) if listing else "B2 static scan: no finding")
    rep.assume("iteration over identity-hashed sets/dicts and wall-clock dependent Z3 outcomes (per-query timeouts) are "
               "invisible to the static scan and can only be caught by the fresh-process runs")
    if not files:
        rep.checker_error("static scan found no source files under /repo/src/isla")
    # sanity of the scanner itself on a synthetic module
    probe = ("import time, uuid, random, z3\nclass A:\n def f(self):\n  self.start_time = int(time.time())\n"
             "  x = time.time()\n  y = uuid.uuid4()\n  z = id(self)\n  z3.set_param('smt.random_seed', 5)\n"
             "  z3.set_param('smt.random_seed', random.randint(0, 9))\n")
    got = sorted((f["category"], f["allowed"]) for f in scan_source("probe.py", probe))
    want = sorted([("clock", True), ("clock", False), ("entropy", False), ("identity", False), ("z3-seed", False),
                   ("z3-seed", True)])
    if got != want:
        rep.checker_error(f"static scanner sanity probe failed: {got}")


# --------------------------------------------------------------------------- #


def run(rep, tier: str, seed: int) -> None:
    t0 = time.time()
    rep.rule("case = one (grammar, constraint, settings) triple: runs A and B in fresh interpreters with the same "
             "PYTHONHASHSEED and random.seed(n) before the solver is created, first 8 solve() results compared "
             "(string, structure digest, exception type and position); run C with another random seed for "
             "anti-vacuity; a triple is non-trivial iff run A returned at least two solutions")
    rep.bound(("24" if tier == "quick" else "120") + " triples from the satisfiable templates of bounded.c01_cases "
              "(every grammar except `wide`; every third triple with default settings, the others with a seed-drawn "
              "grid point); PYTHONHASHSEED in {0,1,42,123456}; 8 results per run; solver timeout_seconds="
              + ("30" if tier == "quick" else "60") + "; child hard limit 150 s")
    rep.assume("a triple in which any run hits TimeoutError or the hard limit is inconclusive (timing dependent by "
               "design of the timeout)")
    rep.assume("ISLa gives every Z3 query a wall-clock timeout (z3_helpers.z3_solve: 500 ms, then shuffles the "
               "formulas with `random` and retries); a pair of runs that DIFFERS while one of them had a query cut by "
               "that timeout (observed through a pass-through wrapper of z3.Solver.check in the child) is counted as "
               "inconclusive, like the solver timeout, and reported in section fresh_process_runs")
    rep.exhaustive = False
    static_scan(rep)

    triples = select_triples(tier, seed)
    jobs = []
    for i, tr in enumerate(triples):
        jobs.append((i, "A", tr["seed_a"]))
        jobs.append((i, "B", tr["seed_a"]))
        jobs.append((i, "C", tr["seed_c"]))
    hard = 150.0
    results: Dict[Tuple[int, str], Dict[str, Any]] = {}

    def work(job):
        i, tag, rs = job
        return job, run_child(triples[i]["case"], triples[i]["hashseed"], rs, hard)

    with ThreadPoolExecutor(max_workers=16) as ex:
        for (i, tag, rs), res in ex.map(work, jobs):
            results[(i, tag)] = res

    n_equal = n_conclusive = n_c_differs = n_inconclusive = n_with_exc_position = 0
    n_runs_z3_timeout = n_diff_z3_timeout = 0
    for i, tr in enumerate(triples):
        case = tr["case"]
        a, b, c = results[(i, "A")], results[(i, "B")], results[(i, "C")]
        label = f"{case['cid']} hashseed={tr['hashseed']} random.seed({tr['seed_a']})"
        broken = [x for x in (a, b) if x["status"] not in ("ok", "hard-timeout")]
        if broken:
            rep.checker_error(f"child process gave no result for {label}: {broken[0]}")
            continue
        n_sol = len([r for r in a.get("results", []) if r[0] == "tree"])
        rep.case(key=label, nontrivial=n_sol >= 2,
                 sample=(dict(grammar=case["grammar"], constraint=case["text"], settings=case["settings"],
                              hashseed=tr["hashseed"], random_seed=tr["seed_a"],
                              run_A=[r[1] for r in a.get("results", [])], run_B=[r[1] for r in b.get("results", [])],
                              run_C_other_seed=[r[1] for r in c.get("results", [])]) if i % 5 == 0 else None))
        if hit_timeout(a) or hit_timeout(b):
            n_inconclusive += 1
            rep.note_inconclusive(f"{label}: a run hit the timeout ({a['status']}/{b['status']})")
            continue
        n_conclusive += 1
        if any(r[0] == "exc" for r in a["results"]):
            n_with_exc_position += 1
        d = first_difference(a["results"], b["results"])
        n_runs_z3_timeout += (1 if z3_timeouts(a) else 0) + (1 if z3_timeouts(b) else 0)
        if d is None:
            n_equal += 1
        elif z3_timeouts(a) or z3_timeouts(b):
            n_conclusive -= 1
            n_diff_z3_timeout += 1
            rep.note_inconclusive(
                f"{label}: sequences differ at result #{d + 1} ({[r[1] for r in a['results']]} vs "
                f"{[r[1] for r in b['results']]}), but a run had Z3 queries cut by their wall-clock timeout "
                f"(A: {a.get('z3_unknown')}, B: {b.get('z3_unknown')}) -- timing dependent like the solver timeout")
        else:
            ra = a["results"][d] if d < len(a["results"]) else None
            rb = b["results"][d] if d < len(b["results"]) else None
            rep.violation(
                f"solve:sequence-differs-between-fresh-processes:{cc.family(case['cls'])}",
                f"grammar {case['grammar']} constraint {case['text']!r} settings {cc.settings_key(case['settings'])} "
                f"start_symbol {case['start_symbol']} PYTHONHASHSEED={tr['hashseed']} random.seed({tr['seed_a']}): "
                f"result #{d + 1} is {ra} in run A but {rb} in run B (sequences {[r[1] for r in a['results']]} vs "
                f"{[r[1] for r in b['results']]})",
                dict(module=MODULE, case=dict(kind="dynamic", case=case, hashseed=tr["hashseed"], seed=tr["seed_a"])),
            )
        if c["status"] == "ok" and not hit_timeout(c) and first_difference(a["results"], c["results"]) is not None:
            n_c_differs += 1

    rep.section("fresh_process_runs", triples=len(triples), conclusive=n_conclusive, identical_sequences=n_equal,
                inconclusive_timeout=n_inconclusive, third_run_other_seed_differs=n_c_differs,
                sequences_ending_in_an_exception=n_with_exc_position, child_processes=len(jobs),
                runs_with_z3_query_timeouts=n_runs_z3_timeout,
                differing_pairs_attributed_to_z3_query_timeouts=n_diff_z3_timeout)
    rep.section("timing", wall_s=round(time.time() - t0, 1))
    if n_conclusive == 0:
        rep.checker_error("no triple was conclusive")
    if n_c_differs == 0:
        rep.checker_error("anti-vacuity: no triple differed under another random seed -- the runs may not depend on "
                          "the seed at all")


def replay(path: str) -> int:
    payload = json.load(open(path, encoding="utf-8"))
    c = payload["case"]
    if c.get("kind") == "static":
        fd = c["finding"]
        f = os.path.join(ISLA_SRC, fd["file"])
        now = [x for x in scan_source(f, open(f, encoding="utf-8").read())
               if x["category"] == fd["category"] and x["function"] == fd["function"] and x["call"] == fd["call"]
               and not x["allowed"]]
        print(f"static finding {fd['file']} {fd['function']} {fd['call']}: {'still present' if now else 'gone'}")
        return 1 if now else 0
    case, hs, seed = c["case"], c["hashseed"], c["seed"]
    still = 0
    for attempt in range(3):  # the difference may be timing dependent: try a few pairs
        a = run_child(case, hs, seed, 150.0)
        b = run_child(case, hs, seed, 150.0)
        print(f"attempt {attempt + 1}: A={[r[1] for r in a.get('results', [])]} B={[r[1] for r in b.get('results', [])]}")
        print(f"   z3 unknown: A={a.get('z3_unknown')} B={b.get('z3_unknown')}")
        if a["status"] == "ok" and b["status"] == "ok" and not hit_timeout(a) and not hit_timeout(b) \
                and not z3_timeouts(a) and not z3_timeouts(b) \
                and first_difference(a["results"], b["results"]) is not None:
            still = 1
            break
    print("still failing" if still else "no longer failing (3 pairs identical)")
    return still
