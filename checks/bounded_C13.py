"""C13 (bounded) -- tree insertion.

Contract (property statement) for

    results = insert_tree(canonical(G), x, host, graph=GrammarGraph.from_grammar(G),
                          max_num_solutions=k, methods=m)

  every r in results:
    * ref_valid(G, r, host.value)                      (valid, same root)
    * every id of host occurs in r with the same label  (own traversal)
    * x.id occurs in r with x's label; when x has children the subtree found
      there is x itself (same labels and ids)
  and the call raises nothing; an AssertionError of ISLa's own validity /
  id-retention asserts is a violation of "each result is valid / keeps all
  original nodes".

Oracles: bounded.reftree (ref_valid, ref_paths).  The canonical grammar handed
to insert_tree is built with bounded.reftree.rules_of (own reading of the input
format); the GrammarGraph is ISLa's (it is an argument of the function under
test, not an oracle).
"""
from __future__ import annotations

import random
import traceback
from typing import Dict, List, Optional, Tuple

from bounded import grammars as BG
from bounded.c10_common import (
    Watchdog,
    fresh_ids_above,
    ids_of,
    load_replay,
    run_pool,
    show,
    tree_from_json,
    tree_to_json,
    watchdog,
)
from bounded.reftree import (
    from_struct,
    ref_open,
    ref_paths,
    ref_tree_structs,
    ref_valid,
    rules_of,
    to_struct,
)

MODULE = "checks.bounded_C13"
CALL_WATCHDOG = 6  # seconds per insert_tree call

METHOD_NAMES = {1: "direct-embedding", 2: "self-embedding", 4: "context-addition"}

EXTRA_GRAMMARS: Dict[str, Dict[str, List[str]]] = {
    "midrec": {"<start>": ["<A>"], "<A>": ["(<A>)", "<A><A>x", "y"]},
    "mutual": {"<start>": ["<A>"], "<A>": ["a<B>", "a"], "<B>": ["b<A>", "<B>b", "b"]},
    "allnull": {"<start>": ["<A><B>"], "<A>": ["", "a"], "<B>": ["", "b<B>"]},
    "blocks": {"<start>": ["<block>"], "<block>": ["{<stmts>}"], "<stmts>": ["<stmt>", "<stmt><stmts>"],
               "<stmt>": ["<block>", "<decl>", "<use>"], "<decl>": ["d"], "<use>": ["u"]},
    # terminals that look like nonterminals but are not (a blank inside the angle brackets), on a recursive path
    "tagtext": {"<start>": ["<page>"], "<page>": ["<par>", "<par><br /><page>"], "<par>": ["p", "<b x>q"]},
}


def methods_name(m: int) -> str:
    return "+".join(METHOD_NAMES[b] for b in (1, 2, 4) if m & b)


def canonical_of(grammar) -> Dict[str, List[List[str]]]:
    return {nt: [list(alt) for alt in alts] for nt, alts in rules_of(grammar).items()}


_GRAPHS: Dict[str, object] = {}


def graph_of(grammar):
    from grammar_graph import gg

    key = repr(grammar)
    if key not in _GRAPHS:
        _GRAPHS[key] = gg.GrammarGraph.from_grammar(grammar)
    return _GRAPHS[key]


def _assert_kind(exc: BaseException) -> Tuple[str, str]:
    """(kind, function) for an exception raised inside isla."""
    fn, line = "?", ""
    for fs in traceback.extract_tb(exc.__traceback__):
        if "/isla/" in fs.filename and "/verif/" not in fs.filename:
            fn, line = fs.name, fs.line or ""
    if isinstance(exc, AssertionError):
        if "tree_is_valid" in line:
            return "internal-validity-assert", fn
        if "find_node" in line:
            return "internal-id-retention-assert", fn
        if "has_unique_ids" in line:
            return "internal-unique-ids-assert", fn
        if "isdisjoint" in line:
            return "internal-disjoint-ids-assert", fn
        return "internal-assert", fn
    return f"raises-{type(exc).__name__}", fn


def x_class(x) -> str:
    return "open-node" if x.children is None else "closed-subtree"


def host_class(host) -> str:
    return "open-host" if ref_open(host) else "closed-host"


def input_class(host, x) -> str:
    """Deterministic input class for signatures: kind of x.  For ISLa's internal
    validity asserts the class is instead whether host or x contain an epsilon
    expansion written as a child node '' (the style GrammarFuzzer produces),
    see check_case."""
    return x_class(x)


def has_epsilon_child(host, x) -> bool:
    return any(n.value == "" for t in (host, x) for _, n in ref_paths(t))


def _raw_check(grammar, host, x, methods: int, k: Optional[int]) -> Tuple[List[Tuple[str, str]], int]:
    """-> ([(kind, detail)], number of results)"""
    from isla.existential_helpers import insert_tree

    try:
        results = insert_tree(canonical_of(grammar), x, host, graph=graph_of(grammar),
                              max_num_solutions=k, methods=methods)
    except Watchdog:
        raise
    except BaseException as exc:  # noqa
        kind, fn = _assert_kind(exc)
        return [(f"{kind}@{fn}", f"{type(exc).__name__} in {fn}: {str(exc)[:100]}")], 0
    host_ids = ids_of(host)
    x_struct = tree_to_json(x)
    for r in results:
        if r.value != host.value:
            return [("root-changed", f"result {show(r)} is rooted in {r.value}")], len(results)
        if not ref_valid(grammar, r, host.value):
            return [("result-invalid", f"result {show(r)} is no derivation tree of G")], len(results)
        rid = ids_of(r)
        lost = [(i, v) for i, v in host_ids.items() if i not in rid]
        if lost:
            return [("host-node-lost",
                     f"result {show(r)} lacks host node(s) {[v for _, v in lost]}")], len(results)
        relabelled = [(v, rid[i]) for i, v in host_ids.items() if rid[i] != v]
        if relabelled:
            return [("host-node-relabelled",
                     f"result {show(r)}: host nodes changed label {relabelled}")], len(results)
        if x.id not in rid:
            return [("inserted-tree-missing",
                     f"result {show(r)} has no node with the id of x")], len(results)
        if rid[x.id] != x.value:
            return [("inserted-tree-relabelled",
                     f"result {show(r)}: node with x's id is labelled {rid[x.id]}")], len(results)
        if x.children is not None:
            node = next(n for _, n in ref_paths(r) if n.id == x.id)
            if tree_to_json(node) != x_struct:
                return [("inserted-tree-changed",
                         f"result {show(r)}: the subtree at x's id is {show(node)}, not x")], len(results)
    return [], len(results)


def check_case(grammar, host, x, methods: int, k: Optional[int]) -> Tuple[List[dict], int]:
    """-> (failures, number of results).  A failure under a combination of
    methods is attributed to the first single method of the combination that
    shows the same kind of failure on the same input (fresh copies)."""
    raw, nres = _raw_check(grammar, host, x, methods, k)
    fails: List[dict] = []
    if not raw:
        return fails, nres
    for kind, detail in raw:
        cls = input_class(host, x)
        if kind.startswith("internal-validity-assert") and has_epsilon_child(host, x):
            cls = "tree-with-epsilon-child-node"
        mname = methods_name(methods)
        if bin(methods).count("1") > 1:
            for b in (1, 2, 4):
                if not methods & b:
                    continue
                h2, x2 = from_struct(to_struct(host)), from_struct(to_struct(x))
                raw2, _ = _raw_check(grammar, h2, x2, b, k)
                if any(k2 == kind for k2, _ in raw2):
                    mname = methods_name(b)
                    break
        fails.append(dict(
            signature=f"insert_tree[{mname}]:{kind}:{cls}",
            what=f"grammar={grammar!r} host={show(host)} x={show(x)} methods={methods_name(methods)} "
                 f"max_num_solutions={k}: {detail}",
            case=dict(grammar=grammar, host=tree_to_json(host), x=tree_to_json(x), methods=methods, k=k),
            size=(len(ref_paths(host)) + len(ref_paths(x)), bin(methods).count("1"), len(repr(grammar)))))
    return fails, nres


# --------------------------------------------------------------------------- #
# inputs
# --------------------------------------------------------------------------- #


def _spread(items: list, cap: int) -> list:
    if len(items) <= cap:
        return items
    step = len(items) / cap
    return [items[int(i * step)] for i in range(cap)]


def struct_json(st):
    value, children = st
    return [value, None if children is None else [struct_json(c) for c in children]]


def struct_unjson(j):
    value, children = j
    return (value, None if children is None else tuple(struct_unjson(c) for c in children))


def hosts_for(grammar, start: str, max_nodes: int, cap: int, eps_style: str = "child") -> list:
    allh = []
    for st in ref_tree_structs(grammar, start, max_nodes, allow_open=True, eps_style=eps_style):
        allh.append(st)
        if len(allh) >= 20000:
            break
    # the smallest trees are always included; the rest is spread
    head = allh[: cap // 3]
    tail = _spread(allh[cap // 3:], cap - len(head))
    return head + tail


def inserts_for(grammar, max_nodes: int, per_nt: int, eps_style: str = "child") -> list:
    out = []
    for nt in grammar:
        out.append((nt, None))
        closed = []
        for st in ref_tree_structs(grammar, nt, max_nodes, allow_open=False, eps_style=eps_style):
            closed.append(st)
            if len(closed) >= 50:
                break
        out.extend(_spread(closed, per_nt))
    return out


# --------------------------------------------------------------------------- #
# worker
# --------------------------------------------------------------------------- #


def _worker(task) -> dict:
    import logging
    import warnings

    warnings.filterwarnings("ignore")
    logging.disable(logging.CRITICAL)
    grammar = task["grammar"]
    res = dict(n=0, with_results=0, results=0, fails=[], timeouts=0, timeout_cases=[],
               by_method={}, open_hosts=0, closed_hosts=0, skipped_after_timeout=0)
    for hj in task["hosts"]:
        hst = struct_unjson(hj)
        for xj in task["inserts"]:
            xst = struct_unjson(xj)
            expired = 0  # watchdog expiries for this (host, x); after two the pair is given up
            for m in task["methods"]:
                for k in task["ks"]:
                    if expired >= 2:
                        res["skipped_after_timeout"] += 1
                        continue
                    host = from_struct(hst)
                    x = from_struct(xst)
                    try:
                        with watchdog(CALL_WATCHDOG):
                            fails, nres = check_case(grammar, host, x, m, k)
                    except Watchdog:
                        res["timeouts"] += 1
                        expired += 1
                        if len(res["timeout_cases"]) < 2:
                            res["timeout_cases"].append(
                                f"host={show(host)} x={show(x)} methods={methods_name(m)} k={k} "
                                f"grammar={grammar!r}"[:400])
                        continue
                    res["n"] += 1
                    if ref_open(host):
                        res["open_hosts"] += 1
                    else:
                        res["closed_hosts"] += 1
                    if nres:
                        res["with_results"] += 1
                        res["results"] += nres
                        mn = methods_name(m)
                        res["by_method"][mn] = res["by_method"].get(mn, 0) + 1
                    res["fails"].extend(fails)
    by_sig: Dict[str, List[dict]] = {}
    counts: Dict[str, int] = {}
    for f in res["fails"]:
        counts[f["signature"]] = counts.get(f["signature"], 0) + 1
        by_sig.setdefault(f["signature"], []).append(f)
    kept = []
    for sig, fs in by_sig.items():
        fs.sort(key=lambda f: tuple(f["size"]))
        kept.extend(fs[:2])
    res["fails"] = kept
    res["fail_counts"] = counts
    return res


def run(rep, tier, seed):
    import isla.existential_helpers  # noqa: F401  loaded before the pool forks

    quick = tier == "quick"
    rng = random.Random(seed * 1000003 + 13)
    host_nodes = 7
    x_nodes = 4
    cap_hosts = 20 if quick else 60
    per_nt = 1 if quick else 2
    n_random = 4 if quick else 16
    ks = [1, 5, None]
    methods = [1, 2, 3, 4, 5, 6, 7]

    rep.assume("oracles bounded.reftree.ref_valid / ref_paths are trusted; the GrammarGraph passed "
               "to insert_tree is ISLa's own (argument of the function under test)")
    rep.assume(f"calls running longer than {CALL_WATCHDOG} s (the number of connecting trees grows "
               "exponentially for wide or highly recursive grammars with max_num_solutions=None) are "
               "inconclusive; after two expiries the remaining method/k combinations of that (host, x) "
               "pair are skipped")
    rep.assume("host and inserted tree consist of fresh nodes with pairwise distinct ids (the "
               "function's own pre-condition, asserted in insert_trees)")
    rep.rule("case = (grammar, host, x, methods, max_num_solutions); non-trivial iff insert_tree "
             "returns at least one result; every result is checked")
    rep.bound(f"hosts: open and closed trees with <= {host_nodes} nodes rooted in the start symbol "
              f"(at most {cap_hosts} per grammar: the smallest third, the rest spread evenly); x: one "
              f"open node per nonterminal and up to {per_nt} closed subtree(s) with <= {x_nodes} nodes "
              f"per nonterminal; methods: the 7 non-empty subsets; max_num_solutions in 1, 5, None")
    rep.bound(f"grammars: {len(BG.GRAMMARS)} shared (without 'wide' hosts above 7 nodes), "
              f"{len(EXTRA_GRAMMARS)} extra, {n_random} random")

    fam: List[Tuple[str, dict, str]] = []
    for name, g in BG.GRAMMARS.items():
        fam.append((name, g, BG.START_SYMBOLS[name]))
    for name, g in EXTRA_GRAMMARS.items():
        fam.append((name, g, "<start>"))
    for i in range(n_random):
        fam.append((f"random{i}", BG.random_grammar(rng), "<start>"))

    tasks = []
    for name, g, start in fam:
        styles = ["child"] + (["empty"] if BG.nullable_nonterminals(g) else [])
        for style in styles:
            # epsilon expansions as the fuzzer writes them (child '') and as the
            # parser / expand_one_step write them (no child)
            hosts = hosts_for(g, start, host_nodes, cap_hosts if style == "child" else cap_hosts // 2, style)
            inserts = inserts_for(g, x_nodes, per_nt, style)
            hj = [struct_json(h) for h in hosts]
            xj = [struct_json(x) for x in inserts]
            for i in range(0, len(hj), 2):
                tasks.append(dict(gname=name + "/" + style, grammar=g, hosts=hj[i:i + 2], inserts=xj,
                                  methods=methods, ks=ks))

    total = dict(cases=0, with_results=0, results=0, timeouts=0, open_hosts=0, closed_hosts=0,
                 skipped_after_timeout=0)
    by_method: Dict[str, int] = {}
    all_fails: List[dict] = []
    fail_counts: Dict[str, int] = {}
    shown = 0
    for task, res in zip(tasks, run_pool(_worker, tasks, 16)):
        if "__crash__" in res:
            rep.checker_error("worker crashed: " + res["__crash__"])
            continue
        total["cases"] += res["n"]
        for key in ("with_results", "results", "timeouts", "open_hosts", "closed_hosts",
                    "skipped_after_timeout"):
            total[key] += res[key]
        for mname, n in res["by_method"].items():
            by_method[mname] = by_method.get(mname, 0) + n
        for tc in res["timeout_cases"]:
            rep.note_inconclusive(f"watchdog ({CALL_WATCHDOG} s): " + tc)
        for hj in task["hosts"]:
            for xj in task["inserts"]:
                shown += 1
                rep.case(key=(task["gname"], repr(hj), repr(xj)), nontrivial=True,
                         sample=dict(grammar=task["gname"], host=show(from_struct(struct_unjson(hj))),
                                     x=show(from_struct(struct_unjson(xj)))) if shown % 701 == 1 else None)
        all_fails.extend(res["fails"])
        for sig, n in res["fail_counts"].items():
            fail_counts[sig] = fail_counts.get(sig, 0) + n
    rep.evaluations = total["cases"]
    rep.section("reach", **total)
    rep.section("calls_with_results_by_methods", **by_method)
    rep.section("failures_by_signature", **fail_counts)
    rep.exhaustive = False
    if total["timeouts"]:
        rep.note_inconclusive(f"{total['timeouts']} calls hit the {CALL_WATCHDOG} s watchdog; "
                              f"{total['skipped_after_timeout']} further combinations of the same "
                              f"(host, x) pairs were skipped after two expiries")

    if total["with_results"] == 0:
        rep.checker_error("insert_tree never returned a result")
    for mname in ("direct-embedding", "self-embedding", "context-addition"):
        if not by_method.get(mname):
            rep.checker_error(f"method {mname} alone never produced a result")
    if total["open_hosts"] == 0 or total["closed_hosts"] == 0:
        rep.checker_error("open or closed hosts missing")
    # sanity: verdict known by construction
    from isla.derivation_tree import DerivationTree as DT

    g = BG.GRAMMARS["leftrec"]
    host = DT("<start>", (DT("<list>", None),))
    x = DT("<item>", None)
    f, n = check_case(g, host, x, 1, None)
    if f or n == 0:
        rep.checker_error(f"sanity: direct embedding of <item> below an open <list> must work: {f}")

    all_fails.sort(key=lambda f: (f["signature"], tuple(f["size"]), f["what"]))
    for f in all_fails:
        rep.violation(f["signature"], f["what"], {"module": MODULE, "case": f["case"]})


def replay(path: str) -> int:
    data = load_replay(path)
    c = data["case"]
    host = tree_from_json(c["host"], keep_ids=True)
    x = tree_from_json(c["x"], keep_ids=True)
    fresh_ids_above(host, x)
    print(f"replay C13: host={show(host)} x={show(x)} methods={methods_name(c['methods'])} "
          f"max_num_solutions={c['k']} grammar={c['grammar']!r}")
    fails, n = check_case(c["grammar"], host, x, c["methods"], c["k"])
    print(f"  {n} result(s)")
    for f in fails:
        print("  still fails:", f["signature"], "--", f["what"])
    if not fails:
        print("  contract holds now")
    return 1 if fails else 0
