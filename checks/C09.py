"""C09 -- negation / NNF / DNF.  Proved: Formula.__and__/__or__/__neg__ and six NNF case functions against an
abstract semantics (all formulas, all assignments), NNF case coverage lemma, call shape of the NNF chain.
Bounded: rewrites on generated n-ary ASTs (incl. DNF, renaming, the SMT-level NNF case)."""
from vlib.harness import proved_tier
from checks import bounded_C09

LEVEL = "other"


def run(rep, tier, seed):
    from checks import syntactic
    syntactic.run(rep, "C09")
    proved_tier(rep, "C09", seed, expected_min_obligations=15)
    bounded_C09.run(rep, tier, seed)


def replay(path):
    import json
    d = json.load(open(path))
    if d.get("module", "").startswith("checks.bounded_") or "case" in d:
        return bounded_C09.replay(path)
    from vlib.harness import replay_file
    return replay_file(path)
