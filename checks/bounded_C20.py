"""C20 -- library semantic predicates on closed trees (bounded, exhaustive small scope).

Observed at ``SemanticPredicate.evaluate(graph, *args)`` (the documented entry
point; ``islaspec.rst`` "Semantic Predicates", ``count`` row; for the others
the code, ``tests/test_predicates.py`` and their use in
``isla_formalizations/{tar,simple_tar,rest}.py`` are the only documentation).

Contract (property statement C20), for closed argument trees:

* ``count(t, needle, n)`` is TRUE iff the number of ``needle`` nodes of ``t``
  (own count, root included) equals ``n``; otherwise FALSE; with ``n`` a
  variable the proposed numeral is that number.
* ``octal_to_decimal(o, d)`` (instantiated as in tar.py) is TRUE iff
  ``int(str(o), 8) == int(str(d))``; with one side a variable the proposed tree
  is a valid tree of the conversion grammar for that side's nonterminal and
  satisfies the relation.
* ``ljust / rjust / ljust_crop / rjust_crop / extend_crop (t, w[, fill])`` are
  TRUE iff ``len(str(t)) == w``; ``crop(t, w)`` is TRUE iff ``len(str(t)) <= w``
  (reading explained in the assumptions); when not TRUE the result is FALSE or
  a proposal ``{t: t'}`` where ``t'`` is a closed valid tree for ``t``'s
  nonterminal with ``len(str(t')) == w``; with ``w`` a variable the proposed
  numeral is ``len(str(t))``.
* An exception is neither a verdict nor a proposal.
"""
from __future__ import annotations

import itertools
import json
import multiprocessing as mp
import random
import signal
import traceback
from typing import Dict, List, Optional, Tuple

MODULE = "checks.bounded_C20"

STR_GRAMMAR = {"<start>": ["<s>"], "<s>": ["", "<c><s>"], "<c>": ["a", " ", "0"]}
PAIR_GRAMMAR = {"<start>": ["<ps>"], "<ps>": ["<p>", "<p><ps>"], "<p>": ["ab", "0"]}
OCT_GRAMMAR = {
    "<start>": ["<octal_digits>", "<decimal_digits>"],
    "<octal_digits>": ["<octal_digit><octal_digits>", "<octal_digit>"],
    "<octal_digit>": list("01234567"),
    "<decimal_digits>": ["<decimal_digit><decimal_digits>", "<decimal_digit>"],
    "<decimal_digit>": list("0123456789"),
}
COUNT_GRAMMARS = ["assgn", "rightrec", "csvish", "xmlish", "nullable", "multichar"]
JUST = {"ljust": (True, False), "rjust": (False, False), "ljust_crop": (True, True), "rjust_crop": (False, True)}

_G: Dict[str, object] = {}


def _graph(name, grammar):
    from grammar_graph import gg
    if name not in _G:
        _G[name] = gg.GrammarGraph.from_grammar(grammar)
    return _G[name]


def _pred(name):
    import isla.isla_predicates as P
    return dict(count=P.COUNT_PREDICATE, crop=P.CROP_PREDICATE, ljust=P.LJUST_PREDICATE, rjust=P.RJUST_PREDICATE,
                ljust_crop=P.LJUST_CROP_PREDICATE, rjust_crop=P.RJUST_CROP_PREDICATE,
                extend_crop=P.EXTEND_CROP_PREDICATE)[name]


def _is_canonical_numeral(s: str) -> bool:
    return s.isdigit() and s.isascii() and (s == "0" or not s.startswith("0"))


def _numeral_tree(n, form: str):
    from isla.derivation_tree import DerivationTree
    if form == "int":
        return int(n)
    if form == "str":
        return str(n)
    if form == "leaf":       # closed numeric tree, the form language.substitute() creates for str/int values
        return DerivationTree(str(n), ())
    raise ValueError(form)


def _verdict(r) -> str:
    if r.result is True:
        return "TRUE"
    if r.result is False:
        return "FALSE"
    if r.result is None:
        return "NOT-READY"
    return "PROPOSAL"


# --------------------------------------------------------------------------- #
# count
# --------------------------------------------------------------------------- #

def case_count(gname: str, struct, sub_path, needle: str, n: Optional[int], form: str) -> dict:
    import isla.language as L
    from bounded.grammars import GRAMMARS
    from bounded.reftree import from_struct, ref_get, ref_paths, ref_str
    g = GRAMMARS[gname]
    graph = _graph(gname, g)
    tree = ref_get(from_struct(struct), tuple(sub_path))
    own = sum(1 for _, nd in ref_paths(tree) if nd.value == needle)
    P = _pred("count")
    viol = []
    desc = f"count({ref_str(tree)!r} rooted {tree.value}, {needle!r}, {n if form != 'var' else 'VAR'} as {form}) own count {own}"
    try:
        if form == "var":
            var = L.BoundVariable("n", L.BoundVariable.NUMERIC_NTYPE)
            r = P.evaluate(graph, tree, needle, var)
            if _verdict(r) != "PROPOSAL" or list(r.result.keys()) != [var]:
                viol.append(("count:num-variable:no-proposal-for-closed-tree", f"{desc}: {_verdict(r)} {r}"))
            else:
                s = str(r.result[var])
                if not _is_canonical_numeral(s) or int(s) != own:
                    viol.append(("count:num-variable:proposed-number-is-not-the-count", f"{desc}: proposed {s!r}"))
            return dict(viol=viol, verdict="PROPOSAL", expect=None)
        r = P.evaluate(graph, tree, needle, _numeral_tree(n, form))
    except Exception as exc:  # noqa
        viol.append((f"count:raises-{type(exc).__name__}:num-as-{form}", f"{desc}: {type(exc).__name__}: {str(exc)[:120]}"))
        return dict(viol=viol, verdict="EXC", expect=(own == n))
    v = _verdict(r)
    exp = own == n
    if exp and v != "TRUE":
        viol.append((f"count:not-TRUE-although-count-equals-num:num-as-{form}", f"{desc}: {v}"))
    if not exp and v != "FALSE":
        cls = "num-negative" if n < 0 else ("count>num" if own > n else "count<num")
        viol.append((f"count:{v}-although-count-differs-from-num:{cls}:num-as-{form}", f"{desc}: {v} {str(r)[:80]}"))
    return dict(viol=viol, verdict=v, expect=exp)


# --------------------------------------------------------------------------- #
# octal_to_decimal
# --------------------------------------------------------------------------- #

def _oct_pred():
    import isla.isla_predicates as P
    if "octpred" not in _G:
        _G["octpred"] = P.OCTAL_TO_DEC_PREDICATE(_graph("oct", OCT_GRAMMAR), "<octal_digits>", "<decimal_digits>")
    return _G["octpred"]


def case_octal(o: Optional[str], d: Optional[str], dform: str) -> dict:
    """o/d None = variable on that side; dform: 'tree' (parse tree of <decimal_digits>) or 'leaf'
    (closed numeric leaf, the form an instantiated `int` variable takes in tar.py's constraints)"""
    import isla.language as L
    from isla.derivation_tree import DerivationTree
    from bounded.reftree import tree_from_string, ref_valid, ref_open, ref_str
    graph = _graph("oct", OCT_GRAMMAR)
    P = _oct_pred()
    viol = []
    desc = f"octal_to_decimal({o!r}, {d!r} as {dform})"
    ot = tree_from_string(OCT_GRAMMAR, o, "<octal_digits>") if o is not None else L.BoundVariable("o", "<octal_digits>")
    if d is None:
        dt = L.BoundVariable("d", L.BoundVariable.NUMERIC_NTYPE if dform == "leaf" else "<decimal_digits>")
    elif dform == "tree":
        dt = tree_from_string(OCT_GRAMMAR, d, "<decimal_digits>")
    else:
        dt = DerivationTree(d, ())
    try:
        r = P.evaluate(graph, ot, dt)
    except Exception as exc:  # noqa
        viol.append((f"octal_to_decimal:raises-{type(exc).__name__}:{'both-trees' if o is not None and d is not None else 'one-variable'}",
                     f"{desc}: {type(exc).__name__}: {str(exc)[:120]}"))
        return dict(viol=viol, verdict="EXC")
    v = _verdict(r)
    if o is not None and d is not None:
        exp = int(o, 8) == int(d)
        if exp and v != "TRUE":
            viol.append((f"octal_to_decimal:both-trees:{v}-although-octal-denotes-decimal:decimal-as-{dform}",
                         f"{desc}: int(o,8)={int(o, 8)} int(d)={int(d)} verdict {v}"))
        if not exp and v != "FALSE":
            viol.append((f"octal_to_decimal:both-trees:{v}-although-octal-does-not-denote-decimal:decimal-as-{dform}",
                         f"{desc}: int(o,8)={int(o, 8)} int(d)={int(d)} verdict {v}"))
        return dict(viol=viol, verdict=v, expect=exp)
    side = "decimal" if d is None else "octal"
    if v != "PROPOSAL" or len(r.result) != 1:
        viol.append((f"octal_to_decimal:{side}-variable:no-proposal", f"{desc}: {v}"))
        return dict(viol=viol, verdict=v)
    (key, prop), = r.result.items()
    root = "<decimal_digits>" if d is None else "<octal_digits>"
    if ref_open(prop) or not ref_valid(OCT_GRAMMAR, prop, root):
        viol.append((f"octal_to_decimal:{side}-variable:proposal-is-not-a-closed-valid-{root}-tree", f"{desc}: proposed {prop!r:.100}"))
    else:
        s = ref_str(prop)
        ok = (int(o, 8) == int(s)) if d is None else (int(s, 8) == int(d))
        if not ok:
            viol.append((f"octal_to_decimal:{side}-variable:proposal-does-not-satisfy-the-relation", f"{desc}: proposed {s!r}"))
    return dict(viol=viol, verdict=v)


# --------------------------------------------------------------------------- #
# crop / just
# --------------------------------------------------------------------------- #

def _py_target(name: str, s: str, w: int, fill: Optional[str]) -> Optional[str]:
    """What Python's ljust/rjust/slicing gives (the operation the predicate names)."""
    if name == "crop":
        return s[:w]
    if name == "extend_crop":
        return s.ljust(w, s[0])[:w] if s else None
    lj, cr = JUST[name]
    out = s.ljust(w, fill) if lj else s.rjust(w, fill)
    if cr:
        out = out[:w] if lj else out[len(out) - w:]
    return out


def case_just(name: str, gname: str, s: str, w: int, fill: Optional[str], wform: str) -> dict:
    import isla.language as L
    from bounded.reftree import tree_from_string, ref_valid, ref_open, ref_str, ref_member
    g = STR_GRAMMAR if gname == "str" else PAIR_GRAMMAR
    nt = "<s>" if gname == "str" else "<ps>"
    graph = _graph(gname, g)
    tree = tree_from_string(g, s, nt, eps_style="empty")
    assert tree is not None and ref_str(tree) == s
    P = _pred(name)
    viol = []
    info = {}
    desc = f"{name}({s!r} as {nt} tree, width {w} as {wform}" + (f", fill {fill!r})" if fill is not None else ")")
    n = len(s)
    holds = (n <= w) if name == "crop" else (n == w)
    try:
        if wform == "var":
            var = L.BoundVariable("w", L.BoundVariable.NUMERIC_NTYPE)
            args = (tree, var) if fill is None else (tree, var, fill)
            r = P.evaluate(graph, *args)
            if _verdict(r) != "PROPOSAL" or list(r.result.keys()) != [var]:
                viol.append((f"{name}:width-variable:no-proposal", f"{desc}: {_verdict(r)}"))
            else:
                ps = str(r.result[var])
                if not _is_canonical_numeral(ps) or int(ps) != n:
                    viol.append((f"{name}:width-variable:proposed-width-is-not-the-length", f"{desc}: proposed {ps!r}, length {n}"))
                else:
                    # recorded only: is the proposed numeral accepted back as a width?
                    args2 = (tree, r.result[var]) if fill is None else (tree, r.result[var], fill)
                    info["refeed"] = _verdict(P.evaluate(graph, *args2))
            return dict(viol=viol, verdict="PROPOSAL", info=info)
        wv = _numeral_tree(w, wform)
        args = (tree, wv) if fill is None else (tree, wv, fill)
        r = P.evaluate(graph, *args)
    except Exception as exc:  # noqa
        target = _py_target(name, s, w, fill)
        if name == "crop" and wform in ("int", "str"):
            cls = f"width-as-{wform}-literal"
        elif not holds and name in ("ljust", "rjust") and n > w:
            cls = "len>width"
        elif not holds and target is not None and not ref_member(g, target, nt):
            cls = "justified-string-not-in-language-of-the-argument-nonterminal"
        else:
            cls = "holds" if holds else "does-not-hold"
        viol.append((f"{name}:raises-{type(exc).__name__}:{cls}", f"{desc}: {type(exc).__name__}: {str(exc)[:100]}"))
        return dict(viol=viol, verdict="EXC", info=info)
    v = _verdict(r)
    if holds:
        if v != "TRUE":
            viol.append((f"{name}:{v}-although-argument-has-the-requested-width:width-as-{wform}", f"{desc}: {v} {str(r)[:60]}"))
        elif name == "crop" and n < w:
            info["crop_shorter_true"] = 1
        return dict(viol=viol, verdict=v, info=info)
    if v == "TRUE":
        viol.append((f"{name}:TRUE-although-length-differs-from-width:{'len>width' if n > w else 'len<width'}:width-as-{wform}",
                     f"{desc}: TRUE"))
    elif v == "NOT-READY":
        viol.append((f"{name}:NOT-READY-on-closed-arguments:width-as-{wform}", f"{desc}"))
    elif v == "PROPOSAL":
        if list(r.result.keys()) != [tree]:
            viol.append((f"{name}:proposal-replaces-something-else-than-the-argument", f"{desc}: {r}"))
        else:
            prop = r.result[tree]
            if ref_open(prop) or not ref_valid(g, prop, nt):
                viol.append((f"{name}:proposal-is-not-a-closed-valid-tree-of-the-argument-nonterminal", f"{desc}: {prop!r:.120}"))
            else:
                ps = ref_str(prop)
                good = (len(ps) <= w) if name == "crop" else (len(ps) == w)
                if not good:
                    viol.append((f"{name}:proposal-does-not-have-the-requested-width:{'len>width' if n > w else 'len<width'}",
                                 f"{desc}: proposed {ps!r} (length {len(ps)})"))
                info["proposal_is_python_result"] = int(ps == _py_target(name, s, w, fill))
                info["proposal_other"] = int(ps != _py_target(name, s, w, fill))
    return dict(viol=viol, verdict=v, info=info)


# --------------------------------------------------------------------------- #
# enumeration
# --------------------------------------------------------------------------- #

def _count_jobs(tier, rng):
    from bounded.grammars import GRAMMARS, START_SYMBOLS, ENUM_NODES
    from bounded.reftree import ref_tree_structs, from_struct, ref_paths
    quick = tier == "quick"
    jobs = []
    for gname in COUNT_GRAMMARS:
        g = GRAMMARS[gname]
        structs = list(ref_tree_structs(g, START_SYMBOLS[gname], min(ENUM_NODES[gname], 12 if quick else 14)))
        if quick and len(structs) > 25:
            structs = structs[:10] + rng.sample(structs[10:], 15)
        elif len(structs) > 120:
            structs = structs[:40] + rng.sample(structs[40:], 80)
        needles = list(g.keys())
        for st in structs:
            t = from_struct(st)
            subs = [p for p, nd in ref_paths(t) if nd.value in g and nd.children]
            subs = [()] + ([rng.choice(subs[1:])] if len(subs) > 1 else [])
            for sp in subs:
                for needle in needles:
                    for n in range(-1, 7):
                        for form in ("str", "leaf"):
                            jobs.append(("count", (gname, st, list(sp), needle, n, form)))
                    jobs.append(("count", (gname, st, list(sp), needle, None, "var")))
    return jobs


def _octal_jobs(tier, rng):
    quick = tier == "quick"
    jobs = []
    octs = ["".join(t) for k in (1, 2, 3) for t in itertools.product("01234567", repeat=k)]
    if quick:
        octs = octs[:72] + rng.sample(octs[72:], 60)
    octs += ["".join(rng.choice("01234567") for _ in range(4)) for _ in range(20 if quick else 200)]
    for o in octs:
        val = int(o, 8)
        ds = {str(val), str(val).rjust(4, "0")[:max(4, len(str(val)))], o, str(int(o)), str(val + 1), str(max(0, val - 1)),
              oct(int(o))[2:] if int(o) < 10000 else "0", str(rng.randrange(0, 10000)), "0" + str(val)}
        for d in sorted(ds):
            if d.isdigit() and len(d) <= 5:
                for dform in ("tree", "leaf"):
                    jobs.append(("octal", (o, d, dform)))
        jobs.append(("octal", (o, None, "tree")))
        jobs.append(("octal", (o, None, "leaf")))
    decs = [str(i) for i in range(0, 70)] + [str(rng.randrange(70, 10000)) for _ in range(30 if quick else 300)] + ["007", "010", "0000"]
    for d in decs:
        jobs.append(("octal", (None, d, "tree")))
        jobs.append(("octal", (None, d, "leaf")))
    return jobs


def _just_jobs(tier, rng):
    quick = tier == "quick"
    jobs = []
    alpha = ["a", " ", "0"]
    strs = [""] + ["".join(t) for k in (1, 2, 3, 4) for t in itertools.product(alpha, repeat=k)]
    if quick:
        strs = [s for s in strs if len(s) <= 3] + rng.sample([s for s in strs if len(s) == 4], 12)
    widths = range(0, 7)
    for s in strs:
        for w in widths:
            for name in JUST:
                for fill in (" ", "0"):
                    for wform in ("int", "leaf"):
                        jobs.append(("just", (name, "str", s, w, fill, wform)))
            for wform in ("int", "leaf"):
                jobs.append(("just", ("crop", "str", s, w, None, wform)))
            if s and s == s[0] * len(s):
                for wform in ("int", "leaf"):
                    jobs.append(("just", ("extend_crop", "str", s, w, None, wform)))
        for name in list(JUST) + ["crop"] + (["extend_crop"] if s and s == s[0] * len(s) else []):
            jobs.append(("just", (name, "str", s, -1, None if name in ("crop", "extend_crop") else " ", "var")))
    # a fill character outside the language, and a grammar whose words cannot be cut anywhere
    for s in ("a", "a0", ""):
        for w in (0, 1, 3):
            for name in JUST:
                jobs.append(("just", (name, "str", s, w, "#", "int")))
    for s in ("ab", "ab0", "abab", "0ab0"):
        for w in range(0, 6):
            for name in JUST:
                jobs.append(("just", (name, "pair", s, w, "0", "int")))
            jobs.append(("just", ("crop", "pair", s, w, None, "leaf")))
    return jobs


def _run_case(kind, payload) -> dict:
    if kind == "count":
        return case_count(*payload)
    if kind == "octal":
        return case_octal(*payload)
    return case_just(*payload)


def _alarm(_s, _f):
    raise TimeoutError("watchdog")


def _worker(chunk):
    signal.signal(signal.SIGALRM, _alarm)
    out = []
    for idx, kind, payload in chunk:
        signal.alarm(120)
        try:
            r = _run_case(kind, payload)
            r.update(idx=idx)
            out.append(r)
        except TimeoutError:
            out.append(dict(idx=idx, timeout=True))
        except Exception:
            out.append(dict(idx=idx, crash=traceback.format_exc(limit=6)))
        finally:
            signal.alarm(0)
    return out


def run(rep, tier, seed):
    rng = random.Random(f"C20:{seed}:{tier}")
    quick = tier == "quick"
    rep.rule("case = one call of SemanticPredicate.evaluate(graph, *args) with closed tree arguments: count(tree, needle, n) over "
             "closed ref_trees (root and one inner subtree) of 6 fixed grammars x every nonterminal of the grammar x n in -1..6 as "
             "str / closed numeric leaf / variable; octal_to_decimal over octal strings x related decimal strings (equal value, "
             "leading zeros, neighbours, digit-identical, random) as <decimal_digits> parse tree and as numeric leaf, and with "
             "either side a variable; crop/ljust/rjust/ljust_crop/rjust_crop/extend_crop over strings x widths x fill x width form "
             "(int as the ISLa parser passes literals, closed numeric leaf as substitution creates, variable); every case is "
             "non-trivial (both TRUE and not-TRUE expectations occur in each family, counted below)")
    rep.bound("count: trees <= 12 nodes (14 thorough); octal strings: all of <= 3 digits (quick: 132 of them) + random 4-digit ones; "
              "decimal strings <= 5 digits; crop/just: all strings over {a, blank, 0} of length <= 4 (quick: all <= 3 + 12 of length 4) "
              "x widths 0..6 x fill in {blank, 0}; plus fill '#' (not in the language) and a grammar of 2-character tokens")
    rep.assume("oracles: own node count over ref_paths; int(o, 8) == int(d); len(str); bounded.reftree.ref_valid/ref_member for proposals")
    rep.assume("crop(t, w) is read as 'TRUE iff t needs no cropping, len(str(t)) <= w'. Why: crop has no docstring and is used in no "
               "shipped formalization; its only proposal is the prefix str(t)[:w] (it never pads), so 'len == w' could never be "
               "established for a shorter argument, whereas every padding variant can establish it; the name and tests/test_predicates."
               "test_crop (crop('abcd', 4) is TRUE, crop('abcdefghijkl', 3) proposes 'abc') fit this reading. Cases with len < w, where "
               "the stricter reading 'len == w' would differ, are counted in section crop_just.crop_shorter_true")
    rep.assume("numeric proposals ({var: DerivationTree(str(n), None)}) are judged by their string (canonical decimal numeral); "
               "whether such an (open, single-node) numeral is accepted back as a width is recorded (section crop_just.refeed_*), not judged")
    rep.assume("widths are passed as int (what the ISLa parser passes for an unquoted numeral, and what tar.py passes) or as closed "
               "numeric leaf DerivationTree(str(w), ()) (what language.substitute creates); quoted numerals (str) are not exercised for "
               "crop/just because no documentation allows them")
    rep.assume("extend_crop is only applied to non-empty runs of one character (asserted by the code; rest.py applies it to underlines)")
    rep.assume("proposals are required to be closed, valid for the argument's nonterminal and of the requested width; that they are the "
               "Python ljust/rjust/slice of the argument is recorded (proposal_is_python_result), not demanded")
    rep.assume("count with an int literal as NUM (islaspec: 'NUM a numeric String or int variable') is not exercised; the ISLa parser "
               "passes quoted numerals as str")
    rep.exhaustive = False
    jobs = _count_jobs(tier, rng) + _octal_jobs(tier, rng) + _just_jobs(tier, rng)
    jobs = [(i, k, p) for i, (k, p) in enumerate(jobs)]
    chunks = [jobs[i:i + 200] for i in range(0, len(jobs), 200)]
    with mp.Pool(16) as pool:
        res = [r for chunk in pool.map(_worker, chunks, chunksize=1) for r in chunk]
    res.sort(key=lambda r: r["idx"])
    viol = []
    fam: Dict[str, Dict[str, int]] = {"count": {}, "octal_to_decimal": {}, "crop_just": {}}
    for r, (idx, kind, payload) in zip(res, jobs):
        assert r["idx"] == idx
        sec = fam["count" if kind == "count" else "octal_to_decimal" if kind == "octal" else "crop_just"]
        if r.get("timeout"):
            rep.note_inconclusive(f"watchdog {kind} {payload!r:.100}")
            continue
        if r.get("crash"):
            rep.checker_error(f"harness crashed on {kind} {payload!r:.120}: {r['crash'][-300:]}")
            continue
        key = (kind,) + tuple(json.dumps(p) if isinstance(p, (list, tuple)) else p for p in payload)
        rep.case(key=key, nontrivial=True,
                 sample=dict(kind=kind, args=[repr(p)[:60] for p in payload], verdict=r["verdict"]) if idx % 1801 == 0 else None)
        name = payload[0] if kind == "just" else kind
        sec[f"{name}.{r['verdict']}"] = sec.get(f"{name}.{r['verdict']}", 0) + 1
        sec["cases"] = sec.get("cases", 0) + 1
        if r.get("expect") is True:
            sec["expected_TRUE"] = sec.get("expected_TRUE", 0) + 1
        if r.get("expect") is False:
            sec["expected_FALSE"] = sec.get("expected_FALSE", 0) + 1
        for k, v in (r.get("info") or {}).items():
            k2 = f"refeed_{v}" if k == "refeed" else k
            sec[k2] = sec.get(k2, 0) + (1 if k == "refeed" else v)
        for sig, what in r["viol"]:
            viol.append((sig, len(what), what, dict(kind=kind, payload=payload, signature=sig)))
    viol.sort(key=lambda v: (v[0], v[1], v[2]))
    for sig, _n, what, case in viol:
        rep.violation(sig, what, dict(module=MODULE, case=case))
    for name, sec in fam.items():
        rep.section(name, **sec)
        if not sec.get("cases"):
            rep.checker_error(f"family {name} produced zero cases")
    if not fam["count"].get("expected_TRUE") or not fam["count"].get("expected_FALSE"):
        rep.checker_error("count: expected verdicts are not mixed")
    if not fam["octal_to_decimal"].get("expected_TRUE") or not fam["octal_to_decimal"].get("expected_FALSE"):
        rep.checker_error("octal_to_decimal: expected verdicts are not mixed")
    for n in list(JUST) + ["crop", "extend_crop"]:
        if not fam["crop_just"].get(f"{n}.TRUE") or not fam["crop_just"].get(f"{n}.PROPOSAL"):
            rep.checker_error(f"{n}: TRUE or PROPOSAL outcome never reached")
    _sanity(rep)


def _sanity(rep):
    # verdicts known by construction (F9's witnesses): 017 octal is 15 decimal
    r = case_octal("17", "15", "tree")
    r2 = case_octal("17", "21", "tree")
    if r.get("expect") is not True or r2.get("expect") is not False:
        rep.checker_error("sanity: oracle for octal_to_decimal(17,15)/(17,21) is wrong")
    from bounded.grammars import GRAMMARS
    from bounded.reftree import tree_from_string, to_struct
    st = to_struct(tree_from_string(GRAMMARS["assgn"], "a := 1 ; b := a"))
    c = case_count("assgn", st, [], "<assgn>", 2, "str")
    if c.get("expect") is not True:
        rep.checker_error("sanity: 'a := 1 ; b := a' must contain exactly two <assgn> nodes for the oracle")
    if c["viol"]:
        rep.checker_error(f"sanity: count on the spec's example reported {c['viol']}")
    rep.case(key="sanity", nontrivial=True)


def replay(path) -> int:
    case = json.load(open(path))["case"]
    payload = case["payload"]
    if case["kind"] == "count":
        payload = list(payload)
        payload[1] = _tuplify(payload[1])
    r = _run_case(case["kind"], payload)
    print(f"{case['kind']} {payload!r:.200}: verdict {r.get('verdict')}")
    for s, w in r["viol"]:
        print(f"  {s}: {w[:300]}")
    want = case.get("signature")
    sigs = {s for s, _ in r["viol"]}
    still = (want in sigs) if want else bool(sigs)
    print("still fails" if still else "no longer fails")
    return 1 if still else 0


def _tuplify(x):
    if isinstance(x, list):
        return tuple(_tuplify(y) for y in x)
    return x
