"""C18 -- check/parse/repair/mutate relations: bounded (nothing proved)."""
from vlib.harness import proved_tier
from checks import bounded_C18

LEVEL = "exploration"


def run(rep, tier, seed):
    bounded_C18.run(rep, tier, seed)


def replay(path):
    import json
    d = json.load(open(path))
    if d.get("module", "").startswith("checks.bounded_") or "case" in d:
        return bounded_C18.replay(path)
    from vlib.harness import replay_file
    return replay_file(path)
