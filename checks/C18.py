"""C18 -- check/parse/repair/mutate relations.  Proved: how check/parse/repair compose the parser and the
evaluator (exception flow, verdict relations) over assumed contracts of those two dependencies.
Bounded: the relations end-to-end against independent oracles."""
from vlib.harness import proved_tier
from checks import bounded_C18

LEVEL = "other"


def run(rep, tier, seed):
    proved_tier(rep, "C18", seed, expected_min_obligations=6)
    bounded_C18.run(rep, tier, seed)


def replay(path):
    import json
    d = json.load(open(path))
    if d.get("module", "").startswith("checks.bounded_") or "case" in d:
        return bounded_C18.replay(path)
    from vlib.harness import replay_file
    return replay_file(path)
