"""C01 -- solver solutions. Proved (supporting): call shape of the elimination chain and of the SMT fast path; cached open-flag invariant of DerivationTree (closedness of results rests on it); list_del. Bounded: post-condition of solve() against independent oracles."""
from vlib.harness import proved_tier
from checks import bounded_C01

LEVEL = "other"


def run(rep, tier, seed):
    from checks import syntactic
    syntactic.run(rep, "C01")
    proved_tier(rep, "C01", seed, expected_min_obligations=20)
    bounded_C01.run(rep, tier, seed)


def replay(path):
    import json
    d = json.load(open(path))
    if d.get("module", "").startswith("checks.bounded_") or "case" in d:
        return bounded_C01.replay(path)
    from vlib.harness import replay_file
    return replay_file(path)
