"""C19 -- command line contract.  Proved (one fragment): get_input_string strips exactly one trailing line break of an
input file.  Bounded: exit codes / outputs of cli.main over generated file sets."""
from vlib.harness import proved_tier
from checks import bounded_C19

LEVEL = "other"


def run(rep, tier, seed):
    proved_tier(rep, "C19", seed, expected_min_obligations=1)
    bounded_C19.run(rep, tier, seed)


def replay(path):
    import json
    d = json.load(open(path))
    if d.get("module", "").startswith("checks.bounded_") or "case" in d:
        return bounded_C19.replay(path)
    from vlib.harness import replay_file
    return replay_file(path)
