"""C16 -- derivation-tree operations.  Proved: path helpers, list_set/list_del
(whole-view post-conditions), nth_occ, trie key encode/decode + round-trip and
prefix-homomorphism lemmas, cached open-flag representation invariant.
Bounded: operation histories (bounded_C16)."""
from vlib.harness import proved_tier

LEVEL = "other"


def run(rep, tier, seed):
    proved_tier(rep, "C16", seed, expected_min_obligations=30)
    try:
        from checks import bounded_C16
    except ImportError:
        rep.assume("bounded part (operation histories) not built yet")
        return
    bounded_C16.run(rep, tier, seed)


def replay(path):
    import json
    d = json.load(open(path))
    if d.get("module", "").startswith("checks.bounded_") or "case" in d:
        from checks import bounded_C16
        return bounded_C16.replay(path)
    from vlib.harness import replay_file
    return replay_file(path)
