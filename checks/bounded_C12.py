"""C12 (bounded) -- fuzzer completion and mutation.

Contract (property statement):

  r = GrammarFuzzer(G).expand_tree(t) / GrammarCoverageFuzzer(G).expand_tree(t)
      for an open derivation tree t of G:
        not ref_open(r), ref_valid(G, r, t.value), and t is a prefix of r: every
        node of t whose children are not None sits at the same path in r with the
        same label, the same number of children and the same id; open leaves of t
        keep their label.
  r = Mutator(G).mutate(t) for a closed derivation tree t:
        not ref_open(r), ref_valid(G, r, t.value)  (hence the same root symbol).

"For every random choice": many seeds (random.seed before each call, fresh
fuzzer / mutator object per call, optionally warmed up by fuzz_tree() calls so
that the coverage fuzzer's state differs); the thorough tier replaces the
`random` module object seen by isla.fuzzer and isla.mutator by a choice oracle
that enumerates decision sequences depth-first up to DEPTH decisions.

Oracles: bounded.reftree (ref_valid, ref_open, ref_paths, ref_get).
"""
from __future__ import annotations

import random
from typing import Dict, List, Optional, Sequence, Tuple

from bounded import grammars as BG
from bounded.c10_common import (
    Watchdog,
    fresh_ids_above,
    load_replay,
    run_pool,
    show,
    tree_from_json,
    tree_to_json,
    watchdog,
)
from bounded.reftree import (
    from_struct,
    ref_get,
    ref_open,
    ref_paths,
    ref_tree_structs,
    ref_valid,
    rules_of,
)

MODULE = "checks.bounded_C12"
DEPTH = 6
ORACLE_RUNS_EXPAND = 600   # cap on enumerated decision sequences per tree
ORACLE_RUNS_MUTATE = 2500

EXTRA_GRAMMARS: Dict[str, Dict[str, List[str]]] = {
    "allnull": {"<start>": ["<A><B>"], "<A>": ["", "a"], "<B>": ["", "b<B>"]},
    "midrec": {"<start>": ["<A>"], "<A>": ["(<A>)", "<A><A>x", "y"]},
    "mutual": {"<start>": ["<A>"], "<A>": ["a<B>", "a"], "<B>": ["b<A>", "<B>b", "b"]},
    "deepmin": {"<start>": ["<A>"], "<A>": ["<A>+<B>", "<B>"], "<B>": ["<C>"], "<C>": ["<D>"],
                "<D>": ["d", "(<A>)"]},
}


# --------------------------------------------------------------------------- #
# choice oracle
# --------------------------------------------------------------------------- #


class ChoiceOracle:
    """Stands in for the `random` module inside isla.fuzzer / isla.mutator.
    The first DEPTH decisions with more than one option follow ``prefix`` (then
    option 0); later ones come from a seeded generator."""

    def __init__(self, prefix: Sequence[int], seed: int):
        self.prefix = list(prefix)
        self.log: List[int] = []
        self.taken: List[int] = []
        self.rng = random.Random(seed)

    def _decide(self, n: int) -> int:
        if n <= 1:
            return 0
        pos = len(self.log)
        if pos >= DEPTH:
            return self.rng.randrange(n)
        k = self.prefix[pos] if pos < len(self.prefix) else 0
        if k >= n:
            k = n - 1
        self.log.append(n)
        self.taken.append(k)
        return k

    def randrange(self, start, stop=None):
        if stop is None:
            start, stop = 0, start
        if stop <= start:
            raise ValueError("empty range for randrange()")
        return start + self._decide(stop - start)

    def randint(self, a, b):
        return a + self._decide(b - a + 1)

    def choice(self, seq):
        if len(seq) == 0:
            raise IndexError("Cannot choose from an empty sequence")
        return seq[self._decide(len(seq))]

    def choices(self, population, weights=None, *, cum_weights=None, k=1):
        if len(population) == 0:
            raise IndexError("Cannot choose from an empty population")
        return [population[self._decide(len(population))] for _ in range(k)]

    def random(self):
        return self.rng.random()

    def __getattr__(self, name):
        return getattr(self.rng, name)


def next_prefix(taken: List[int], log: List[int]) -> Optional[List[int]]:
    """Successor in depth-first order of the decision sequence just run."""
    for i in range(len(log) - 1, -1, -1):
        if taken[i] + 1 < log[i]:
            return taken[:i] + [taken[i] + 1]
    return None


class _patched_random:
    def __init__(self, oracle):
        self.oracle = oracle

    def __enter__(self):
        import isla.fuzzer
        import isla.mutator

        self.mods = [isla.fuzzer, isla.mutator]
        self.old = [m.random for m in self.mods]
        if self.oracle is not None:
            for m in self.mods:
                m.random = self.oracle
        return self

    def __exit__(self, *exc):
        for m, o in zip(self.mods, self.old):
            m.random = o
        return False


# --------------------------------------------------------------------------- #
# contracts
# --------------------------------------------------------------------------- #


def tree_class(grammar, t) -> str:
    rules = rules_of(grammar)
    feats = []
    if any("<start>" in alt for alts in rules.values() for alt in alts):
        feats.append("start-symbol-on-right-hand-side")
    if any(n.children is not None and len(n.children) == 0 and n.value in rules for _, n in ref_paths(t)):
        feats.append("epsilon-node-without-child")
    if any(n.value == "" for _, n in ref_paths(t)):
        feats.append("epsilon-child")
    return "+".join(feats) or "plain"


def raised_in(exc: BaseException) -> str:
    """Name of the innermost function of /repo/src/isla on the traceback."""
    import traceback

    name = "?"
    for fs in traceback.extract_tb(exc.__traceback__):
        if "/isla/" in fs.filename.replace("\\", "/") and "/verif/" not in fs.filename:
            name = fs.name
    return name


def prefix_failures(t, r) -> List[str]:
    out = []
    for path, node in ref_paths(t):
        other = ref_get(r, path)
        if other is None:
            out.append(f"node-lost: path {path} ({node.value}) does not exist in the result")
            break
        if other.value != node.value:
            out.append(f"label-changed: path {path}: {node.value} became {other.value}")
            break
        if node.children is not None:
            if other.children is None or len(other.children) != len(node.children):
                out.append(f"arity-changed: path {path} ({node.value}): {len(node.children)} children "
                           f"became {None if other.children is None else len(other.children)}")
                break
            if other.id != node.id:
                out.append(f"id-changed: path {path} ({node.value}): id {node.id} became {other.id}")
                break
    return out


def _run(kind: str, grammar, t, cls_name: str, seed: int, warm: int, oracle: Optional[ChoiceOracle]):
    from isla.fuzzer import GrammarCoverageFuzzer, GrammarFuzzer
    from isla.mutator import Mutator

    random.seed(seed)
    with _patched_random(oracle):
        if kind == "expand":
            fz = (GrammarFuzzer if cls_name == "GrammarFuzzer" else GrammarCoverageFuzzer)(grammar)
            for _ in range(warm):
                fz.fuzz_tree()
            return fz.expand_tree(t)
        mut = Mutator(grammar)
        if kind == "mutate":
            return mut.mutate(t)
        # single strategy: kind = "strategy:<name>"; Nothing -> the input itself
        return getattr(mut, kind.split(":", 1)[1])(t).value_or(t)


def check_case(kind: str, grammar, t, cls_name: str, seed: int, warm: int = 0,
               prefix: Optional[List[int]] = None) -> Tuple[List[dict], Optional[ChoiceOracle]]:
    oracle = ChoiceOracle(prefix, seed) if prefix is not None else None
    api = (f"{cls_name}.expand_tree" if kind == "expand" else
           "Mutator.mutate" if kind == "mutate" else "Mutator." + kind.split(":", 1)[1])
    tcls = tree_class(grammar, t)
    fails: List[dict] = []

    def fail(k: str, detail: str):
        fails.append(dict(
            signature=f"{api}:{k}:{tcls}",
            what=f"grammar={grammar!r} tree={show(t)} seed={seed} warm={warm} "
                 f"choices={prefix if prefix is not None else 'seeded'}: {detail}",
            case=dict(kind=kind, grammar=grammar, tree=tree_to_json(t), cls=cls_name, seed=seed,
                      warm=warm, prefix=prefix),
            size=(len(ref_paths(t)), len(repr(grammar)))))

    try:
        r = _run(kind, grammar, t, cls_name, seed, warm, oracle)
    except Watchdog:
        raise
    except BaseException as exc:  # noqa
        # the raising function localises the defect; no tree class in the signature
        fails.append(dict(
            signature=f"{api}:raises-{type(exc).__name__}@{raised_in(exc)}",
            what=f"grammar={grammar!r} tree={show(t)} seed={seed} warm={warm} "
                 f"choices={prefix if prefix is not None else 'seeded'}: "
                 f"{type(exc).__name__} in {raised_in(exc)}: {str(exc)[:120]}",
            case=dict(kind=kind, grammar=grammar, tree=tree_to_json(t), cls=cls_name, seed=seed,
                      warm=warm, prefix=prefix),
            size=(len(ref_paths(t)), len(repr(grammar)))))
        return fails, oracle
    if r is None or not hasattr(r, "children"):
        fail("no-tree", f"result {r!r}")
        return fails, oracle
    if r.value != t.value:
        fail("root-changed", f"root {t.value} became {r.value}: {show(r)}")
    elif ref_open(r):
        fail("result-open", f"result {show(r)} still has an open leaf")
    elif not ref_valid(grammar, r, t.value):
        fail("result-invalid", f"result {show(r)} is no derivation tree of G")
    elif kind == "expand":
        for msg in prefix_failures(t, r):
            k, detail = msg.split(": ", 1)
            fail("prefix-" + k, detail + f"; result {show(r)}")
    return fails, oracle


# --------------------------------------------------------------------------- #
# input families
# --------------------------------------------------------------------------- #


def _spread(items: list, cap: int) -> list:
    if len(items) <= cap:
        return items
    step = len(items) / cap
    return [items[int(i * step)] for i in range(cap)]


def open_structs(grammar, nt: str, max_nodes: int, cap: int, eps_style: str) -> list:
    out = []
    for st in ref_tree_structs(grammar, nt, max_nodes, allow_open=True, eps_style=eps_style):
        if _struct_open(st):
            out.append(st)
        if len(out) >= 20000:
            break
    return _spread(out, cap)


def _struct_open(st) -> bool:
    value, children = st
    if children is None:
        return True
    return any(_struct_open(c) for c in children)


def closed_structs(grammar, nt: str, max_nodes: int, cap: int) -> list:
    out = []
    for st in ref_tree_structs(grammar, nt, max_nodes, allow_open=False, eps_style="child"):
        out.append(st)
        if len(out) >= 5000:
            break
    return _spread(out, cap)


def struct_json(st):
    value, children = st
    return [value, None if children is None else [struct_json(c) for c in children]]


def struct_unjson(j):
    value, children = j
    return (value, None if children is None else tuple(struct_unjson(c) for c in children))


# --------------------------------------------------------------------------- #
# worker
# --------------------------------------------------------------------------- #


def _worker(task) -> dict:
    import logging
    import warnings

    warnings.filterwarnings("ignore")
    logging.disable(logging.CRITICAL)
    grammar = task["grammar"]
    res = dict(n=0, fails=[], timeouts=0, timeout_cases=[], oracle_runs=0, oracle_trees=0, oracle_exhausted=0,
               changed=0, max_decisions=0)
    for sj in task["structs"]:
        st = struct_unjson(sj)
        for plan in task["plans"]:
            kind, cls_name, seeds, warm, use_oracle, max_runs = plan
            if not use_oracle:
                for seed in seeds:
                    t = from_struct(st)
                    try:
                        with watchdog(30):
                            fails, _ = check_case(kind, grammar, t, cls_name, seed, warm)
                    except Watchdog:
                        res["timeouts"] += 1
                        res["timeout_cases"].append(f"{kind} {cls_name} seed={seed} warm={warm} "
                                                    f"tree={show(t)} grammar={grammar!r}"[:400])
                        continue
                    res["n"] += 1
                    res["fails"].extend(fails)
            else:
                prefix: Optional[List[int]] = []
                runs = 0
                res["oracle_trees"] += 1
                while prefix is not None and runs < max_runs:
                    t = from_struct(st)
                    try:
                        with watchdog(30):
                            fails, oracle = check_case(kind, grammar, t, cls_name, seeds[0], warm, prefix)
                    except Watchdog:
                        res["timeouts"] += 1
                        break
                    runs += 1
                    res["n"] += 1
                    res["fails"].extend(fails)
                    res["max_decisions"] = max(res["max_decisions"], len(oracle.log))
                    prefix = next_prefix(oracle.taken, oracle.log)
                res["oracle_runs"] += runs
                if prefix is None:
                    res["oracle_exhausted"] += 1
    by_sig: Dict[str, List[dict]] = {}
    counts: Dict[str, int] = {}
    for f in res["fails"]:
        counts[f["signature"]] = counts.get(f["signature"], 0) + 1
        by_sig.setdefault(f["signature"], []).append(f)
    kept = []
    for sig, fs in by_sig.items():
        fs.sort(key=lambda f: tuple(f["size"]))
        kept.extend(fs[:3])
    res["fails"] = kept
    res["fail_counts"] = counts
    return res


def run(rep, tier, seed):
    import isla.mutator  # noqa: F401  loaded before the pool forks

    quick = tier == "quick"
    rng = random.Random(seed * 1000003 + 12)
    max_nodes = 7
    cap_open = 60 if quick else 250
    cap_closed = 20 if quick else 60
    seeds = [seed * 100 + i for i in range(3 if quick else 8)]
    n_random = 10 if quick else 40

    rep.assume("oracles bounded.reftree.ref_valid / ref_open / ref_paths / ref_get are trusted")
    rep.assume("ids of OPEN leaves of the input are not required to survive (the statement speaks "
               "of already-expanded parts); only their label at the same path is")
    rep.assume("a fresh fuzzer / mutator object is used per case (optionally warmed up with "
               "fuzz_tree() calls) so that every case can be replayed")
    rep.rule("expand case = (grammar, open tree, fuzzer class, seed, warm-up) ; mutate case = "
             "(grammar, closed tree, seed) for Mutator.mutate and for each of the three strategies "
             "replace_subtree_randomly / generalize_subtree / swap_subtrees on their own (Nothing = "
             "input unchanged); all cases are non-trivial (the input tree is open resp. "
             "has at least one inner node)")
    rep.bound(f"open trees: ref_trees(allow_open=True) with <= {max_nodes} nodes rooted in the start "
              f"symbol and in every other nonterminal (both epsilon styles), at most {cap_open} per "
              f"(grammar, root) spread evenly over the enumeration; closed trees for mutate: "
              f"<= max(ENUM_NODES, 9) nodes, at most {cap_closed} per grammar rooted in the start symbol plus a few rooted in "
              f"every other nonterminal")
    rep.bound(f"random choices: seeds {seeds}; thorough tier: choice oracle enumerating the first "
              f"{DEPTH} decisions depth-first (at most {ORACLE_RUNS_EXPAND} runs per open tree, "
              f"{ORACLE_RUNS_MUTATE} per closed tree; sections.*-oracle.oracle_exhausted counts the trees "
              f"whose decision tree was enumerated completely)")
    rep.bound(f"grammars: {len(BG.GRAMMARS)} shared, {len(EXTRA_GRAMMARS)} extra recursive/nullable, "
              f"{n_random} random")

    fam: List[Tuple[str, dict, str, int]] = []
    for name, g in BG.GRAMMARS.items():
        fam.append((name, g, BG.START_SYMBOLS[name], min(BG.ENUM_NODES[name], 12)))
    for name, g in EXTRA_GRAMMARS.items():
        fam.append((name, g, "<start>", 9))
    for i in range(n_random):
        fam.append((f"random{i}", BG.random_grammar(rng), "<start>", 9))

    tasks = []
    n_open = n_closed = 0
    for name, g, start, enum_nodes in fam:
        roots = [start] + [nt for nt in g if nt != start]
        for root in roots:
            for style in ("child", "empty"):
                if style == "empty" and not BG.nullable_nonterminals(g):
                    continue
                cap = cap_open if root == start else max(10, cap_open // 4)
                structs = open_structs(g, root, max_nodes, cap, style)
                if style == "empty":
                    # only trees that really contain a style-A epsilon node
                    structs = [s for s in structs if "epsilon-node-without-child"
                               in tree_class(g, from_struct(s))]
                n_open += len(structs)
                plans = [("expand", "GrammarFuzzer", seeds, 0, False, 0),
                         ("expand", "GrammarCoverageFuzzer", seeds, 0, False, 0),
                         ("expand", "GrammarCoverageFuzzer", seeds[:1], 3, False, 0)]
                for i in range(0, len(structs), 20):
                    tasks.append(dict(gname=name, grammar=g, family="expand",
                                      structs=[struct_json(s) for s in structs[i:i + 20]], plans=plans))
                if not quick and root == start and style == "child":
                    sub = _spread(structs, 30)
                    plans_o = [("expand", "GrammarFuzzer", seeds[:1], 0, True, ORACLE_RUNS_EXPAND),
                               ("expand", "GrammarCoverageFuzzer", seeds[:1], 0, True, ORACLE_RUNS_EXPAND)]
                    for i in range(0, len(sub), 5):
                        tasks.append(dict(gname=name, grammar=g, family="expand-oracle",
                                          structs=[struct_json(s) for s in sub[i:i + 5]], plans=plans_o))
        closed = closed_structs(g, start, max(enum_nodes, 9), cap_closed)
        n_closed += len(closed)
        plans = [("mutate", "Mutator", seeds, 0, False, 0),
                 ("strategy:replace_subtree_randomly", "Mutator", seeds, 0, False, 0),
                 ("strategy:generalize_subtree", "Mutator", seeds, 0, False, 0),
                 ("strategy:swap_subtrees", "Mutator", seeds[:2], 0, False, 0)]
        # closed trees rooted in the other nonterminals as well (Mutator accepts any closed tree; the result must
        # keep ITS root symbol, not become a <start> tree)
        for root_nt in [nt for nt in g if nt != start]:
            try:
                sub_closed = closed_structs(g, root_nt, max(enum_nodes, 9), 4 if quick else 12)
            except Exception:  # noqa
                sub_closed = []
            sub_closed = [s_ for s_ in sub_closed if s_ not in closed]
            n_closed += len(sub_closed)
            closed = closed + sub_closed
        for i in range(0, len(closed), 10):
            tasks.append(dict(gname=name, grammar=g, family="mutate",
                              structs=[struct_json(s) for s in closed[i:i + 10]], plans=plans))
        if not quick:
            sub = _spread(closed, 4)
            for i in range(0, len(sub), 1):
                tasks.append(dict(gname=name, grammar=g, family="mutate-oracle",
                                  structs=[struct_json(s) for s in sub[i:i + 1]],
                                  plans=[("mutate", "Mutator", seeds[:1], 0, True, ORACLE_RUNS_MUTATE)]))

    counts: Dict[str, Dict[str, int]] = {}
    all_fails: List[dict] = []
    fail_counts: Dict[str, int] = {}
    shown = 0
    for task, res in zip(tasks, run_pool(_worker, tasks, 16)):
        if "__crash__" in res:
            rep.checker_error("worker crashed: " + res["__crash__"])
            continue
        c = counts.setdefault(task["family"], dict(cases=0, trees=0, timeouts=0, oracle_runs=0,
                                                   oracle_trees=0, oracle_exhausted=0, max_decisions=0))
        c["cases"] += res["n"]
        c["trees"] += len(task["structs"])
        c["timeouts"] += res["timeouts"]
        c["oracle_runs"] += res["oracle_runs"]
        c["oracle_trees"] += res["oracle_trees"]
        c["oracle_exhausted"] += res["oracle_exhausted"]
        c["max_decisions"] = max(c["max_decisions"], res["max_decisions"])
        for sj in task["structs"]:
            shown += 1
            rep.case(key=(task["gname"], task["family"], repr(sj)), nontrivial=True,
                     sample=dict(grammar=task["gname"], family=task["family"],
                                 tree=show(from_struct(struct_unjson(sj)))) if shown % 499 == 1 else None)
        for tc in res["timeout_cases"]:
            rep.note_inconclusive("watchdog (30 s): " + tc)
        all_fails.extend(res["fails"])
        for sig, n in res["fail_counts"].items():
            fail_counts[sig] = fail_counts.get(sig, 0) + n
    rep.evaluations = sum(c["cases"] for c in counts.values())
    for famname, c in counts.items():
        rep.section(famname, **c)
        if c["timeouts"]:
            rep.note_inconclusive(f"{c['timeouts']} cases of {famname} hit the 30 s watchdog")
    rep.section("inputs", open_trees=n_open, closed_trees=n_closed, grammars=len(fam))
    rep.section("failures_by_signature", **fail_counts)
    rep.exhaustive = False

    if counts.get("expand", {}).get("cases", 0) == 0:
        rep.checker_error("no expand_tree case")
    if counts.get("mutate", {}).get("cases", 0) == 0:
        rep.checker_error("no mutate case")
    if not quick and counts.get("expand-oracle", {}).get("oracle_runs", 0) == 0:
        rep.checker_error("choice oracle never ran")
    # sanity: the prefix oracle must reject a changed tree
    from isla.derivation_tree import DerivationTree as DT

    a = DT("<start>", (DT("<A>", None),))
    b = DT("<start>", (DT("<A>", (DT("a", ()),)),))
    if not prefix_failures(a, b) or prefix_failures(a, DT("<start>", (DT("<A>", (DT("a", ()),)),), id=a.id)):
        rep.checker_error("sanity: prefix oracle")
    # sanity: choice oracle enumerates 2*3 sequences
    seqs = []
    p: Optional[List[int]] = []
    while p is not None:
        o = ChoiceOracle(p, 0)
        seqs.append((o.randrange(2), o.choice("abc")))
        p = next_prefix(o.taken, o.log)
    if len(set(seqs)) != 6:
        rep.checker_error("sanity: choice oracle enumeration " + repr(seqs))

    all_fails.sort(key=lambda f: (f["signature"], tuple(f["size"]), f["what"]))
    for f in all_fails:
        rep.violation(f["signature"], f["what"], {"module": MODULE, "case": f["case"]})


def replay(path: str) -> int:
    data = load_replay(path)
    c = data["case"]
    t = tree_from_json(c["tree"], keep_ids=True)
    fresh_ids_above(t)
    print(f"replay C12: {c['kind']} {c['cls']} seed={c['seed']} warm={c['warm']} prefix={c['prefix']} "
          f"tree={show(t)} grammar={c['grammar']!r}")
    fails, _ = check_case(c["kind"], c["grammar"], t, c["cls"], c["seed"], c["warm"], c["prefix"])
    for f in fails:
        print("  still fails:", f["signature"], "--", f["what"])
    if not fails:
        print("  contract holds now")
    return 1 if fails else 0
